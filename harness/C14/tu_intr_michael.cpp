// C14 shard: cds::intrusive::MichaelHashSet over intrusive MichaelList / LazyList / IterableList (HP), MichaelList (DHP, RCU)
#include "c14.h"
#include <cds/intrusive/michael_list_hp.h>
#include <cds/intrusive/michael_list_dhp.h>
#include <cds/intrusive/michael_list_rcu.h>
#include <cds/intrusive/lazy_list_hp.h>
#include <cds/intrusive/lazy_list_rcu.h>
#include <cds/intrusive/iterable_list_hp.h>
#include <cds/intrusive/michael_set.h>
#include <cds/intrusive/michael_set_rcu.h>
#include "c14_intr.h"

namespace {
    using namespace c14;
    namespace ci = cds::intrusive;

    template <class GC> struct M {
        typedef Item< ci::michael_list::node< GC > > item;
        struct lt : public ci::michael_list::traits {
            typedef ci::michael_list::base_hook< cds::opt::gc< GC > > hook;
            typedef i_cmp compare; typedef i_disposer disposer; typedef cds::backoff::empty back_off;
        };
        struct st : public ci::michael_set::traits { typedef i_hash hash; };
        typedef ci::MichaelHashSet< GC, ci::MichaelList< GC, item, lt >, st > set;
    };
    template <class GC> struct L {
        typedef Item< ci::lazy_list::node< GC > > item;
        struct lt : public ci::lazy_list::traits {
            typedef ci::lazy_list::base_hook< cds::opt::gc< GC > > hook;
            typedef i_less less; typedef i_disposer disposer; typedef cds::backoff::empty back_off;
        };
        struct st : public ci::michael_set::traits { typedef i_hash hash; };
        typedef ci::MichaelHashSet< GC, ci::LazyList< GC, item, lt >, st > set;
    };
    template <class GC> struct I {
        typedef Item< NoHook > item;
        struct lt : public ci::iterable_list::traits { typedef i_cmp compare; typedef i_disposer disposer; typedef cds::backoff::empty back_off; };
        struct st : public ci::michael_set::traits { typedef i_hash hash; };
        typedef ci::MichaelHashSet< GC, ci::IterableList< GC, item, lt >, st > set;
    };
    typedef M<cds::gc::HP>::set c1; typedef L<cds::gc::HP>::set c2; typedef I<cds::gc::HP>::set c3;
    typedef M<cds::gc::DHP>::set c4; typedef M<rcu_gpb>::set c5; typedef L<rcu_gpi>::set c6;
#define AD( C, FL, LK ) ISetAd< C, IBuildHash< C >, FL, LK >
    typedef AD( c1, FL_HP, LK_PLAIN ) a1; typedef AD( c2, FL_HP, LK_PLAIN ) a2; typedef AD( c3, FL_HP, LK_ITER ) a3;
    typedef AD( c4, FL_HP, LK_PLAIN ) a4; typedef AD( c5, FL_RCU, LK_PLAIN ) a5; typedef AD( c6, FL_RCU, LK_PLAIN ) a6;
    C14_VARIANT( a1, "intrusive::MichaelHashSet<HP,MichaelList>", "set", "michael" )
    C14_VARIANT( a2, "intrusive::MichaelHashSet<HP,LazyList>", "set", "michael" )
    C14_VARIANT( a3, "intrusive::MichaelHashSet<HP,IterableList>", "set", "michael" )
    C14_VARIANT( a4, "intrusive::MichaelHashSet<DHP,MichaelList>", "set", "michael" )
    C14_VARIANT( a5, "intrusive::MichaelHashSet<RCU_GPB,MichaelList>", "set", "michael" )
    C14_VARIANT( a6, "intrusive::MichaelHashSet<RCU_GPI,LazyList>", "set", "michael" )
}
C14_MAIN
