// C14 shard: cds::container::MichaelHashMap over MichaelKVList / LazyKVList / IterableKVList, gc::HP and gc::DHP
#include <cds/container/michael_kvlist_hp.h>
#include <cds/container/michael_kvlist_dhp.h>
#include <cds/container/lazy_kvlist_hp.h>
#include <cds/container/lazy_kvlist_dhp.h>
#include <cds/container/iterable_kvlist_hp.h>
#include <cds/container/iterable_kvlist_dhp.h>
#include <cds/container/michael_map.h>
#include "c14_cont.h"

namespace {
    using namespace c14;
    namespace cc = cds::container;

    struct ml_traits : public cc::michael_list::traits { typedef std::less<long> less; typedef cds::backoff::empty back_off; };
    struct ll_traits : public cc::lazy_list::traits { typedef std::less<long> less; typedef cds::backoff::empty back_off; };
    struct il_traits : public cc::iterable_list::traits { typedef std::less<long> less; typedef cds::backoff::empty back_off; };
    struct mm_traits : public cc::michael_map::traits { typedef map_hash hash; };

    template <class GC> struct T {
        typedef cc::MichaelHashMap< GC, cc::MichaelKVList< GC, long, long, ml_traits >, mm_traits > michael;
        typedef cc::MichaelHashMap< GC, cc::LazyKVList< GC, long, long, ll_traits >, mm_traits > lazy;
        typedef cc::MichaelHashMap< GC, cc::IterableKVList< GC, long, long, il_traits >, mm_traits > iterable;
    };
    typedef T<cds::gc::HP> HP; typedef T<cds::gc::DHP> DHP;
#define AD( C, LK ) MapAd< C, BuildHash< C >, FL_HP, LK >
    typedef AD( HP::michael, LK_PLAIN ) a1; typedef AD( HP::lazy, LK_PLAIN ) a2; typedef AD( HP::iterable, LK_ITER ) a3;
    typedef AD( DHP::michael, LK_PLAIN ) a4; typedef AD( DHP::lazy, LK_PLAIN ) a5; typedef AD( DHP::iterable, LK_ITER ) a6;
    C14_VARIANT( a1, "MichaelHashMap<HP,MichaelKVList>", "map", "michael" )
    C14_VARIANT( a2, "MichaelHashMap<HP,LazyKVList>", "map", "michael" )
    C14_VARIANT( a3, "MichaelHashMap<HP,IterableKVList>", "map", "michael" )
    C14_VARIANT( a4, "MichaelHashMap<DHP,MichaelKVList>", "map", "michael" )
    C14_VARIANT( a5, "MichaelHashMap<DHP,LazyKVList>", "map", "michael" )
    C14_VARIANT( a6, "MichaelHashMap<DHP,IterableKVList>", "map", "michael" )
}
C14_MAIN
