// C14 shard: cds::container::MichaelHashSet over MichaelList / LazyList / IterableList, gc::HP and gc::DHP
#include <cds/container/michael_list_hp.h>
#include <cds/container/michael_list_dhp.h>
#include <cds/container/lazy_list_hp.h>
#include <cds/container/lazy_list_dhp.h>
#include <cds/container/iterable_list_hp.h>
#include <cds/container/iterable_list_dhp.h>
#include <cds/container/michael_set.h>
#include "c14_cont.h"

namespace {
    using namespace c14;
    namespace cc = cds::container;

    struct ml_traits : public cc::michael_list::traits { typedef set_cmp compare; typedef cds::backoff::empty back_off; };
    struct ll_traits : public cc::lazy_list::traits { typedef set_less less; typedef cds::backoff::empty back_off; };
    struct il_traits : public cc::iterable_list::traits { typedef set_cmp compare; typedef cds::backoff::empty back_off; };
    struct ms_traits : public cc::michael_set::traits { typedef set_hash hash; };

    template <class GC> struct T {
        typedef cc::MichaelHashSet< GC, cc::MichaelList< GC, SetItem, ml_traits >, ms_traits > michael;
        typedef cc::MichaelHashSet< GC, cc::LazyList< GC, SetItem, ll_traits >, ms_traits > lazy;
        typedef cc::MichaelHashSet< GC, cc::IterableList< GC, SetItem, il_traits >, ms_traits > iterable;
    };
    typedef T<cds::gc::HP> HP; typedef T<cds::gc::DHP> DHP;
#define AD( C, LK ) SetAd< C, BuildHash< C >, FL_HP, LK >
    typedef AD( HP::michael, LK_PLAIN ) a1; typedef AD( HP::lazy, LK_PLAIN ) a2; typedef AD( HP::iterable, LK_ITER ) a3;
    typedef AD( DHP::michael, LK_PLAIN ) a4; typedef AD( DHP::lazy, LK_PLAIN ) a5; typedef AD( DHP::iterable, LK_ITER ) a6;
    C14_VARIANT( a1, "MichaelHashSet<HP,MichaelList>", "set", "michael" )
    C14_VARIANT( a2, "MichaelHashSet<HP,LazyList>", "set", "michael" )
    C14_VARIANT( a3, "MichaelHashSet<HP,IterableList>", "set", "michael" )
    C14_VARIANT( a4, "MichaelHashSet<DHP,MichaelList>", "set", "michael" )
    C14_VARIANT( a5, "MichaelHashSet<DHP,LazyList>", "set", "michael" )
    C14_VARIANT( a6, "MichaelHashSet<DHP,IterableList>", "set", "michael" )
}
C14_MAIN
