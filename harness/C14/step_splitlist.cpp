// C14 step correspondence: cds::intrusive::SplitListSet<cds::gc::HP, MichaelList<HP>> (expandable bucket table, load factor 1,
// item_counter = atomicity::item_counter, empty statistics, empty back-off) against LV.Model.SplitList, event by event.
// cfg = [ loop fuel (model only); item count passed to the constructor; hash of key 0; hash of key 1; ... ]
// operations: 1 k insert   7 k erase   13 k contains
#include <cds/init.h>
#include <cds/gc/hp.h>
#include <cds/intrusive/michael_list_hp.h>
#include <cds/intrusive/split_list.h>
#include <vcase.h>
#include <memory>

namespace vs = khizmax_libcds_verif;
namespace ci = cds::intrusive;
static std::vector<size_t> g_hash;
struct item : public ci::split_list::node< ci::michael_list::node< cds::gc::HP > > { long key; bool disposed; item( long k ) : key( k ), disposed( false ) {} };
struct hash_fn { size_t operator()( long k ) const { return g_hash[k]; } size_t operator()( item const& i ) const { return g_hash[i.key]; } };
struct cmp { int operator()( item const& a, item const& b ) const { return a.key < b.key ? -1 : a.key > b.key ? 1 : 0; }
             int operator()( item const& a, long b ) const { return a.key < b ? -1 : a.key > b ? 1 : 0; }
             int operator()( long a, item const& b ) const { return a < b.key ? -1 : a > b.key ? 1 : 0; } };
struct disp { void operator()( item* p ) const { p->disposed = true; } };
struct list_traits : public ci::michael_list::traits {
    typedef ci::michael_list::base_hook< cds::opt::gc< cds::gc::HP > > hook;
    typedef cmp compare; typedef disp disposer; typedef cds::backoff::empty back_off;
};
struct set_traits : public ci::split_list::traits { typedef hash_fn hash; typedef cds::backoff::empty back_off; };
typedef ci::SplitListSet< cds::gc::HP, ci::MichaelList< cds::gc::HP, item, list_traits >, set_traits > set_type;

int main( int argc, char** argv )
{
    if ( argc < 2 ) return 2;
    cds::Initialize();
    {
        cds::gc::HP hp( 16, 8, 4096 );
        cds::threading::Manager::attachThread();
        std::ifstream in( argv[1] );
        vcase::Case c;
        while ( vcase::read_case( in, c )) {
            g_hash.clear();
            for ( size_t i = 2; i < c.cfg.size(); ++i ) g_hash.push_back( (size_t) c.cfg[i] );
            std::unique_ptr<set_type> s( new set_type( (size_t) c.cfg[1], 1 ));
            vcase::run_workers( c, [&]( int t ) {
                for ( auto const& op : c.threads[t] ) {
                    long k = op.size() > 1 ? op[1] : 0;
                    vcase::emitf( "inv %ld %ld", op[0], k );
                    switch ( op[0] ) {
                    case 1: { item* p = new item( k ); bool r = s->insert( *p ); vcase::emitf( "ret %ld 0", (long) r ); break; }
                    case 7: { bool r = s->erase( k ); vcase::emitf( "ret %ld 0", (long) r ); break; }
                    default: { bool r = s->contains( k ); vcase::emitf( "ret %ld 0", (long) r ); break; }
                    }
                }
            },
            []( int ) { cds::threading::Manager::attachThread(); },
            []( int ) { cds::threading::Manager::detachThread(); }, 40000 );
            vcase::print_log( c );
            std::vector<long> keys;
            for ( auto it = s->begin(); it != s->end(); ++it ) keys.push_back( it->key );
            std::printf( "monitor keys" ); for ( long k : keys ) std::printf( " %ld", k ); std::printf( "\n" );
            std::fflush( stdout );
        }
        cds::threading::Manager::detachThread();
    }
    cds::Terminate();
    return 0;
}
