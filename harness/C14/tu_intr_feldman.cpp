// C14 shard: cds::intrusive::FeldmanHashSet, gc::HP / gc::DHP / RCU
#include "c14.h"
#include <cds/intrusive/feldman_hashset_hp.h>
#include <cds/intrusive/feldman_hashset_dhp.h>
#include <cds/intrusive/feldman_hashset_rcu.h>
#include "c14_intr.h"

namespace {
    using namespace c14;
    namespace ci = cds::intrusive;
    typedef Item< NoHook > item;
    struct ft : public ci::feldman_hashset::traits {
        typedef i_hash_accessor hash_accessor; typedef i_disposer disposer; typedef cds::backoff::empty back_off;
    };
    typedef ci::FeldmanHashSet< cds::gc::HP, item, ft > c1; typedef ci::FeldmanHashSet< cds::gc::DHP, item, ft > c2;
    typedef ci::FeldmanHashSet< rcu_gpb, item, ft > c3;
#define AD( C, FL ) ISetAd< C, IBuildFeldman< C >, FL, LK_FELDMAN >
    typedef AD( c1, FL_HP ) a1; typedef AD( c2, FL_HP ) a2; typedef AD( c3, FL_RCU ) a3;
    C14_VARIANT( a1, "intrusive::FeldmanHashSet<HP>", "set", "feldman" )
    C14_VARIANT( a2, "intrusive::FeldmanHashSet<DHP>", "set", "feldman" )
    C14_VARIANT( a3, "intrusive::FeldmanHashSet<RCU_GPB>", "set", "feldman" )
}
C14_MAIN
