// C14: adapters for the cds::intrusive hash sets (MichaelHashSet, SplitListSet, FeldmanHashSet) - the variants that offer unlink().
// Items are allocated by the harness and never freed during a process (the disposer only marks them), so a
// use-after-dispose inside find/get/extract is visible as `monitor disposed ...`.
#ifndef VERIF_C14_INTR_H
#define VERIF_C14_INTR_H
#include "c14.h"

namespace c14 {

    // payload common to all intrusive items (the node hook is the first base class)
    struct Payload {
        long key;
        long val;
        uint32_t hash;          // Feldman: table-driven injective hash
        bool disposed;
        Payload( long k, long v ) : key( k ), val( v ), hash( (uint32_t) H( k )), disposed( false ) {}
    };
    template <class Hook> struct Item : public Hook, public Payload {
        Item( long k, long v = 0 ) : Payload( k, v ) {}
    };
    struct NoHook {};

    struct i_hash {
        size_t operator()( long k ) const { return H( k ); }
        template <class I> size_t operator()( I const& i ) const { return H( i.key ); }
    };
    struct i_cmp {
        template <class A, class B> int operator()( A const& a, B const& b ) const { long x = kk( a ), y = kk( b ); return x < y ? -1 : x > y ? 1 : 0; }
        static long kk( long k ) { return k; }
        template <class I> static long kk( I const& i ) { return i.key; }
    };
    struct i_less {
        template <class A, class B> bool operator()( A const& a, B const& b ) const { return i_cmp::kk( a ) < i_cmp::kk( b ); }
    };
    struct i_disposer {
        template <class I> void operator()( I* p ) const { p->disposed = true; }
    };
    struct i_hash_accessor {
        template <class I> uint32_t const& operator()( I const& i ) const { return i.hash; }
    };

    template <class C> struct IBuildHash {
        static C* make( std::vector<long> const& cfg ) { hash_setup( P( cfg, 1, 0 )); return new C( (size_t) P( cfg, 2, 8 ), (size_t) P( cfg, 3, 1 )); }
    };
    template <class C> struct IBuildFeldman {
        static C* make( std::vector<long> const& cfg ) { fhash_setup( P( cfg, 1, 0 )); return new C( (size_t) P( cfg, 2, 1 ), (size_t) P( cfg, 3, 1 )); }
    };

    template <class C, ListKind LK> struct IKeyArg { static long of( long k ) { return k; } };
    template <class C> struct IKeyArg<C, LK_FELDMAN> { static uint32_t of( long k ) { return (uint32_t) H( k ); } };

    // RCU-only pieces, selected by flavour
    template <class C, Flavor FL> struct Guarded;
    template <class C> struct Guarded<C, FL_HP> {
        template <class K> static bool extract( C& s, K const& k, long& got, bool& disp )
        {
            typename C::guarded_ptr gp( s.extract( k ));
            if ( !gp ) return false;
            got = gp->key; disp = gp->disposed; return true;
        }
        template <class K> static bool get( C& s, K const& k, long& got, bool& disp )
        {
            typename C::guarded_ptr gp( s.get( k ));
            if ( !gp ) return false;
            got = gp->key; disp = gp->disposed; return true;
        }
        struct lock { lock() {} };
    };
    template <class C> struct Guarded<C, FL_RCU> {
        typedef typename C::rcu_lock lock;
        template <class CC, class K> static typename std::enable_if< CC::c_bExtractLockExternal, bool>::type
        ext( CC& s, K const& k, long& got, bool& disp )
        {
            typename CC::exempt_ptr xp;
            { lock l; xp = s.extract( k ); }
            bool r = !!xp; if ( r ) { got = xp->key; disp = xp->disposed; } xp.release(); return r;
        }
        template <class CC, class K> static typename std::enable_if< !CC::c_bExtractLockExternal, bool>::type
        ext( CC& s, K const& k, long& got, bool& disp )
        {
            typename CC::exempt_ptr xp( s.extract( k ));
            bool r = !!xp; if ( r ) { got = xp->key; disp = xp->disposed; } xp.release(); return r;
        }
        template <class K> static bool extract( C& s, K const& k, long& got, bool& disp ) { return ext<C, K>( s, k, got, disp ); }
        template <class K> static bool get( C& s, K const& k, long& got, bool& disp )
        {
            lock l;
            auto rp = s.get( k );
            if ( !rp ) return false;
            got = rp->key; disp = rp->disposed; return true;
        }
    };

    template <class C, class Builder, Flavor FL, ListKind LK>
    struct ISetAd {
        typedef typename C::value_type T;
        std::unique_ptr<C> s;
        T* mine[8][KEYS];           // last item thread t put into the set for key k
        ISetAd( std::vector<long> const& cfg ) : s( Builder::make( cfg )) { std::memset( mine, 0, sizeof( mine )); }
        static unsigned opmask()
        {
            unsigned m = bit( OP_INSERT ) | bit( OP_INSERT_F ) | bit( OP_UPDATE ) | bit( OP_UPDATE_NOINS ) | bit( OP_ERASE )
                | bit( OP_ERASE_F ) | bit( OP_UNLINK ) | bit( OP_EXTRACT ) | bit( OP_GET ) | bit( OP_FIND_F ) | bit( OP_CONTAINS );
            if ( LK == LK_ITER ) m |= bit( OP_UPSERT ) | bit( OP_UPSERT_NOINS );
            return m;
        }
        // update: (result, whether `item` is now owned by the container)
        template <ListKind L> typename std::enable_if< L == LK_PLAIN, std::pair<bool, bool>>::type
        do_update( T* item, long k, bool allow, int& calls, bool& isnew, bool& linked )
        {
            std::pair<bool, bool> r = s->update( *item, [&]( bool bNew, T& cur, T& ) { ++calls; isnew = bNew; if ( cur.key != k ) calls += 100; }, allow );
            linked = r.first && r.second;
            return r;
        }
        template <ListKind L> typename std::enable_if< L == LK_ITER, std::pair<bool, bool>>::type
        do_update( T* item, long k, bool allow, int& calls, bool& isnew, bool& linked )
        {
            std::pair<bool, bool> r = s->update( *item, [&]( T& val, T* old ) { ++calls; isnew = ( old == nullptr ); if ( val.key != k || ( old && old->key != k )) calls += 100; }, allow );
            linked = r.first;
            return r;
        }
        template <ListKind L> typename std::enable_if< L == LK_FELDMAN, std::pair<bool, bool>>::type
        do_update( T* item, long, bool allow, int& calls, bool& isnew, bool& linked )
        {
            std::pair<bool, bool> r = s->update( *item, allow );
            calls = r.first ? 1 : 0; isnew = r.second;
            linked = r.first;
            return r;
        }
        template <ListKind L> typename std::enable_if< L == LK_ITER, std::pair<bool, bool>>::type
        do_upsert( T* item, bool allow ) { return s->upsert( *item, allow ); }
        template <ListKind L> typename std::enable_if< L != LK_ITER, std::pair<bool, bool>>::type
        do_upsert( T*, bool ) { return std::make_pair( false, false ); }
        template <ListKind L> typename std::enable_if< L != LK_FELDMAN, bool>::type
        do_find( long k, int& calls, long& seen, bool& disp )
        {
            return s->find( k, [&]( T& item, long const& ) { ++calls; seen = item.key; disp = item.disposed; } );
        }
        template <ListKind L> typename std::enable_if< L == LK_FELDMAN, bool>::type
        do_find( long k, int& calls, long& seen, bool& disp )
        {
            return s->find( IKeyArg<C, LK>::of( k ), [&]( T& item ) { ++calls; seen = item.key; disp = item.disposed; } );
        }

        Done exec( int t, int code, long k, long v, Hist& h )
        {
            Done d;
            auto ka = IKeyArg<C, LK>::of( k );
            switch ( code ) {
            case OP_INSERT: {
                T* item = new T( k, v );
                bool r = s->insert( *item );
                if ( r ) mine[t][k] = item; else delete item;
                d.op = "insert " + S( k ); d.res = rbool( r ); break; }
            case OP_INSERT_F: {
                T* item = new T( k, v ); int calls = 0;
                bool r = s->insert( *item, [&]( T& i ) { ++calls; if ( &i != item ) calls += 100; } );
                if ( calls != ( r ? 1 : 0 )) h.monitor( "functor insert key " + S( k ) + " calls " + S( calls ) + " ret " + S( r ));
                if ( r ) mine[t][k] = item; else delete item;
                d.op = "insert " + S( k ); d.res = rbool( r ); break; }
            case OP_UPDATE: case OP_UPDATE_NOINS: {
                bool allow = code == OP_UPDATE; int calls = 0; bool isnew = false, linked = false;
                T* item = new T( k, v );
                std::pair<bool, bool> r = do_update<LK>( item, k, allow, calls, isnew, linked );
                if ( calls != ( r.first ? 1 : 0 ) || ( r.first && isnew != r.second ))
                    h.monitor( "functor update key " + S( k ) + " calls " + S( calls ) + " new " + S( isnew ) + " ret " + S( r.first ) + S( r.second ));
                if ( linked ) mine[t][k] = item; else delete item;
                d.op = "update " + S( k ) + ( allow ? " 1" : " 0" ); d.res = rpair( r ); break; }
            case OP_UPSERT: case OP_UPSERT_NOINS: {
                bool allow = code == OP_UPSERT;
                T* item = new T( k, v );
                std::pair<bool, bool> r = do_upsert<LK>( item, allow );
                if ( r.first ) mine[t][k] = item; else delete item;
                d.op = "update " + S( k ) + ( allow ? " 1" : " 0" ); d.res = rpair( r ); break; }
            case OP_ERASE: d.op = "erase " + S( k ); d.res = rbool( s->erase( ka )); break;
            case OP_ERASE_F: {
                int calls = 0; long seen = -1;
                bool r = s->erase( ka, [&]( T const& item ) { ++calls; seen = item.key; } );
                if ( calls != ( r ? 1 : 0 ) || ( r && seen != k )) h.monitor( "functor erase key " + S( k ) + " calls " + S( calls ) + " seen " + S( seen ));
                d.op = "erase " + S( k ); d.res = rbool( r ); break; }
            case OP_UNLINK: {
                // the generator makes thread t the only inserter of k when it emits unlink, so "my last item for k" is the
                // only item that can be in the set under key k: unlink(item) == erase(k)
                bool r;
                if ( mine[t][k] ) r = s->unlink( *mine[t][k] );
                else { T dummy( k, 0 ); r = s->unlink( dummy ); }
                d.op = "erase " + S( k ); d.res = rbool( r ); break; }
            case OP_EXTRACT: {
                long got = k; bool disp = false;
                bool r = Guarded<C, FL>::extract( *s, ka, got, disp );
                if ( r && got != k ) h.monitor( "extract key " + S( k ) + " returned " + S( got ));
                if ( r && disp ) h.monitor( "disposed item returned by extract key " + S( k ));
                d.op = "erase " + S( k ); d.res = rbool( r ); break; }
            case OP_GET: {
                long got = k; bool disp = false;
                bool r = Guarded<C, FL>::get( *s, ka, got, disp );
                if ( r && got != k ) h.monitor( "get key " + S( k ) + " returned " + S( got ));
                if ( r && disp ) h.monitor( "disposed item returned by get key " + S( k ));
                d.op = "contains " + S( k ); d.res = rbool( r ); break; }
            case OP_FIND_F: {
                int calls = 0; long seen = -1; bool disp = false;
                bool r = do_find<LK>( k, calls, seen, disp );
                if ( calls != ( r ? 1 : 0 ) || ( r && seen != k )) h.monitor( "functor find key " + S( k ) + " calls " + S( calls ) + " seen " + S( seen ));
                if ( r && disp ) h.monitor( "disposed item passed to the find functor key " + S( k ));
                d.op = "contains " + S( k ); d.res = rbool( r ); break; }
            default:
            case OP_CONTAINS: d.op = "contains " + S( k ); d.res = rbool( s->contains( ka )); break;
            }
            return d;
        }
        void contents( std::vector<std::pair<long, long>>& out )
        {
            typename Guarded<C, FL>::lock l;
            for ( auto it = s->begin(); it != s->end(); ++it ) {
                out.push_back( std::make_pair( it->key, it->val ));
            }
        }
        void info( Hist& ) {}
    };
} // namespace c14
#endif
