// C14 shard: cds::container::FeldmanHashSet, gc::HP / gc::DHP / RCU; 32-bit hash (number_splitter) and 6-byte hash (byte splitter)
#include "c14.h"
#include <cds/container/feldman_hashset_hp.h>
#include <cds/container/feldman_hashset_dhp.h>
#include <cds/container/feldman_hashset_rcu.h>
#include "c14_cont.h"

namespace {
    using namespace c14;
    namespace cc = cds::container;

    struct t32 : public cc::feldman_hashset::traits {
        typedef fitem_hash hash_accessor;
        typedef cc::feldman_hashset::stat< plain_counter > stat;
        typedef cds::backoff::empty back_off;
    };
    struct t48 : public cc::feldman_hashset::traits {
        typedef fitem48_hash hash_accessor;
        enum : size_t { hash_size = 6 };
        typedef cc::feldman_hashset::stat< plain_counter > stat;
        typedef cds::backoff::empty back_off;
    };
    typedef cc::FeldmanHashSet< cds::gc::HP, FItem, t32 > c1;  typedef cc::FeldmanHashSet< cds::gc::DHP, FItem, t32 > c2;
    typedef cc::FeldmanHashSet< rcu_gpb, FItem, t32 > c3;      typedef cc::FeldmanHashSet< rcu_gpi, FItem, t32 > c4;
    typedef cc::FeldmanHashSet< cds::gc::HP, FItem48, t48 > c5; typedef cc::FeldmanHashSet< rcu_gpb, FItem48, t48 > c6;
#define AD( C, FL ) SetAd< C, BuildFeldman< C >, FL, LK_FELDMAN >
    typedef AD( c1, FL_HP ) a1; typedef AD( c2, FL_HP ) a2; typedef AD( c3, FL_RCU ) a3; typedef AD( c4, FL_RCU ) a4;
    typedef AD( c5, FL_HP ) a5; typedef AD( c6, FL_RCU ) a6;
    C14_VARIANT( a1, "FeldmanHashSet<HP,hash32>", "set", "feldman" )
    C14_VARIANT( a2, "FeldmanHashSet<DHP,hash32>", "set", "feldman" )
    C14_VARIANT( a3, "FeldmanHashSet<RCU_GPB,hash32>", "set", "feldman" )
    C14_VARIANT( a4, "FeldmanHashSet<RCU_GPI,hash32>", "set", "feldman" )
    C14_VARIANT( a5, "FeldmanHashSet<HP,hash48>", "set", "feldman" )
    C14_VARIANT( a6, "FeldmanHashSet<RCU_GPB,hash48>", "set", "feldman" )
}
C14_MAIN
