// C14 shard: cds::container::SplitListSet<HP> over MichaelList / LazyList / IterableList, expandable and static bucket tables
#include <cds/container/michael_list_hp.h>
#include <cds/container/lazy_list_hp.h>
#include <cds/container/iterable_list_hp.h>
#include <cds/container/split_list_set.h>
#include "c14_cont.h"

namespace {
    using namespace c14;
    namespace cc = cds::container;
    typedef cds::gc::HP GC;

    template <bool Dyn> struct base_traits : public cc::split_list::traits {
        typedef set_hash hash;
        typedef cc::split_list::stat< plain_counter > stat;
        typedef cds::backoff::empty back_off;
        static const bool dynamic_bucket_table = Dyn;
    };
    template <bool Dyn> struct tm : public base_traits<Dyn> {
        typedef cc::michael_list_tag ordered_list;
        struct ordered_list_traits : public cc::michael_list::traits { typedef set_cmp compare; typedef cds::backoff::empty back_off; };
    };
    template <bool Dyn> struct tl : public base_traits<Dyn> {
        typedef cc::lazy_list_tag ordered_list;
        struct ordered_list_traits : public cc::lazy_list::traits { typedef set_less less; typedef cds::backoff::empty back_off; };
    };
    template <bool Dyn> struct ti : public base_traits<Dyn> {
        typedef cc::iterable_list_tag ordered_list;
        struct ordered_list_traits : public cc::iterable_list::traits { typedef set_cmp compare; typedef cds::backoff::empty back_off; };
    };
    typedef cc::SplitListSet< GC, SetItem, tm<true> > sm_d;  typedef cc::SplitListSet< GC, SetItem, tm<false> > sm_s;
    typedef cc::SplitListSet< GC, SetItem, tl<true> > sl_d;  typedef cc::SplitListSet< GC, SetItem, tl<false> > sl_s;
    typedef cc::SplitListSet< GC, SetItem, ti<true> > si_d;  typedef cc::SplitListSet< GC, SetItem, ti<false> > si_s;
#define AD( C, LK ) SetAd< C, BuildSplit< C >, FL_HP, LK >
    typedef AD( sm_d, LK_PLAIN ) a1; typedef AD( sl_d, LK_PLAIN ) a2; typedef AD( si_d, LK_ITER ) a3;
    typedef AD( sm_s, LK_PLAIN ) a4; typedef AD( sl_s, LK_PLAIN ) a5; typedef AD( si_s, LK_ITER ) a6;
    C14_VARIANT( a1, "SplitListSet<HP,MichaelList,dynamic>", "set", "split" )
    C14_VARIANT( a2, "SplitListSet<HP,LazyList,dynamic>", "set", "split" )
    C14_VARIANT( a3, "SplitListSet<HP,IterableList,dynamic>", "set", "split" )
    C14_VARIANT( a4, "SplitListSet<HP,MichaelList,static>", "set", "split_static" )
    C14_VARIANT( a5, "SplitListSet<HP,LazyList,static>", "set", "split_static" )
    C14_VARIANT( a6, "SplitListSet<HP,IterableList,static>", "set", "split_static" )
}
C14_MAIN
