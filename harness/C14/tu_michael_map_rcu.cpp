// C14 shard: cds::container::MichaelHashMap over MichaelKVList / LazyKVList, RCU and gc::nogc
#include "c14.h"
#include <cds/container/michael_kvlist_rcu.h>
#include <cds/container/lazy_kvlist_rcu.h>
#include <cds/container/michael_kvlist_nogc.h>
#include <cds/container/lazy_kvlist_nogc.h>
#include <cds/container/michael_map_rcu.h>
#include <cds/container/michael_map_nogc.h>
#include "c14_cont.h"

namespace {
    using namespace c14;
    namespace cc = cds::container;

    struct ml_traits : public cc::michael_list::traits { typedef std::less<long> less; typedef cds::backoff::empty back_off; };
    struct ll_traits : public cc::lazy_list::traits { typedef std::less<long> less; typedef cds::backoff::empty back_off; };
    struct mm_traits : public cc::michael_map::traits { typedef map_hash hash; };

    template <class GC> struct T {
        typedef cc::MichaelHashMap< GC, cc::MichaelKVList< GC, long, long, ml_traits >, mm_traits > michael;
        typedef cc::MichaelHashMap< GC, cc::LazyKVList< GC, long, long, ll_traits >, mm_traits > lazy;
    };
    typedef T<rcu_gpb> GPB; typedef T<rcu_gpi> GPI; typedef T<cds::gc::nogc> NOGC;
#define AD( C, FL ) MapAd< C, BuildHash< C >, FL, LK_PLAIN >
    typedef AD( GPB::michael, FL_RCU ) a1; typedef AD( GPB::lazy, FL_RCU ) a2;
    typedef AD( GPI::michael, FL_RCU ) a3; typedef AD( GPI::lazy, FL_RCU ) a4;
    typedef AD( NOGC::michael, FL_NOGC ) a5; typedef AD( NOGC::lazy, FL_NOGC ) a6;
    C14_VARIANT( a1, "MichaelHashMap<RCU_GPB,MichaelKVList>", "map", "michael" )
    C14_VARIANT( a2, "MichaelHashMap<RCU_GPB,LazyKVList>", "map", "michael" )
    C14_VARIANT( a3, "MichaelHashMap<RCU_GPI,MichaelKVList>", "map", "michael" )
    C14_VARIANT( a4, "MichaelHashMap<RCU_GPI,LazyKVList>", "map", "michael" )
    C14_VARIANT( a5, "MichaelHashMap<nogc,MichaelKVList>", "map", "michael" )
    C14_VARIANT( a6, "MichaelHashMap<nogc,LazyKVList>", "map", "michael" )
}
C14_MAIN
