// C14 shard: cds::intrusive::SplitListSet over intrusive MichaelList / LazyList / IterableList (HP), MichaelList (DHP static, RCU)
#include "c14.h"
#include <cds/intrusive/michael_list_hp.h>
#include <cds/intrusive/michael_list_dhp.h>
#include <cds/intrusive/michael_list_rcu.h>
#include <cds/intrusive/lazy_list_hp.h>
#include <cds/intrusive/iterable_list_hp.h>
#include <cds/intrusive/split_list.h>
#include <cds/intrusive/split_list_rcu.h>
#include "c14_intr.h"

namespace {
    using namespace c14;
    namespace ci = cds::intrusive;

    template <bool Dyn> struct st : public ci::split_list::traits {
        typedef i_hash hash; typedef cds::backoff::empty back_off;
        static const bool dynamic_bucket_table = Dyn;
    };
    template <class GC, bool Dyn> struct M {
        typedef Item< ci::split_list::node< ci::michael_list::node< GC > > > item;
        struct lt : public ci::michael_list::traits {
            typedef ci::michael_list::base_hook< cds::opt::gc< GC > > hook;
            typedef i_cmp compare; typedef i_disposer disposer; typedef cds::backoff::empty back_off;
        };
        typedef ci::SplitListSet< GC, ci::MichaelList< GC, item, lt >, st<Dyn> > set;
    };
    template <class GC, bool Dyn> struct L {
        typedef Item< ci::split_list::node< ci::lazy_list::node< GC > > > item;
        struct lt : public ci::lazy_list::traits {
            typedef ci::lazy_list::base_hook< cds::opt::gc< GC > > hook;
            typedef i_less less; typedef i_disposer disposer; typedef cds::backoff::empty back_off;
        };
        typedef ci::SplitListSet< GC, ci::LazyList< GC, item, lt >, st<Dyn> > set;
    };
    template <class GC, bool Dyn> struct I {
        typedef Item< ci::split_list::node< void > > item;
        struct lt : public ci::iterable_list::traits { typedef i_cmp compare; typedef i_disposer disposer; typedef cds::backoff::empty back_off; };
        typedef ci::SplitListSet< GC, ci::IterableList< GC, item, lt >, st<Dyn> > set;
    };
    typedef M<cds::gc::HP, true>::set c1; typedef L<cds::gc::HP, true>::set c2; typedef I<cds::gc::HP, true>::set c3;
    typedef M<cds::gc::DHP, false>::set c4; typedef M<rcu_gpb, true>::set c5;
#define AD( C, FL, LK ) ISetAd< C, IBuildHash< C >, FL, LK >
    typedef AD( c1, FL_HP, LK_PLAIN ) a1; typedef AD( c2, FL_HP, LK_PLAIN ) a2; typedef AD( c3, FL_HP, LK_ITER ) a3;
    typedef AD( c4, FL_HP, LK_PLAIN ) a4; typedef AD( c5, FL_RCU, LK_PLAIN ) a5;
    C14_VARIANT( a1, "intrusive::SplitListSet<HP,MichaelList,dynamic>", "set", "split" )
    C14_VARIANT( a2, "intrusive::SplitListSet<HP,LazyList,dynamic>", "set", "split" )
    C14_VARIANT( a3, "intrusive::SplitListSet<HP,IterableList,dynamic>", "set", "split" )
    C14_VARIANT( a4, "intrusive::SplitListSet<DHP,MichaelList,static>", "set", "split_static" )
    C14_VARIANT( a5, "intrusive::SplitListSet<RCU_GPB,MichaelList,dynamic>", "set", "split" )
}
C14_MAIN
