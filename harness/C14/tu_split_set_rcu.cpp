// C14 shard: cds::container::SplitListSet over MichaelList / LazyList, RCU (general_buffered, general_instant) and gc::nogc
#include "c14.h"
#include <cds/container/michael_list_rcu.h>
#include <cds/container/lazy_list_rcu.h>
#include <cds/container/michael_list_nogc.h>
#include <cds/container/lazy_list_nogc.h>
#include <cds/container/split_list_set_rcu.h>
#include <cds/container/split_list_set_nogc.h>
#include "c14_cont.h"

namespace {
    using namespace c14;
    namespace cc = cds::container;

    template <bool Dyn> struct base_traits : public cc::split_list::traits {
        typedef set_hash hash;
        typedef cc::split_list::stat< plain_counter > stat;
        typedef cds::backoff::empty back_off;
        static const bool dynamic_bucket_table = Dyn;
    };
    template <bool Dyn> struct tm : public base_traits<Dyn> {
        typedef cc::michael_list_tag ordered_list;
        struct ordered_list_traits : public cc::michael_list::traits { typedef set_cmp compare; typedef cds::backoff::empty back_off; };
    };
    template <bool Dyn> struct tl : public base_traits<Dyn> {
        typedef cc::lazy_list_tag ordered_list;
        struct ordered_list_traits : public cc::lazy_list::traits { typedef set_less less; typedef cds::backoff::empty back_off; };
    };
#define AD( C, FL ) SetAd< C, BuildSplit< C >, FL, LK_PLAIN >
    typedef cc::SplitListSet< rcu_gpb, SetItem, tm<true> > ca1; typedef AD( ca1, FL_RCU ) a1;
    typedef cc::SplitListSet< rcu_gpb, SetItem, tl<true> > ca2; typedef AD( ca2, FL_RCU ) a2;
    typedef cc::SplitListSet< rcu_gpb, SetItem, tm<false> > ca3; typedef AD( ca3, FL_RCU ) a3;
    typedef cc::SplitListSet< rcu_gpi, SetItem, tm<true> > ca4; typedef AD( ca4, FL_RCU ) a4;
    typedef cc::SplitListSet< rcu_gpi, SetItem, tl<false> > ca5; typedef AD( ca5, FL_RCU ) a5;
    typedef cc::SplitListSet< cds::gc::nogc, SetItem, tm<true> > ca6; typedef AD( ca6, FL_NOGC ) a6;
    typedef cc::SplitListSet< cds::gc::nogc, SetItem, tl<true> > ca7; typedef AD( ca7, FL_NOGC ) a7;
    typedef cc::SplitListSet< cds::gc::nogc, SetItem, tm<false> > ca8; typedef AD( ca8, FL_NOGC ) a8;
    C14_VARIANT( a1, "SplitListSet<RCU_GPB,MichaelList,dynamic>", "set", "split" )
    C14_VARIANT( a2, "SplitListSet<RCU_GPB,LazyList,dynamic>", "set", "split" )
    C14_VARIANT( a3, "SplitListSet<RCU_GPB,MichaelList,static>", "set", "split_static" )
    C14_VARIANT( a4, "SplitListSet<RCU_GPI,MichaelList,dynamic>", "set", "split" )
    C14_VARIANT( a5, "SplitListSet<RCU_GPI,LazyList,static>", "set", "split_static" )
    C14_VARIANT( a6, "SplitListSet<nogc,MichaelList,dynamic>", "set", "split" )
    C14_VARIANT( a7, "SplitListSet<nogc,LazyList,dynamic>", "set", "split" )
    C14_VARIANT( a8, "SplitListSet<nogc,MichaelList,static>", "set", "split_static" )
}
C14_MAIN
