// C14 shard: cds::container::FeldmanHashMap, gc::HP / gc::DHP / RCU, table-driven 32-bit hash functor
#include "c14.h"
#include <cds/container/feldman_hashmap_hp.h>
#include <cds/container/feldman_hashmap_dhp.h>
#include <cds/container/feldman_hashmap_rcu.h>
#include "c14_cont.h"

namespace {
    using namespace c14;
    namespace cc = cds::container;

    struct tmap : public cc::feldman_hashmap::traits {
        typedef fmap_hash hash;
        typedef cc::feldman_hashmap::stat< plain_counter > stat;
        typedef cds::backoff::empty back_off;
    };
    typedef cc::FeldmanHashMap< cds::gc::HP, long, long, tmap > c1;  typedef cc::FeldmanHashMap< cds::gc::DHP, long, long, tmap > c2;
    typedef cc::FeldmanHashMap< rcu_gpb, long, long, tmap > c3;      typedef cc::FeldmanHashMap< rcu_gpi, long, long, tmap > c4;
#define AD( C, FL ) MapAd< C, BuildFeldman< C >, FL, LK_FELDMAN >
    typedef AD( c1, FL_HP ) a1; typedef AD( c2, FL_HP ) a2; typedef AD( c3, FL_RCU ) a3; typedef AD( c4, FL_RCU ) a4;
    C14_VARIANT( a1, "FeldmanHashMap<HP>", "map", "feldman" )
    C14_VARIANT( a2, "FeldmanHashMap<DHP>", "map", "feldman" )
    C14_VARIANT( a3, "FeldmanHashMap<RCU_GPB>", "map", "feldman" )
    C14_VARIANT( a4, "FeldmanHashMap<RCU_GPI>", "map", "feldman" )
}
C14_MAIN
