// C14 shard: cds::container::MichaelHashSet over MichaelList / LazyList, RCU (general_instant, general_buffered) and gc::nogc
#include "c14.h"
#include <cds/container/michael_list_rcu.h>
#include <cds/container/lazy_list_rcu.h>
#include <cds/container/michael_list_nogc.h>
#include <cds/container/lazy_list_nogc.h>
#include <cds/container/michael_set_rcu.h>
#include <cds/container/michael_set_nogc.h>
#include "c14_cont.h"

namespace {
    using namespace c14;
    namespace cc = cds::container;

    struct ml_traits : public cc::michael_list::traits { typedef set_cmp compare; typedef cds::backoff::empty back_off; };
    struct ll_traits : public cc::lazy_list::traits { typedef set_less less; typedef cds::backoff::empty back_off; };
    struct ms_traits : public cc::michael_set::traits { typedef set_hash hash; };

    template <class GC> struct T {
        typedef cc::MichaelHashSet< GC, cc::MichaelList< GC, SetItem, ml_traits >, ms_traits > michael;
        typedef cc::MichaelHashSet< GC, cc::LazyList< GC, SetItem, ll_traits >, ms_traits > lazy;
    };
    typedef T<rcu_gpb> GPB; typedef T<rcu_gpi> GPI; typedef T<cds::gc::nogc> NOGC;
#define AD( C, FL ) SetAd< C, BuildHash< C >, FL, LK_PLAIN >
    typedef AD( GPB::michael, FL_RCU ) a1; typedef AD( GPB::lazy, FL_RCU ) a2;
    typedef AD( GPI::michael, FL_RCU ) a3; typedef AD( GPI::lazy, FL_RCU ) a4;
    typedef AD( NOGC::michael, FL_NOGC ) a5; typedef AD( NOGC::lazy, FL_NOGC ) a6;
    C14_VARIANT( a1, "MichaelHashSet<RCU_GPB,MichaelList>", "set", "michael" )
    C14_VARIANT( a2, "MichaelHashSet<RCU_GPB,LazyList>", "set", "michael" )
    C14_VARIANT( a3, "MichaelHashSet<RCU_GPI,MichaelList>", "set", "michael" )
    C14_VARIANT( a4, "MichaelHashSet<RCU_GPI,LazyList>", "set", "michael" )
    C14_VARIANT( a5, "MichaelHashSet<nogc,MichaelList>", "set", "michael" )
    C14_VARIANT( a6, "MichaelHashSet<nogc,LazyList>", "set", "michael" )
}
C14_MAIN
