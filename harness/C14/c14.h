// C14 breadth harness (observable correspondence, DESIGN 3.3): common driver.
//
// Every translation unit tu_*.cpp registers a list of container variants (real libcds classes) and uses the
// main() below.  usage:   exe --list            -> "<idx> <name> <set|map> <family> <opmask>" per variant
//                         exe <casefile>        -> runs every case, prints histories + monitors
//
// case:  cfg = [ variant index in this TU; hash kind; p1; p2; p3 ]      (see hash_setup / each adapter)
//        thread lines: operations "<code> <key> [<value>]"
//
// operation codes (the harness substitutes `contains` for an operation the variant does not offer):
//    1 insert          2 insert with functor   3 update(allow insert)   4 update(no insert)
//    5 upsert(allow)   6 emplace               7 erase                  8 erase with functor
//    9 unlink (intrusive; own item)            10 extract               11 get
//   12 find with functor                       13 contains              14 upsert(no insert)
//
// output per case:
//   case <id> / variant <name> / kind set|map
//   h inv <tid> <spec operation>      h res <tid> <spec result>       (text format of ocaml/lincheck_main.ml)
//   final <key> <value>               one line per element met by iterating the real container afterwards
//   monitor <text>                    functor-contract / key-mismatch / hang findings of the harness itself
//   endcase finished|fuel
#ifndef VERIF_C14_H
#define VERIF_C14_H

#include <cds/init.h>
#include <cds/gc/hp.h>
#include <cds/gc/dhp.h>
#include <cds/gc/nogc.h>
#include <cds/urcu/general_instant.h>
#include <cds/urcu/general_buffered.h>
#include <cds/sync/spinlock.h>
#include <vcase.h>
#include <unistd.h>
#include <cstring>
#include <chrono>
#include <memory>
#include <string>
#include <vector>

namespace c14 {
    namespace vs = khizmax_libcds_verif;

    // ---- RCU flavours with spin locks (a std::mutex held across a scheduling point would block the baton) ----
    typedef cds::urcu::gc< cds::urcu::general_instant< cds::sync::spin > > rcu_gpi;
    typedef cds::urcu::gc< cds::urcu::general_buffered< cds::container::VyukovMPMCCycleQueue< cds::urcu::epoch_retired_ptr >, cds::sync::spin > > rcu_gpb;

    // ---- table-driven hash -------------------------------------------------------------------------------------
    enum { KEYS = 8 };
    inline size_t* hash_table() { static size_t t[KEYS]; return t; }
    inline void hash_setup( long kind )
    {
        size_t* t = hash_table();
        for ( long k = 0; k < KEYS; ++k ) {
            size_t h;
            switch ( kind ) {
            default:
            case 0: h = (size_t) k; break;                                    // identity
            case 1: h = 0; break;                                             // constant
            case 2: h = ( k & 1 ) ? 0x55 : 0x2A; break;                       // two values
            case 3: h = ( (size_t) k << 8 ) | 0x5; break;                     // same low bits (same bucket for long)
            case 4: h = 0xFFFFFFFFFF000000ull | ( (size_t) k << 1 ) | 1; break; // same high bits, all odd
            case 5: h = ( (size_t) k * 0x9E3779B97F4A7C15ull ); break;        // scattered
            case 6: h = ( (size_t)( k >> 1 ) << 20 ) | 3; break;              // pairs collide, shared low bits
            case 7: h = (size_t) 7 - (size_t) k; break;                       // reversed order
            }
            t[k] = h;
        }
    }
    // injective variants for FeldmanHashSet/Map (perfect hashing is a precondition of the container)
    inline void fhash_setup( long kind )
    {
        size_t* t = hash_table();
        for ( long k = 0; k < KEYS; ++k ) {
            size_t h;
            switch ( kind ) {
            default:
            case 0: h = (size_t) k; break;                                    // differ in the head bits
            case 1: h = ( (size_t) k << 28 ) | 0x0ABCDEF; break;              // 28 shared low bits: deepest expansion
            case 2: h = ( (size_t) k << 6 ) | 0x15; break;                    // shared head slot, split one level down
            case 3: h = ( (size_t)( k & 1 ) << 30 ) | ( (size_t)( k >> 1 ) << 10 ) | 0x3FF; break;
            case 4: h = ( (size_t) k << 4 ); break;                           // same head slot 0, differ right after
            case 5: h = ( (size_t) k * 0x9E3779B1u ) & 0xFFFFFFFFu; break;    // scattered
            case 6: h = ( (size_t) k << 29 ) | ( (size_t) k ); break;         // differ early AND late
            case 7: h = 0xFFFFFFF8u | (size_t) k; if ( k >= 4 ) h = 0x7FFFFFF8u | (size_t)( k - 4 ); break;
            }
            t[k] = h & 0xFFFFFFFFu;
        }
    }
    inline size_t H( long k ) { return hash_table()[ k & ( KEYS - 1 ) ]; }

    // statistics counter without atomic accesses (only the baton holder runs): statistics add no scheduling points
    struct plain_counter {
        size_t v;
        plain_counter() : v( 0 ) {}
        size_t operator++() { return ++v; }
        size_t operator++( int ) { return v++; }
        size_t operator--() { return --v; }
        size_t operator--( int ) { return v--; }
        size_t operator+=( size_t n ) { return v += n; }
        size_t operator-=( size_t n ) { return v -= n; }
        size_t operator=( size_t n ) { v = n; return n; }
        operator size_t() const { return v; }
        size_t get() const { return v; }
        void reset() { v = 0; }
    };

    // ---- history ---------------------------------------------------------------------------------------------------
    struct Hist {
        std::vector<std::string> lines;
        std::vector<std::string> monitors;
        std::vector<std::string> infos;
        size_t begin_op( int tid )
        {
            lines.push_back( std::string());    // placeholder for the invocation: its text may depend on the outcome
            (void) tid;
            return lines.size() - 1;
        }
        void end_op( size_t slot, int tid, std::string const& op, std::string const& res )
        {
            lines[slot] = "h inv " + std::to_string( tid ) + " " + op;
            lines.push_back( "h res " + std::to_string( tid ) + " " + res );
        }
        void monitor( std::string const& s ) { monitors.push_back( s ); }
        void info( std::string const& s ) { infos.push_back( s ); }
    };

    inline std::string rbool( bool b ) { return b ? "true" : "false"; }
    inline std::string rpair( std::pair<bool, bool> p ) { return std::string( "pair " ) + ( p.first ? "1" : "0" ) + ( p.second ? " 1" : " 0" ); }
    inline std::string ropt( bool has, long v ) { return has ? "some " + std::to_string( v ) : std::string( "none" ); }
    inline std::string S( long v ) { return std::to_string( v ); }

    enum {
        OP_INSERT = 1, OP_INSERT_F = 2, OP_UPDATE = 3, OP_UPDATE_NOINS = 4, OP_UPSERT = 5, OP_EMPLACE = 6, OP_ERASE = 7,
        OP_ERASE_F = 8, OP_UNLINK = 9, OP_EXTRACT = 10, OP_GET = 11, OP_FIND_F = 12, OP_CONTAINS = 13, OP_UPSERT_NOINS = 14,
        OP_MAX = 14
    };
    inline unsigned bit( int op ) { return 1u << op; }

    enum Flavor { FL_HP, FL_RCU, FL_NOGC };
    enum ListKind { LK_PLAIN, LK_ITER, LK_FELDMAN };
    inline long P( std::vector<long> const& cfg, size_t i, long dflt ) { return cfg.size() > i ? cfg[i] : dflt; }

    // one executed operation as the adapter reports it
    struct Done {
        std::string op;     // specification operation ("insert 3", "update 3 7 1", ...)
        std::string res;    // specification result
    };

    // ---- variant registry -------------------------------------------------------------------------------------
    struct Variant {
        char const* name;
        char const* kind;       // "set" | "map"
        char const* family;
        unsigned    opmask;
        // runs one case; returns false if the variant could not be run
        void (*run)( vcase::Case const& c, Hist& h, std::vector<std::pair<long, long>>& fin );
    };
    inline std::vector<Variant>& registry() { static std::vector<Variant> r; return r; }

    // generic case runner: Ad is an adapter with
    //    Ad( std::vector<long> const& cfg )           build the real container (main thread, attached)
    //    static unsigned opmask()
    //    Done exec( int tid, int code, long k, long v, Hist& )   one operation on the real code
    //    void contents( std::vector<std::pair<long,long>>& )     iterate the real container (quiescent)
    template <class Ad>
    void run_case( vcase::Case const& c, Hist& h, std::vector<std::pair<long, long>>& fin )
    {
        std::unique_ptr<Ad> ad( new Ad( c.cfg ));
        vcase::run_workers( c, [&]( int t ) {
            for ( auto const& op : c.threads[t] ) {
                if ( op.empty()) continue;
                int code = (int) op[0];
                long k = op.size() > 1 ? ( op[1] & ( KEYS - 1 )) : 0;
                long v = op.size() > 2 ? op[2] : 0;
                if ( code < 1 || code > OP_MAX || !( Ad::opmask() & bit( code )))
                    code = OP_CONTAINS;
                size_t slot = h.begin_op( t );
                Done d = ad->exec( t, code, k, v, h );
                h.end_op( slot, t, d.op, d.res );
            }
        },
        []( int ) { cds::threading::Manager::attachThread(); },
        []( int ) { cds::threading::Manager::detachThread(); },
        60000 );
        if ( !vs::S().overrun ) {
            ad->contents( fin );
            ad->info( h );
        }
        ad.reset();
    }

    template <class Ad>
    struct Reg {
        Reg( char const* name, char const* kind, char const* family )
        {
            Variant v; v.name = name; v.kind = kind; v.family = family; v.opmask = Ad::opmask(); v.run = &run_case<Ad>;
            registry().push_back( v );
        }
    };

    // ---- watchdog: a corrupted structure can make the real code spin forever once the step limit is hit -----------
    struct Watchdog {
        std::atomic<long> tick;
        std::atomic<bool> stop;
        std::string current;
        std::thread th;
        Watchdog() : tick( 0 ), stop( false )
        {
            th = std::thread( [this] {
                long last = -1; int same = 0;
                while ( !stop.load()) {
                    std::this_thread::sleep_for( std::chrono::milliseconds( 250 ));
                    long t = tick.load();
                    if ( t == last ) { if ( ++same >= 80 ) {      // 20 s without finishing a case
                        std::printf( "monitor hang\nendcase hang\n" ); std::fflush( stdout ); _exit( 3 ); } }
                    else { last = t; same = 0; }
                }
            } );
        }
        ~Watchdog() { stop.store( true ); th.join(); }
    };

    inline int main_impl( int argc, char** argv )
    {
        if ( argc >= 2 && std::strcmp( argv[1], "--list" ) == 0 ) {
            int i = 0;
            for ( auto const& v : registry())
                std::printf( "%d %s %s %s %u\n", i++, v.name, v.kind, v.family, v.opmask );
            return 0;
        }
        if ( argc < 2 ) { std::fprintf( stderr, "usage: %s --list | casefile\n", argv[0] ); return 2; }
        cds::Initialize();
        {
            cds::gc::HP hp( 24, 8, 8 );        // small retired array: scans happen inside the cases
            cds::gc::DHP dhp( 16 );
            rcu_gpi gpi;
            rcu_gpb gpb( 4 );
            cds::threading::Manager::attachThread();
            {
                Watchdog wd;
                std::ifstream in( argv[1] );
                vcase::Case c;
                while ( vcase::read_case( in, c )) {
                    size_t vi = c.cfg.size() > 0 ? (size_t) c.cfg[0] : 0;
                    std::printf( "case %s\n", c.id.c_str());
                    if ( vi >= registry().size()) { std::printf( "endcase novariant\n" ); continue; }
                    Variant const& v = registry()[vi];
                    std::printf( "variant %s\nkind %s\n", v.name, v.kind );
                    std::fflush( stdout );
                    Hist h; std::vector<std::pair<long, long>> fin;
                    v.run( c, h, fin );
                    for ( auto const& l : h.lines ) if ( !l.empty()) { std::fputs( l.c_str(), stdout ); std::fputc( '\n', stdout ); }
                    for ( auto const& f : fin ) std::printf( "final %ld %ld\n", f.first, f.second );
                    for ( auto const& m : h.infos ) std::printf( "info %s\n", m.c_str());
                    for ( auto const& m : h.monitors ) std::printf( "monitor %s\n", m.c_str());
                    std::printf( "endcase %s\n", vs::S().overrun ? "fuel" : "finished" );
                    std::fflush( stdout );
                    ++wd.tick;
                }
            }
            cds::threading::Manager::detachThread();
        }
        cds::Terminate();
        return 0;
    }
} // namespace c14

#define C14_CAT2( a, b ) a##b
#define C14_CAT( a, b ) C14_CAT2( a, b )
#define C14_VARIANT( Ad, name, kind, family ) static c14::Reg< Ad > C14_CAT( c14_reg_, __LINE__ )( name, kind, family );
#define C14_MAIN int main( int argc, char** argv ) { return c14::main_impl( argc, argv ); }

#endif
