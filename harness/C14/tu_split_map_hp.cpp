// C14 shard: cds::container::SplitListMap<HP|DHP> over MichaelList / LazyList / IterableList, expandable and static bucket tables
#include <cds/container/michael_kvlist_hp.h>
#include <cds/container/lazy_kvlist_hp.h>
#include <cds/container/iterable_kvlist_hp.h>
#include <cds/container/michael_kvlist_dhp.h>
#include <cds/container/iterable_kvlist_dhp.h>
#include <cds/container/split_list_map.h>
#include "c14_cont.h"

namespace {
    using namespace c14;
    namespace cc = cds::container;

    template <bool Dyn> struct base_traits : public cc::split_list::traits {
        typedef map_hash hash;
        typedef cc::split_list::stat< plain_counter > stat;
        typedef cds::backoff::empty back_off;
        static const bool dynamic_bucket_table = Dyn;
    };
    template <bool Dyn> struct tm : public base_traits<Dyn> {
        typedef cc::michael_list_tag ordered_list;
        struct ordered_list_traits : public cc::michael_list::traits { typedef std::less<long> less; typedef cds::backoff::empty back_off; };
    };
    template <bool Dyn> struct tl : public base_traits<Dyn> {
        typedef cc::lazy_list_tag ordered_list;
        struct ordered_list_traits : public cc::lazy_list::traits { typedef std::less<long> less; typedef cds::backoff::empty back_off; };
    };
    template <bool Dyn> struct ti : public base_traits<Dyn> {
        typedef cc::iterable_list_tag ordered_list;
        struct ordered_list_traits : public cc::iterable_list::traits { typedef std::less<long> less; typedef cds::backoff::empty back_off; };
    };
    typedef cds::gc::HP HP; typedef cds::gc::DHP DHP;
    typedef cc::SplitListMap< HP, long, long, tm<true> > c1; typedef cc::SplitListMap< HP, long, long, tl<true> > c2;
    typedef cc::SplitListMap< HP, long, long, ti<true> > c3; typedef cc::SplitListMap< HP, long, long, tm<false> > c4;
    typedef cc::SplitListMap< HP, long, long, ti<false> > c5; typedef cc::SplitListMap< DHP, long, long, tm<true> > c6;
    typedef cc::SplitListMap< DHP, long, long, ti<true> > c7;
#define AD( C, LK ) MapAd< C, BuildSplit< C >, FL_HP, LK >
    typedef AD( c1, LK_PLAIN ) a1; typedef AD( c2, LK_PLAIN ) a2; typedef AD( c3, LK_ITER ) a3; typedef AD( c4, LK_PLAIN ) a4;
    typedef AD( c5, LK_ITER ) a5; typedef AD( c6, LK_PLAIN ) a6; typedef AD( c7, LK_ITER ) a7;
    C14_VARIANT( a1, "SplitListMap<HP,MichaelList,dynamic>", "map", "split" )
    C14_VARIANT( a2, "SplitListMap<HP,LazyList,dynamic>", "map", "split" )
    C14_VARIANT( a3, "SplitListMap<HP,IterableList,dynamic>", "map", "split" )
    C14_VARIANT( a4, "SplitListMap<HP,MichaelList,static>", "map", "split_static" )
    C14_VARIANT( a5, "SplitListMap<HP,IterableList,static>", "map", "split_static" )
    C14_VARIANT( a6, "SplitListMap<DHP,MichaelList,dynamic>", "map", "split" )
    C14_VARIANT( a7, "SplitListMap<DHP,IterableList,dynamic>", "map", "split" )
}
C14_MAIN
