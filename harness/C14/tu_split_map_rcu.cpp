// C14 shard: cds::container::SplitListMap over MichaelList / LazyList, RCU and gc::nogc
#include "c14.h"
#include <cds/container/michael_kvlist_rcu.h>
#include <cds/container/lazy_kvlist_rcu.h>
#include <cds/container/michael_kvlist_nogc.h>
#include <cds/container/lazy_kvlist_nogc.h>
#include <cds/container/split_list_map_rcu.h>
#include <cds/container/split_list_map_nogc.h>
#include "c14_cont.h"

namespace {
    using namespace c14;
    namespace cc = cds::container;

    template <bool Dyn> struct base_traits : public cc::split_list::traits {
        typedef map_hash hash;
        typedef cc::split_list::stat< plain_counter > stat;
        typedef cds::backoff::empty back_off;
        static const bool dynamic_bucket_table = Dyn;
    };
    template <bool Dyn> struct tm : public base_traits<Dyn> {
        typedef cc::michael_list_tag ordered_list;
        struct ordered_list_traits : public cc::michael_list::traits { typedef std::less<long> less; typedef cds::backoff::empty back_off; };
    };
    template <bool Dyn> struct tl : public base_traits<Dyn> {
        typedef cc::lazy_list_tag ordered_list;
        struct ordered_list_traits : public cc::lazy_list::traits { typedef std::less<long> less; typedef cds::backoff::empty back_off; };
    };
    typedef cc::SplitListMap< rcu_gpb, long, long, tm<true> > c1; typedef cc::SplitListMap< rcu_gpb, long, long, tl<true> > c2;
    typedef cc::SplitListMap< rcu_gpi, long, long, tm<false> > c3; typedef cc::SplitListMap< rcu_gpi, long, long, tl<true> > c4;
    typedef cc::SplitListMap< cds::gc::nogc, long, long, tm<true> > c5; typedef cc::SplitListMap< cds::gc::nogc, long, long, tl<true> > c6;
#define AD( C, FL ) MapAd< C, BuildSplit< C >, FL, LK_PLAIN >
    typedef AD( c1, FL_RCU ) a1; typedef AD( c2, FL_RCU ) a2; typedef AD( c3, FL_RCU ) a3; typedef AD( c4, FL_RCU ) a4;
    typedef AD( c5, FL_NOGC ) a5; typedef AD( c6, FL_NOGC ) a6;
    C14_VARIANT( a1, "SplitListMap<RCU_GPB,MichaelList,dynamic>", "map", "split" )
    C14_VARIANT( a2, "SplitListMap<RCU_GPB,LazyList,dynamic>", "map", "split" )
    C14_VARIANT( a3, "SplitListMap<RCU_GPI,MichaelList,static>", "map", "split_static" )
    C14_VARIANT( a4, "SplitListMap<RCU_GPI,LazyList,dynamic>", "map", "split" )
    C14_VARIANT( a5, "SplitListMap<nogc,MichaelList,dynamic>", "map", "split" )
    C14_VARIANT( a6, "SplitListMap<nogc,LazyList,dynamic>", "map", "split" )
}
C14_MAIN
