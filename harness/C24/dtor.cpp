// C24 harness, MONITOR-ONLY pass (no step correspondence: LV.Model.Pools has no constructor / destructor step).
// The pools are instantiated with a value type whose constructor and destructor each perform ONE instrumented atomic
// access (a store to a per-object atomic flag through cds' atomics namespace), so that constructing / destroying the
// pooled object is a scheduling point: "deallocate() made the object visible in the free list before it was done with
// it" becomes observable (a concurrent allocate() can pop the address and hand it to a second holder while the first
// holder's deallocate() is still running the old destructor).
// usage: dtor <casefile>
//   cfg = [capacity; kind (0 vyukov_queue_pool, 1 lazy_vyukov_queue_pool, 2 bounded_vyukov_queue_pool); through pool_allocator (0/1)]
//   ops:  1  p = allocate(1)      2 i  deallocate( the (i mod n)-th of the n objects this thread holds, 1 )
// Ownership record per address (clause "never return an object that is currently allocated to another holder"):
//   HELD(t)       from the return of allocate() in thread t
//   DEALLOC(t)    from the call of deallocate() by thread t until it returns (the destructor runs inside)
//   FREE          otherwise
// monitor bad lines (after "endcase"):
//   handed_out_while_held        allocate() returned an object that another thread holds
//   handed_out_while_deallocating allocate() returned an object that another thread's deallocate() has not destroyed yet
//                                (pools that destroy in deallocate: the destructor will still run on it)
//   handed_out_destroyed         allocate() returned an object that is not alive (constructed, then destroyed by the
//                                previous holder's deallocate() running late)
//   dtor_on_held / ctor_on_held  the destructor / constructor ran on an object that ANOTHER thread holds
#include <cds/memory/vyukov_queue_pool.h>
#include <cds/memory/pool_allocator.h>
#include <cds/algo/backoff_strategy.h>
#include <cds/algo/atomic.h>
#include <vcase.h>
#include <chrono>
#include <map>
#include <memory>
#include <mutex>
#include <new>
#include <string>
#include <unistd.h>

namespace vs = khizmax_libcds_verif;

enum { FREE = 0, HELD = 1, DEALLOC = 2 };
struct Rec { int state; int tid; long id; bool dtor_done; };
static std::mutex g_m;
static std::map<void const*, Rec> g_rec;
static std::vector<std::string> g_bad;
static long g_next_id = 0;
static volatile bool g_active = false;

static Rec& rec_of( void const* p )
{
    auto it = g_rec.find( p );
    if ( it == g_rec.end()) { Rec r = { FREE, -1, ++g_next_id, false }; it = g_rec.insert( std::make_pair( p, r )).first; }
    return it->second;
}
static void bad( char const* what, long id, int t, int u )
{
    char buf[200];
    std::snprintf( buf, sizeof( buf ), "%s object %ld thread %d other %d", what, id, t, u );
    g_bad.push_back( buf );
    vcase::emitf( "violation %ld %ld %ld", id, (long) t, (long) u );
}
static void mon_xtor( void const* p, char const* what, bool dtor_exit = false )
{
    if ( !g_active ) return;
    int t = vs::my_tid();
    if ( t < 0 ) return;
    std::lock_guard<std::mutex> l( g_m );
    Rec& r = rec_of( p );
    if ( r.state == HELD && r.tid != t ) bad( what, r.id, t, r.tid );
    if ( dtor_exit && r.state == DEALLOC && r.tid == t ) r.dtor_done = true;
}

struct DObj {
    atomics::atomic<int> flag;
    long alive;         // plain: 1 from the end of the constructor to the end of the destructor
    DObj() : alive( 0 )
    {
        mon_xtor( this, "ctor_on_held" );
        flag.store( 1, atomics::memory_order_relaxed );     // scheduling point
        alive = 1;
    }
    ~DObj()
    {
        mon_xtor( this, "dtor_on_held" );
        flag.store( 0, atomics::memory_order_relaxed );     // scheduling point
        alive = 0;
        mon_xtor( this, "dtor_on_held", true );
    }
};

struct ptraits : public cds::memory::vyukov_queue_pool_traits {
    typedef cds::backoff::empty back_off;
};
typedef cds::memory::vyukov_queue_pool<DObj, ptraits> pool0;
typedef cds::memory::lazy_vyukov_queue_pool<DObj, ptraits> pool1;
typedef cds::memory::bounded_vyukov_queue_pool<DObj, ptraits> pool2;

template <typename P> struct holder { static P * p; };
template <typename P> P * holder<P>::p = nullptr;
template <typename P> struct accessor {
    typedef typename P::value_type value_type;
    P& operator()() const { return *holder<P>::p; }
};

static std::atomic<long long> g_deadline_ms( 0 );
static vcase::Case const * volatile g_current = nullptr;
static long long now_ms() { return std::chrono::duration_cast<std::chrono::milliseconds>( std::chrono::steady_clock::now().time_since_epoch()).count(); }
static void watchdog()
{
    for (;;) {
        std::this_thread::sleep_for( std::chrono::milliseconds( 100 ));
        long long d = g_deadline_ms.load();
        if ( d != 0 && now_ms() > d ) {
            vcase::Case const * c = g_current;
            std::printf( "case %s\n", c ? c->id.c_str() : "?" );
            for ( auto const& l : vs::S().log ) { std::fputs( l.c_str(), stdout ); std::fputc( '\n', stdout ); }
            std::printf( "endcase hang\n" );
            std::fflush( stdout );
            _exit( 0 );
        }
    }
}

// destroys: the pool constructs the object in allocate() and destroys it in deallocate() (vyukov_queue_pool, lazy);
// bounded_vyukov_queue_pool hands out raw preallocated memory and runs neither
template <typename P>
void run_case( vcase::Case const& c, size_t cap, bool adapter, bool destroys )
{
    { std::lock_guard<std::mutex> l( g_m ); g_rec.clear(); g_bad.clear(); g_next_id = 0; }
    std::unique_ptr<P> pool( new P( cap ));
    holder<P>::p = pool.get();
    typedef cds::memory::pool_allocator<DObj, accessor<P>> adapter_t;
    int const N = (int) c.threads.size();
    auto do_alloc = [&]() -> DObj * {
        try { return adapter ? adapter_t().allocate( 1 ) : pool->allocate( 1 ); }
        catch ( std::bad_alloc& ) { return nullptr; }
    };
    auto do_dealloc = [&]( DObj * p ) { if ( adapter ) adapter_t().deallocate( p, 1 ); else pool->deallocate( p, 1 ); };

    std::vector<std::vector<DObj *>> held( N );
    g_current = &c;
    g_deadline_ms.store( now_ms() + 30000 );
    g_active = true;
    vcase::run_workers( c, [&]( int t ) {
        for ( auto const& op : c.threads[t] ) {
            if ( op[0] == 1 ) {
                vcase::emitf( "inv_alloc" );
                DObj * p = do_alloc();
                long id = 0;
                if ( p ) {
                    std::lock_guard<std::mutex> l( g_m );
                    Rec& r = rec_of( p );
                    id = r.id;
                    if ( r.state == HELD && r.tid != t ) bad( "handed_out_while_held", r.id, t, r.tid );
                    else if ( destroys && r.state == DEALLOC && r.tid != t && !r.dtor_done ) bad( "handed_out_while_deallocating", r.id, t, r.tid );
                    if ( destroys && p->alive != 1 ) bad( "handed_out_destroyed", r.id, t, r.tid );
                    r.state = HELD; r.tid = t; r.dtor_done = false;
                    held[t].push_back( p );
                }
                vcase::emitf( "ret_alloc %ld", id );
            }
            else if ( op[0] == 2 && !held[t].empty()) {
                size_t n = (size_t)( op.size() > 1 ? op[1] : 0 ) % held[t].size();
                DObj * p = held[t][n];
                held[t].erase( held[t].begin() + n );
                long id;
                { std::lock_guard<std::mutex> l( g_m ); Rec& r = rec_of( p ); id = r.id; if ( r.state == HELD && r.tid == t ) r.state = DEALLOC; }
                vcase::emitf( "inv_dealloc %ld", id );
                do_dealloc( p );
                { std::lock_guard<std::mutex> l( g_m ); Rec& r = rec_of( p ); if ( r.state == DEALLOC && r.tid == t ) { r.state = FREE; r.tid = -1; } }
                vcase::emitf( "ret_dealloc" );
            }
        }
    }, nullptr, nullptr, 20000 );
    g_active = false;
    vcase::print_log( c );
    if ( g_bad.empty()) std::printf( "monitor ok\n" );
    for ( auto const& b : g_bad ) std::printf( "monitor bad %s\n", b.c_str());
    for ( auto& h : held ) for ( DObj * p : h ) do_dealloc( p );
    pool.reset();
    holder<P>::p = nullptr;
    g_deadline_ms.store( 0 );
}

int main( int argc, char** argv )
{
    if ( argc < 2 ) { std::fprintf( stderr, "usage: %s casefile\n", argv[0] ); return 2; }
    std::ifstream in( argv[1] );
    std::setvbuf( stdout, nullptr, _IOLBF, 0 );
    std::thread( watchdog ).detach();
    vcase::Case c;
    while ( vcase::read_case( in, c )) {
        size_t cap = c.cfg.size() > 0 ? (size_t) c.cfg[0] : 2;
        long kind = c.cfg.size() > 1 ? c.cfg[1] : 1;
        bool adapter = c.cfg.size() > 2 && c.cfg[2] == 1;
        if ( kind == 1 ) run_case<pool1>( c, cap, adapter, true );
        else if ( kind == 2 ) run_case<pool2>( c, cap, adapter, false );
        else run_case<pool0>( c, cap, adapter, true );
    }
    return 0;
}
