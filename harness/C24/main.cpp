// C24 harness: client programs of allocate / deallocate on the real cds::memory::vyukov_queue_pool,
// lazy_vyukov_queue_pool, bounded_vyukov_queue_pool (directly or through cds::memory::pool_allocator) under the
// deterministic scheduler; prints the event log (format: ocaml/conc_main.ml) and the quiescent pool content.
// usage: main <casefile>
//   cfg = [capacity; kind (0 vyukov_queue_pool, 1 lazy, 2 bounded); through pool_allocator (0/1); loop fuel (model only)]
//   ops:  1            p = allocate(1)
//         2 i          deallocate( the (i mod n)-th of the n objects this thread holds, 1 )   (nothing if n == 0)
// Object numbers (same as LV.Model.Pools): preallocated block: index + 1; heap object obtained by the i-th
// operation of thread t of N: cap + 1 + i*N + t; 0 = bad_alloc.
#include <cds/memory/vyukov_queue_pool.h>
#include <cds/memory/pool_allocator.h>
#include <cds/algo/backoff_strategy.h>
#include <vcase.h>
#include <chrono>
#include <map>
#include <memory>
#include <new>
#include <unistd.h>

namespace vs = khizmax_libcds_verif;

struct Obj { long payload; Obj() : payload( 0 ) {} };

// heap objects known to the harness: address -> object number
static std::mutex g_heap_m;
static std::map<void const*, long> g_heap;

static long heap_id( void const * p )
{
    std::lock_guard<std::mutex> l( g_heap_m );
    auto it = g_heap.find( p );
    return it == g_heap.end() ? -1 : it->second;
}

// allocator used by the pools: reports every release to the heap performed by a worker as "free <object>"
template <typename T>
struct log_alloc {
    typedef T value_type;
    log_alloc() noexcept {}
    template <typename U> log_alloc( log_alloc<U> const& ) noexcept {}
    T * allocate( size_t n ) { return static_cast<T *>( ::operator new( n * sizeof( T ))); }
    void deallocate( T * p, size_t ) noexcept
    {
        long id = heap_id( p );
        if ( id >= 0 ) {
            { std::lock_guard<std::mutex> l( g_heap_m ); g_heap.erase( p ); }
            vcase::emitf( "free %ld", id );
        }
        ::operator delete( p );
    }
    template <typename U> bool operator==( log_alloc<U> const& ) const { return true; }
    template <typename U> bool operator!=( log_alloc<U> const& ) const { return false; }
};

struct ptraits : public cds::memory::vyukov_queue_pool_traits {
    typedef cds::backoff::empty back_off;
    typedef log_alloc<int> allocator;
};

struct pool0 : public cds::memory::vyukov_queue_pool<Obj, ptraits> {
    pool0( size_t n ) : cds::memory::vyukov_queue_pool<Obj, ptraits>( n ) {}
    Obj * first() { return this->m_pFirst; }
};
struct pool1 : public cds::memory::lazy_vyukov_queue_pool<Obj, ptraits> {
    pool1( size_t n ) : cds::memory::lazy_vyukov_queue_pool<Obj, ptraits>( n ) {}
    Obj * first() { return nullptr; }
};
struct pool2 : public cds::memory::bounded_vyukov_queue_pool<Obj, ptraits> {
    pool2( size_t n ) : cds::memory::bounded_vyukov_queue_pool<Obj, ptraits>( n ) {}
    Obj * first() { return this->m_pFirst; }
};

template <typename P> struct holder { static P * p; };
template <typename P> P * holder<P>::p = nullptr;
template <typename P> struct accessor {
    typedef typename P::value_type value_type;
    P& operator()() const { return *holder<P>::p; }
};

// watchdog (see harness/C07/main.cpp)
static std::atomic<long long> g_deadline_ms( 0 );
static vcase::Case const * volatile g_current = nullptr;
static long long now_ms() { return std::chrono::duration_cast<std::chrono::milliseconds>( std::chrono::steady_clock::now().time_since_epoch()).count(); }
static void watchdog()
{
    for (;;) {
        std::this_thread::sleep_for( std::chrono::milliseconds( 100 ));
        long long d = g_deadline_ms.load();
        if ( d != 0 && now_ms() > d ) {
            vcase::Case const * c = g_current;
            std::printf( "case %s\n", c ? c->id.c_str() : "?" );
            for ( auto const& l : vs::S().log ) { std::fputs( l.c_str(), stdout ); std::fputc( '\n', stdout ); }
            std::printf( "endcase hang\n" );
            std::fflush( stdout );
            _exit( 0 );
        }
    }
}

template <typename P>
void run_case( vcase::Case const& c, size_t cap, bool adapter )
{
    {
        std::lock_guard<std::mutex> l( g_heap_m );
        g_heap.clear();
    }
    std::unique_ptr<P> pool( new P( cap ));
    holder<P>::p = pool.get();
    typedef cds::memory::pool_allocator<Obj, accessor<P>> adapter_t;
    int const N = (int) c.threads.size();
    Obj * first = pool->first();

    auto do_alloc = [&]() -> Obj * {
        try { return adapter ? adapter_t().allocate( 1 ) : pool->allocate( 1 ); }
        catch ( std::bad_alloc& ) { return nullptr; }
    };
    auto do_dealloc = [&]( Obj * p ) { if ( adapter ) adapter_t().deallocate( p, 1 ); else pool->deallocate( p, 1 ); };
    auto number_of = [&]( Obj * p, long fresh ) -> long {
        if ( !p ) return 0;
        if ( first && p >= first && p < first + cap ) return (long)( p - first ) + 1;
        long id = heap_id( p );
        if ( id >= 0 ) return id;
        std::lock_guard<std::mutex> l( g_heap_m );
        g_heap[p] = fresh;
        return fresh;
    };

    std::vector<std::vector<std::pair<Obj *, long>>> held( N );
    g_current = &c;
    g_deadline_ms.store( now_ms() + 30000 );   // generous: only a genuinely spinning run reaches it, even on a loaded machine
    vcase::run_workers( c, [&]( int t ) {
        long idx = 0;
        for ( auto const& op : c.threads[t] ) {
            if ( op[0] == 1 ) {
                vcase::emitf( "inv_alloc" );
                Obj * p = do_alloc();
                long id = number_of( p, (long) cap + 1 + idx * N + t );
                if ( p ) held[t].push_back( std::make_pair( p, id ));
                vcase::emitf( "ret_alloc %ld", id );
            }
            else if ( op[0] == 2 ) {
                if ( !held[t].empty()) {
                    size_t n = (size_t)( op.size() > 1 ? op[1] : 0 ) % held[t].size();
                    std::pair<Obj *, long> x = held[t][n];
                    held[t].erase( held[t].begin() + n );
                    vcase::emitf( "inv_dealloc %ld", x.second );
                    do_dealloc( x.first );
                    vcase::emitf( "ret_dealloc" );
                }
            }
            else
                continue;       // not an operation: the model drops it too
            ++idx;
        }
    }, nullptr, nullptr, 20000 );
    vcase::print_log( c );
    {
        // quiescent content of the pool: allocate until the pool is exhausted (a fresh heap object / bad_alloc)
        std::printf( "monitor pool" );
        std::vector<Obj *> got;
        for ( size_t n = 0; n < 4 * cap + 8; ++n ) {
            Obj * p = do_alloc();
            if ( !p ) break;
            bool pooled = first && p >= first && p < first + cap;
            long id = pooled ? (long)( p - first ) + 1 : heap_id( p );
            got.push_back( p );
            if ( id < 0 ) break;        // fresh heap object: the pool was empty
            std::printf( " %ld", id );
        }
        std::printf( "\n" );
        for ( Obj * p : got ) do_dealloc( p );
        for ( auto& h : held ) for ( auto& x : h ) do_dealloc( x.first );
    }
    pool.reset();
    holder<P>::p = nullptr;
    g_deadline_ms.store( 0 );
}

int main( int argc, char** argv )
{
    if ( argc < 2 ) { std::fprintf( stderr, "usage: %s casefile\n", argv[0] ); return 2; }
    std::ifstream in( argv[1] );
    std::setvbuf( stdout, nullptr, _IOLBF, 0 );     // completed cases survive a crash of a later one
    std::thread( watchdog ).detach();
    vcase::Case c;
    while ( vcase::read_case( in, c )) {
        size_t cap = c.cfg.size() > 0 ? (size_t) c.cfg[0] : 2;
        long kind = c.cfg.size() > 1 ? c.cfg[1] : 0;
        bool adapter = c.cfg.size() > 2 && c.cfg[2] == 1;
        if ( kind == 1 ) run_case<pool1>( c, cap, adapter );
        else if ( kind == 2 ) run_case<pool2>( c, cap, adapter );
        else run_case<pool0>( c, cap, adapter );
    }
    return 0;
}
