// C10 harness: real cds::container::FCDeque histories under the deterministic scheduler (observable
// correspondence: the history of every case is decided by the verified lincheck, spec Deque).
//
// usage: main <casefile>
//   cfg = [variant; compact factor; combine pass count; prefill]
//      variant 0: FCDeque<int, std::deque<int>>, elimination off       1: the same, elimination on
//      variant 2: FCDeque<int, boost::container::deque<int>>, elimination off   3: the same, elimination on
//      prefill k: the main thread pushes k values 900, 901, ... (push_back) before the workers start
//   thread operations: [1; v] push_front v   [2; v] push_back v   [3] pop_front   [4] pop_back
//                      [5; v] push_front( T&& ) (request word op_push_front_move)   [6; v] push_back( T&& ) (op_push_back_move)
//
// Output per case: "case <id>", the client events only ("<tid> ev inv <op> [v]" / "<tid> ev res <result>", the
// prefill operations appear as thread 99), "endcase <finished|fuel>", then
//   monitor ops N        requests published (kernel statistics onOperation)
//   monitor combs N      combiner sessions (onCombining)
//   monitor collided N   pairs eliminated by fc_process (onCollide)
#include <cds/container/fcdeque.h>
#include <cds/algo/backoff_strategy.h>
#include <vcase.h>
#include <deque>
#ifdef VERIF_HAVE_BOOST_DEQUE
#include <boost/container/deque.hpp>
#endif

namespace vs = khizmax_libcds_verif;
namespace cc = cds::container;
namespace fc = cds::algo::flat_combining;

struct count_stat : public cc::fcdeque::empty_stat {
    size_t ops = 0, combs = 0, collided = 0;
    void onOperation() { ++ops; }
    void onCombining() { ++combs; }
    void onCollide() { ++collided; }
};

template <bool Elim>
struct traits_t : public cc::fcdeque::traits {
    typedef fc::wait_strategy::backoff<cds::backoff::empty> wait_strategy;     // spin on the request word, no sleeping
    typedef count_stat stat;
    static constexpr const bool enable_elimination = Elim;
};
template <bool Elim> constexpr const bool traits_t<Elim>::enable_elimination;

static std::atomic<int> g_ended;

template <class Deque>
static void run_case( vcase::Case const& c )
{
    unsigned cf = c.cfg.size() > 1 ? (unsigned) c.cfg[1] : 1;
    unsigned pc = c.cfg.size() > 2 ? (unsigned) c.cfg[2] : 1;
    long prefill = c.cfg.size() > 3 ? c.cfg[3] : 0;
    int n = (int) c.threads.size();
    std::vector<std::string> pre;
    size_t ops, combs, collided;
    {
        Deque dq( cf, pc );
        for ( long k = 0; k < prefill; ++k ) {
            dq.push_back( (int)( 900 + k ));
            char buf[64];
            std::snprintf( buf, sizeof( buf ), "99 ev inv push_back %ld", 900 + k ); pre.push_back( buf );
            pre.push_back( "99 ev res true" );
        }
        g_ended.store( 0 );
        vcase::run_workers( c, [&]( int t ) {
            for ( auto const& op : c.threads[t] ) {
                int v = op.size() > 1 ? (int) op[1] : 0;
                switch ( op[0] ) {
                case 1: vcase::emitf( "inv push_front %ld", v ); dq.push_front( v ); vcase::emitf( "res true" ); break;
                case 2: vcase::emitf( "inv push_back %ld", v ); dq.push_back( v ); vcase::emitf( "res true" ); break;
                case 5: vcase::emitf( "inv push_front %ld", v ); dq.push_front( std::move( v )); vcase::emitf( "res true" ); break;
                case 6: vcase::emitf( "inv push_back %ld", v ); dq.push_back( std::move( v )); vcase::emitf( "res true" ); break;
                case 3: { vcase::emitf( "inv pop_front" ); int x = -1; bool b = dq.pop_front( x ); if ( b ) vcase::emitf( "res some %ld", x ); else vcase::emitf( "res none" ); break; }
                case 4: { vcase::emitf( "inv pop_back" ); int x = -1; bool b = dq.pop_back( x ); if ( b ) vcase::emitf( "res some %ld", x ); else vcase::emitf( "res none" ); break; }
                }
            }
            g_ended.fetch_add( 1 );
        }, nullptr, [&]( int ) {
            // a worker thread must not exit (its thread-local record would be marked `removed` by the TLS cleanup,
            // outside the scheduler) while another worker is still running
            while ( g_ended.load() < n ) std::this_thread::yield();
        }, 40000 );
        ops = dq.statistics().ops; combs = dq.statistics().combs; collided = dq.statistics().collided;
    }
    std::printf( "case %s\n", c.id.c_str());
    for ( auto const& l : pre ) std::printf( "%s\n", l.c_str());
    for ( auto const& l : vs::S().log ) {
        size_t p = l.find( ' ' );
        if ( p != std::string::npos && l.compare( p + 1, 3, "ev " ) == 0 ) std::printf( "%s\n", l.c_str());
    }
    std::printf( "endcase %s\n", vs::S().overrun ? "fuel" : "finished" );
    std::printf( "monitor ops %zu\nmonitor combs %zu\nmonitor collided %zu\n", ops, combs, collided );
}

int main( int argc, char** argv )
{
    if ( argc < 2 ) { std::fprintf( stderr, "usage: %s casefile\n", argv[0] ); return 2; }
    std::ifstream in( argv[1] );
    vcase::Case c;
    while ( vcase::read_case( in, c )) {
        long variant = c.cfg.size() > 0 ? c.cfg[0] : 0;
        switch ( variant ) {
        case 0: run_case< cc::FCDeque<int, std::deque<int>, traits_t<false>>>( c ); break;
        case 1: run_case< cc::FCDeque<int, std::deque<int>, traits_t<true>>>( c ); break;
#ifdef VERIF_HAVE_BOOST_DEQUE
        case 2: run_case< cc::FCDeque<int, boost::container::deque<int>, traits_t<false>>>( c ); break;
        case 3: run_case< cc::FCDeque<int, boost::container::deque<int>, traits_t<true>>>( c ); break;
#endif
        default: std::printf( "case %s\nendcase unsupported\n", c.id.c_str()); break;
        }
        std::fflush( stdout );
    }
    return 0;
}
