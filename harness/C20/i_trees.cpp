// C20: intrusive SkipListSet, EllenBinTree (ordered: extract_min / extract_max) and FeldmanHashSet, counting disposer
#include "c20_intrusive.h"
#include <cds/intrusive/skip_list_hp.h>
#include <cds/intrusive/skip_list_dhp.h>
#include <cds/intrusive/skip_list_rcu.h>
#include <cds/intrusive/ellen_bintree_hp.h>
#include <cds/intrusive/ellen_bintree_dhp.h>
#include <cds/intrusive/ellen_bintree_rcu.h>
#include <cds/intrusive/feldman_hashset_hp.h>
#include <cds/intrusive/feldman_hashset_dhp.h>
#include <cds/intrusive/feldman_hashset_rcu.h>

using namespace c20;
namespace ci = cds::intrusive;
namespace co = cds::opt;

namespace {
    typedef cds::atomicity::item_counter cnt;
    //        upd ptr   with  ord   iter
    typedef icaps<1, true, true, true, true> caps_skip;
    typedef icaps<1, true, true, true, false> caps_ellen;
    //        upd ptr   with   ord    iter  erase find1
    typedef icaps<5, true, false, false, true, 1, true> caps_feldman;

    template <typename GC> struct sk {
        typedef ci::skip_list::node<GC> node;
        typedef BItem<node> base_item; typedef MItem<node> member_item;
        struct t_base_less : ci::skip_list::traits { typedef ci::skip_list::base_hook<co::gc<GC>> hook; typedef idisposer disposer; typedef item_less less; };
        struct t_base_cmp_cnt : ci::skip_list::traits { typedef ci::skip_list::base_hook<co::gc<GC>> hook; typedef idisposer disposer; typedef item_cmp compare; typedef cnt item_counter; };
        struct t_base_cmp_cnt_stat_x16 : t_base_cmp_cnt { typedef ci::skip_list::stat<> stat; typedef ci::skip_list::xorshift16 random_level_generator; };
        struct t_member_less_cnt_t24 : ci::skip_list::traits {
            typedef ci::skip_list::member_hook<offsetof( member_item, hMember ), co::gc<GC>> hook; typedef idisposer disposer; typedef item_less less; typedef cnt item_counter;
            typedef ci::skip_list::turbo24 random_level_generator; };
    };
    struct kx { template <typename T> void operator()( int& key, T const& v ) const { key = v.key; } };
    template <typename GC> struct el {
        typedef ci::ellen_bintree::node<GC> node;
        typedef BItem<node> base_item; typedef MItem<node> member_item;
        struct t_base_less : ci::ellen_bintree::traits { typedef ci::ellen_bintree::base_hook<co::gc<GC>> hook; typedef kx key_extractor; typedef idisposer disposer; typedef item_less less; };
        struct t_base_cmp_cnt : ci::ellen_bintree::traits { typedef ci::ellen_bintree::base_hook<co::gc<GC>> hook; typedef kx key_extractor; typedef idisposer disposer; typedef item_cmp compare; typedef cnt item_counter; };
        struct t_base_cmp_cnt_stat : t_base_cmp_cnt { typedef ci::ellen_bintree::stat<> stat; };
        struct t_member_less_cnt : ci::ellen_bintree::traits {
            typedef ci::ellen_bintree::member_hook<offsetof( member_item, hMember ), co::gc<GC>> hook; typedef kx key_extractor; typedef idisposer disposer; typedef item_less less; typedef cnt item_counter; };
    };
    struct get_hash { int const& operator()( PItem const& i ) const { return i.key; } };
    struct int_cmp { int operator()( int a, int b ) const { return a < b ? -1 : ( b < a ? 1 : 0 ); } };
    struct f_cmp : ci::feldman_hashset::traits { typedef get_hash hash_accessor; typedef idisposer disposer; typedef int_cmp compare; };
    struct f_less_stat : ci::feldman_hashset::traits { typedef get_hash hash_accessor; typedef idisposer disposer; typedef std::less<int> less; typedef ci::feldman_hashset::stat<> stat; };
    struct f_bitwise_nocnt : ci::feldman_hashset::traits { typedef get_hash hash_accessor; typedef idisposer disposer; typedef cds::atomicity::empty_item_counter item_counter; };

    template <typename Env, typename S, typename Caps, typename Mk = mk0> void reg( char const* name, bool counted, bool ebs, bool replace, char const* traits )
    {
        add_variant<Env, IntrusiveAdapter<S, Env, Caps, Mk>>( name, 'K', kcfg( counted, ebs, replace, 1 ), traits );
    }
#define SK( Env, item, tr ) ci::SkipListSet<Env::gc, sk<Env::gc>::item, sk<Env::gc>::tr>
#define EL( Env, item, tr ) ci::EllenBinTree<Env::gc, int, el<Env::gc>::item, el<Env::gc>::tr>

    void register_all()
    {
        reg<EnvHP, SK( EnvHP, base_item, t_base_less ), caps_skip>( "I_SkipListSet_HP_base_less", false, false, false, "form=intrusive;family=SkipListSet;hook=base;order=less;counter=off" );
        reg<EnvHP, SK( EnvHP, base_item, t_base_cmp_cnt ), caps_skip>( "I_SkipListSet_HP_base_cmp_cnt", true, false, false, "form=intrusive;family=SkipListSet;hook=base;order=compare;counter=on" );
        reg<EnvHP, SK( EnvHP, member_item, t_member_less_cnt_t24 ), caps_skip>( "I_SkipListSet_HP_member_less_cnt_turbo24", true, false, false, "form=intrusive;family=SkipListSet;hook=member;order=less;counter=on;random=turbo24" );
        reg<EnvDHP, SK( EnvDHP, base_item, t_base_cmp_cnt_stat_x16 ), caps_skip>( "I_SkipListSet_DHP_base_cmp_cnt_stat_xorshift16", true, false, false, "form=intrusive;family=SkipListSet;hook=base;order=compare;counter=on;stat=on;random=xorshift16" );
        reg<EnvGPB, SK( EnvGPB, base_item, t_base_cmp_cnt ), caps_skip>( "I_SkipListSet_RCU_GPB_base_cmp_cnt", true, false, false, "form=intrusive;family=SkipListSet;hook=base;order=compare;counter=on" );
        reg<EnvGPI, SK( EnvGPI, member_item, t_member_less_cnt_t24 ), caps_skip>( "I_SkipListSet_RCU_GPI_member_less_cnt_turbo24", true, false, false, "form=intrusive;family=SkipListSet;hook=member;order=less;counter=on;random=turbo24" );
        reg<EnvGPT, SK( EnvGPT, base_item, t_base_less ), caps_skip>( "I_SkipListSet_RCU_GPT_base_less", false, false, false, "form=intrusive;family=SkipListSet;hook=base;order=less;counter=off" );

        reg<EnvHP, EL( EnvHP, base_item, t_base_less ), caps_ellen>( "I_EllenBinTree_HP_base_less", false, false, false, "form=intrusive;family=EllenBinTree;hook=base;order=less;counter=off" );
        reg<EnvHP, EL( EnvHP, base_item, t_base_cmp_cnt ), caps_ellen>( "I_EllenBinTree_HP_base_cmp_cnt", true, false, false, "form=intrusive;family=EllenBinTree;hook=base;order=compare;counter=on" );
        reg<EnvHP, EL( EnvHP, member_item, t_member_less_cnt ), caps_ellen>( "I_EllenBinTree_HP_member_less_cnt", true, false, false, "form=intrusive;family=EllenBinTree;hook=member;order=less;counter=on" );
        reg<EnvDHP, EL( EnvDHP, base_item, t_base_cmp_cnt_stat ), caps_ellen>( "I_EllenBinTree_DHP_base_cmp_cnt_stat", true, false, false, "form=intrusive;family=EllenBinTree;hook=base;order=compare;counter=on;stat=on" );
        reg<EnvGPB, EL( EnvGPB, base_item, t_base_cmp_cnt ), caps_ellen>( "I_EllenBinTree_RCU_GPB_base_cmp_cnt", true, false, false, "form=intrusive;family=EllenBinTree;hook=base;order=compare;counter=on" );
        reg<EnvGPI, EL( EnvGPI, member_item, t_member_less_cnt ), caps_ellen>( "I_EllenBinTree_RCU_GPI_member_less_cnt", true, false, false, "form=intrusive;family=EllenBinTree;hook=member;order=less;counter=on" );

        reg<EnvHP, ci::FeldmanHashSet<cds::gc::HP, PItem, f_cmp>, caps_feldman, mk2<2, 2>>( "I_FeldmanHashSet_HP_cmp_2x2", true, true, true, "form=intrusive;family=FeldmanHashSet;hook=none;order=compare;counter=on;ctor=head2,array2" );
        reg<EnvHP, ci::FeldmanHashSet<cds::gc::HP, PItem, f_bitwise_nocnt>, caps_feldman, mk2<4, 2>>( "I_FeldmanHashSet_HP_bitwise_nocnt_4x2", false, true, true, "form=intrusive;family=FeldmanHashSet;hook=none;order=bitwise;counter=off;ctor=head4,array2" );
        reg<EnvDHP, ci::FeldmanHashSet<cds::gc::DHP, PItem, f_less_stat>, caps_feldman, mk2<3, 3>>( "I_FeldmanHashSet_DHP_less_stat_3x3", true, true, true, "form=intrusive;family=FeldmanHashSet;hook=none;order=less;counter=on;stat=on;ctor=head3,array3" );
        reg<EnvGPB, ci::FeldmanHashSet<EnvGPB::gc, PItem, f_cmp>, caps_feldman, mk2<2, 2>>( "I_FeldmanHashSet_RCU_GPB_cmp_2x2", true, true, true, "form=intrusive;family=FeldmanHashSet;hook=none;order=compare;counter=on;ctor=head2,array2" );
        reg<EnvGPI, ci::FeldmanHashSet<EnvGPI::gc, PItem, f_less_stat>, caps_feldman, mk2<4, 4>>( "I_FeldmanHashSet_RCU_GPI_less_stat_4x4", true, true, true, "form=intrusive;family=FeldmanHashSet;hook=none;order=less;counter=on;stat=on;ctor=head4,array4" );
    }
}
C20_MAIN( register_all )
