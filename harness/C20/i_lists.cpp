// C20: intrusive MichaelList / LazyList / IterableList with a counting disposer (HP, DHP, RCU)
#include "c20_intrusive.h"
#include <cds/intrusive/michael_list_hp.h>
#include <cds/intrusive/michael_list_dhp.h>
#include <cds/intrusive/michael_list_rcu.h>
#include <cds/intrusive/lazy_list_hp.h>
#include <cds/intrusive/lazy_list_dhp.h>
#include <cds/intrusive/lazy_list_rcu.h>
#include <cds/intrusive/iterable_list_hp.h>
#include <cds/intrusive/iterable_list_dhp.h>

using namespace c20;
namespace ci = cds::intrusive;
namespace co = cds::opt;

namespace {
    typedef cds::atomicity::item_counter cnt;
    //        upd ptr   with  ord    iter
    typedef icaps<1, true, true, false, true> caps_l;
    typedef icaps<2, true, true, false, true> caps_it;

    // ---- MichaelList
    template <typename GC> struct ml {
        typedef ci::michael_list::node<GC> node;
        typedef BItem<node> base_item; typedef MItem<node> member_item;
        struct t_base_less : ci::michael_list::traits { typedef ci::michael_list::base_hook<co::gc<GC>> hook; typedef idisposer disposer; typedef item_less less; };
        struct t_base_cmp_cnt : ci::michael_list::traits { typedef ci::michael_list::base_hook<co::gc<GC>> hook; typedef idisposer disposer; typedef item_cmp compare; typedef cnt item_counter; };
        struct t_base_cmp_cnt_stat : t_base_cmp_cnt { typedef ci::michael_list::stat<> stat; typedef co::v::sequential_consistent memory_model; };
        struct t_member_less_cnt : ci::michael_list::traits {
            typedef ci::michael_list::member_hook<offsetof( member_item, hMember ), co::gc<GC>> hook; typedef idisposer disposer; typedef item_less less; typedef cnt item_counter; };
        struct t_member_cmp : ci::michael_list::traits {
            typedef ci::michael_list::member_hook<offsetof( member_item, hMember ), co::gc<GC>> hook; typedef idisposer disposer; typedef item_cmp compare; };
    };
    // ---- LazyList
    template <typename GC> struct ll {
        typedef ci::lazy_list::node<GC> node;
        typedef BItem<node> base_item; typedef MItem<node> member_item;
        struct t_base_less : ci::lazy_list::traits { typedef ci::lazy_list::base_hook<co::gc<GC>> hook; typedef idisposer disposer; typedef item_less less; };
        struct t_base_cmp_cnt : ci::lazy_list::traits { typedef ci::lazy_list::base_hook<co::gc<GC>> hook; typedef idisposer disposer; typedef item_cmp compare; typedef cnt item_counter; };
        struct t_base_cmp_cnt_stat : t_base_cmp_cnt { typedef ci::lazy_list::stat<> stat; };
        struct t_member_less_cnt : ci::lazy_list::traits {
            typedef ci::lazy_list::member_hook<offsetof( member_item, hMember ), co::gc<GC>> hook; typedef idisposer disposer; typedef item_less less; typedef cnt item_counter; };
    };
    // ---- IterableList: no hook
    struct il_less_cnt : ci::iterable_list::traits { typedef idisposer disposer; typedef item_less less; typedef cnt item_counter; };
    struct il_cmp_cnt_stat : ci::iterable_list::traits { typedef idisposer disposer; typedef item_cmp compare; typedef cnt item_counter; typedef ci::iterable_list::stat<> stat; };
    struct il_cmp_nocnt : ci::iterable_list::traits { typedef idisposer disposer; typedef item_cmp compare; };

    template <typename Env, typename L, typename Caps> void reg( char const* name, bool counted, bool ebs, bool replace, char const* traits )
    {
        add_variant<Env, IntrusiveAdapter<L, Env, Caps>>( name, 'K', kcfg( counted, ebs, replace, 1 ), traits );
    }
#define ML( Env, item, tr ) ci::MichaelList<Env::gc, ml<Env::gc>::item, ml<Env::gc>::tr>
#define LL( Env, item, tr ) ci::LazyList<Env::gc, ll<Env::gc>::item, ll<Env::gc>::tr>

    void register_all()
    {
        reg<EnvHP, ML( EnvHP, base_item, t_base_less ), caps_l>( "I_MichaelList_HP_base_less", false, false, false, "form=intrusive;family=MichaelList;hook=base;order=less;counter=off" );
        reg<EnvHP, ML( EnvHP, base_item, t_base_cmp_cnt ), caps_l>( "I_MichaelList_HP_base_cmp_cnt", true, false, false, "form=intrusive;family=MichaelList;hook=base;order=compare;counter=on" );
        reg<EnvHP, ML( EnvHP, member_item, t_member_less_cnt ), caps_l>( "I_MichaelList_HP_member_less_cnt", true, false, false, "form=intrusive;family=MichaelList;hook=member;order=less;counter=on" );
        reg<EnvDHP, ML( EnvDHP, base_item, t_base_cmp_cnt_stat ), caps_l>( "I_MichaelList_DHP_base_cmp_cnt_stat_seqcst", true, false, false, "form=intrusive;family=MichaelList;hook=base;order=compare;counter=on;stat=on;memory_model=seq_cst" );
        reg<EnvDHP, ML( EnvDHP, member_item, t_member_cmp ), caps_l>( "I_MichaelList_DHP_member_cmp", false, false, false, "form=intrusive;family=MichaelList;hook=member;order=compare;counter=off" );
        reg<EnvGPB, ML( EnvGPB, base_item, t_base_cmp_cnt ), caps_l>( "I_MichaelList_RCU_GPB_base_cmp_cnt", true, false, false, "form=intrusive;family=MichaelList;hook=base;order=compare;counter=on" );
        reg<EnvGPI, ML( EnvGPI, member_item, t_member_less_cnt ), caps_l>( "I_MichaelList_RCU_GPI_member_less_cnt", true, false, false, "form=intrusive;family=MichaelList;hook=member;order=less;counter=on" );
        reg<EnvGPT, ML( EnvGPT, base_item, t_base_less ), caps_l>( "I_MichaelList_RCU_GPT_base_less", false, false, false, "form=intrusive;family=MichaelList;hook=base;order=less;counter=off" );

        reg<EnvHP, LL( EnvHP, base_item, t_base_less ), caps_l>( "I_LazyList_HP_base_less", false, false, false, "form=intrusive;family=LazyList;hook=base;order=less;counter=off" );
        reg<EnvHP, LL( EnvHP, member_item, t_member_less_cnt ), caps_l>( "I_LazyList_HP_member_less_cnt", true, false, false, "form=intrusive;family=LazyList;hook=member;order=less;counter=on" );
        reg<EnvDHP, LL( EnvDHP, base_item, t_base_cmp_cnt_stat ), caps_l>( "I_LazyList_DHP_base_cmp_cnt_stat", true, false, false, "form=intrusive;family=LazyList;hook=base;order=compare;counter=on;stat=on" );
        reg<EnvGPB, LL( EnvGPB, base_item, t_base_cmp_cnt ), caps_l>( "I_LazyList_RCU_GPB_base_cmp_cnt", true, false, false, "form=intrusive;family=LazyList;hook=base;order=compare;counter=on" );
        reg<EnvGPI, LL( EnvGPI, member_item, t_member_less_cnt ), caps_l>( "I_LazyList_RCU_GPI_member_less_cnt", true, false, false, "form=intrusive;family=LazyList;hook=member;order=less;counter=on" );

        reg<EnvHP, ci::IterableList<cds::gc::HP, PItem, il_less_cnt>, caps_it>( "I_IterableList_HP_less_cnt", true, true, true, "form=intrusive;family=IterableList;hook=none;order=less;counter=on" );
        reg<EnvHP, ci::IterableList<cds::gc::HP, PItem, il_cmp_nocnt>, caps_it>( "I_IterableList_HP_cmp_nocnt", false, true, true, "form=intrusive;family=IterableList;hook=none;order=compare;counter=off" );
        reg<EnvDHP, ci::IterableList<cds::gc::DHP, PItem, il_cmp_cnt_stat>, caps_it>( "I_IterableList_DHP_cmp_cnt_stat", true, true, true, "form=intrusive;family=IterableList;hook=none;order=compare;counter=on;stat=on" );
    }
}
C20_MAIN( register_all )
