// C20: cds::container::StripedSet / StripedMap over std and boost bucket containers (striping and refinable locks)
#include "c20_keyed.h"
#include <cds/container/striped_set/std_list.h>
#include <cds/container/striped_set/std_vector.h>
#include <cds/container/striped_set/std_set.h>
#include <cds/container/striped_set/std_hash_set.h>
#include <cds/container/striped_set/boost_list.h>
#include <cds/container/striped_set/boost_slist.h>
#include <cds/container/striped_set/boost_vector.h>
#include <cds/container/striped_set/boost_stable_vector.h>
#include <cds/container/striped_set/boost_set.h>
#include <cds/container/striped_set/boost_flat_set.h>
#include <cds/container/striped_set/boost_unordered_set.h>
#include <cds/container/striped_set.h>
#include <cds/container/striped_map/std_list.h>
#include <cds/container/striped_map/std_map.h>
#include <cds/container/striped_map/std_hash_map.h>
#include <cds/container/striped_map/boost_list.h>
#include <cds/container/striped_map/boost_slist.h>
#include <cds/container/striped_map/boost_map.h>
#include <cds/container/striped_map/boost_flat_map.h>
#include <cds/container/striped_map/boost_unordered_map.h>
#include <cds/container/striped_map.h>

using namespace c20;
namespace cc = cds::container;
namespace co = cds::opt;

namespace {
    //      upd ptr    with   ord    iter
    typedef caps<1, false, true, false, false> caps_seq;       // sequence buckets: *_with offered
    typedef caps<1, false, false, false, false> caps_assoc;    // associative buckets

    template <typename S, typename Caps, typename Mk> void regs( char const* name, char const* traits )
    {
        add_variant<EnvNone, SetAdapter<S, EnvNone, Caps, Mk>>( name, 'K', kcfg( true, true, false, 0 ), traits );
    }
    template <typename M, typename Caps, typename Mk> void regm( char const* name, char const* traits )
    {
        add_variant<EnvNone, MapAdapter<M, EnvNone, Caps, Mk>>( name, 'K', kcfg( true, true, false, 0 ), traits );
    }
    typedef co::mutex_policy<cc::striped_set::striping<>> striping;
    typedef co::mutex_policy<cc::striped_set::refinable<>> refinable;
    typedef co::mutex_policy<cc::striped_set::striping<cds::sync::spin>> striping_spin;

    void register_all()
    {
        // ---- sets
        regs<cc::StripedSet<std::list<Item>, co::hash<hash_mod<4>>, co::less<item_less>, striping>, caps_seq, mk1<4>>(
            "StripedSet_std_list_less_hashmod4_striping", "form=container;family=StripedSet;bucket=std::list;order=less;hash=mod4(colliding);mutex=striping;resize=default;ctor=4" );
        regs<cc::StripedSet<std::list<Item>, co::hash<hash_mix>, co::compare<item_cmp>, refinable, co::resizing_policy<cc::striped_set::load_factor_resizing<2>>>, caps_seq, mk1<2>>(
            "StripedSet_std_list_cmp_hashmix_refinable_lf2", "form=container;family=StripedSet;bucket=std::list;order=compare;hash=mix;mutex=refinable;resize=load_factor<2>;ctor=2" );
        regs<cc::StripedSet<std::vector<Item>, co::hash<hash_mix>, co::less<item_less>, striping_spin, co::resizing_policy<cc::striped_set::single_bucket_size_threshold<3>>>, caps_seq, mk1<2>>(
            "StripedSet_std_vector_less_hashmix_spin_sbt3", "form=container;family=StripedSet;bucket=std::vector;order=less;hash=mix;mutex=striping<spin>;resize=single_bucket_size_threshold<3>;ctor=2" );
        regs<cc::StripedSet<std::set<Item, item_less>, co::hash<hash_mod<4>>, striping, co::resizing_policy<cc::striped_set::load_factor_resizing<4>>>, caps_assoc, mk1<4>>(
            "StripedSet_std_set_hashmod4_striping_lf4", "form=container;family=StripedSet;bucket=std::set;order=less;hash=mod4(colliding);mutex=striping;resize=load_factor<4>;ctor=4" );
        regs<cc::StripedSet<std::set<Item, item_less>, co::hash<hash_mix>, refinable, co::resizing_policy<cc::striped_set::no_resizing>>, caps_assoc, mk1<4>>(
            "StripedSet_std_set_hashmix_refinable_noresize", "form=container;family=StripedSet;bucket=std::set;order=less;hash=mix;mutex=refinable;resize=none;ctor=4" );
        regs<cc::StripedSet<std::unordered_set<Item, hash_mix2, item_equal>, co::hash<hash_mix>, striping>, caps_assoc, mk1<2>>(
            "StripedSet_std_unordered_set_hashmix_striping", "form=container;family=StripedSet;bucket=std::unordered_set;order=unordered(equal_to);hash=mix;mutex=striping;resize=default;ctor=2" );
        regs<cc::StripedSet<boost::container::list<Item>, co::hash<hash_mix>, co::less<item_less>, refinable>, caps_seq, mk1<2>>(
            "StripedSet_boost_list_less_hashmix_refinable", "form=container;family=StripedSet;bucket=boost::container::list;order=less;hash=mix;mutex=refinable;ctor=2" );
        regs<cc::StripedSet<boost::container::slist<Item>, co::hash<hash_mod<4>>, co::compare<item_cmp>, striping>, caps_seq, mk1<4>>(
            "StripedSet_boost_slist_cmp_hashmod4_striping", "form=container;family=StripedSet;bucket=boost::container::slist;order=compare;hash=mod4(colliding);mutex=striping;ctor=4" );
        regs<cc::StripedSet<boost::container::vector<Item>, co::hash<hash_mix>, co::less<item_less>, striping>, caps_seq, mk1<2>>(
            "StripedSet_boost_vector_less_hashmix_striping", "form=container;family=StripedSet;bucket=boost::container::vector;order=less;hash=mix;mutex=striping;ctor=2" );
        regs<cc::StripedSet<boost::container::stable_vector<Item>, co::hash<hash_mix>, co::compare<item_cmp>, refinable>, caps_seq, mk1<2>>(
            "StripedSet_boost_stable_vector_cmp_hashmix_refinable", "form=container;family=StripedSet;bucket=boost::container::stable_vector;order=compare;hash=mix;mutex=refinable;ctor=2" );
        regs<cc::StripedSet<boost::container::set<Item, item_less>, co::hash<hash_mix>, striping>, caps_assoc, mk1<2>>(
            "StripedSet_boost_set_hashmix_striping", "form=container;family=StripedSet;bucket=boost::container::set;order=less;hash=mix;mutex=striping;ctor=2" );
        regs<cc::StripedSet<boost::container::flat_set<Item, item_less>, co::hash<hash_mod<4>>, refinable>, caps_assoc, mk1<4>>(
            "StripedSet_boost_flat_set_hashmod4_refinable", "form=container;family=StripedSet;bucket=boost::container::flat_set;order=less;hash=mod4(colliding);mutex=refinable;ctor=4" );
        regs<cc::StripedSet<boost::unordered_set<Item, hash_mix2, item_equal>, co::hash<hash_mix>, striping>, caps_assoc, mk1<2>>(
            "StripedSet_boost_unordered_set_hashmix_striping", "form=container;family=StripedSet;bucket=boost::unordered_set;order=unordered(equal_to);hash=mix;mutex=striping;ctor=2" );

        // ---- maps
        typedef std::pair<const int, int> pr;
        regm<cc::StripedMap<std::list<pr>, co::hash<hash_mod<4>>, co::less<item_less>, striping>, caps_seq, mk1<4>>(
            "StripedMap_std_list_less_hashmod4_striping", "form=container-map;family=StripedMap;bucket=std::list;order=less;hash=mod4(colliding);mutex=striping;ctor=4" );
        regm<cc::StripedMap<std::map<int, int>, co::hash<hash_mix>, refinable, co::resizing_policy<cc::striped_set::load_factor_resizing<2>>>, caps_assoc, mk1<2>>(
            "StripedMap_std_map_hashmix_refinable_lf2", "form=container-map;family=StripedMap;bucket=std::map;order=less;hash=mix;mutex=refinable;resize=load_factor<2>;ctor=2" );
        regm<cc::StripedMap<std::unordered_map<int, int>, co::hash<hash_mix>, striping>, caps_assoc, mk1<2>>(
            "StripedMap_std_unordered_map_hashmix_striping", "form=container-map;family=StripedMap;bucket=std::unordered_map;order=unordered;hash=mix;mutex=striping;ctor=2" );
        regm<cc::StripedMap<boost::container::list<pr>, co::hash<hash_mix>, co::compare<item_cmp>, refinable>, caps_seq, mk1<2>>(
            "StripedMap_boost_list_cmp_hashmix_refinable", "form=container-map;family=StripedMap;bucket=boost::container::list;order=compare;hash=mix;mutex=refinable;ctor=2" );
        regm<cc::StripedMap<boost::container::slist<pr>, co::hash<hash_mod<4>>, co::less<item_less>, striping>, caps_seq, mk1<4>>(
            "StripedMap_boost_slist_less_hashmod4_striping", "form=container-map;family=StripedMap;bucket=boost::container::slist;order=less;hash=mod4(colliding);mutex=striping;ctor=4" );
        regm<cc::StripedMap<boost::container::map<int, int>, co::hash<hash_mix>, striping, co::resizing_policy<cc::striped_set::single_bucket_size_threshold<4>>>, caps_assoc, mk1<2>>(
            "StripedMap_boost_map_hashmix_striping_sbt4", "form=container-map;family=StripedMap;bucket=boost::container::map;order=less;hash=mix;mutex=striping;resize=single_bucket_size_threshold<4>;ctor=2" );
        regm<cc::StripedMap<boost::container::flat_map<int, int>, co::hash<hash_mix>, refinable>, caps_assoc, mk1<2>>(
            "StripedMap_boost_flat_map_hashmix_refinable", "form=container-map;family=StripedMap;bucket=boost::container::flat_map;order=less;hash=mix;mutex=refinable;ctor=2" );
        regm<cc::StripedMap<boost::unordered_map<int, int>, co::hash<hash_mod<4>>, striping>, caps_assoc, mk1<4>>(
            "StripedMap_boost_unordered_map_hashmod4_striping", "form=container-map;family=StripedMap;bucket=boost::unordered_map;order=unordered;hash=mod4(colliding);mutex=striping;ctor=4" );
    }
}
C20_MAIN( register_all )
