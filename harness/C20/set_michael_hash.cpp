// C20: cds::container::MichaelHashSet over MichaelList / LazyList / IterableList buckets
#include "c20_keyed.h"
#include <cds/container/michael_list_hp.h>
#include <cds/container/michael_list_dhp.h>
#include <cds/container/michael_list_rcu.h>
#include <cds/container/michael_list_nogc.h>
#include <cds/container/lazy_list_hp.h>
#include <cds/container/lazy_list_dhp.h>
#include <cds/container/lazy_list_rcu.h>
#include <cds/container/lazy_list_nogc.h>
#include <cds/container/iterable_list_hp.h>
#include <cds/container/iterable_list_dhp.h>
#include <cds/container/michael_set.h>
#include <cds/container/michael_set_rcu.h>
#include <cds/container/michael_set_nogc.h>

using namespace c20;
namespace cc = cds::container;
namespace co = cds::opt;

namespace {
    typedef cc::michael_list::make_traits<co::less<item_less>>::type ml_less;
    typedef cc::michael_list::make_traits<co::compare<item_cmp>>::type ml_cmp;
    typedef cc::lazy_list::make_traits<co::less<item_less>>::type ll_less;
    typedef cc::lazy_list::make_traits<co::compare<item_cmp>>::type ll_cmp;
    typedef cc::iterable_list::make_traits<co::less<item_less>>::type il_less;
    typedef cc::iterable_list::make_traits<co::compare<item_cmp>, co::stat<cc::iterable_list::stat<>>>::type il_cmp_stat;

    template <typename H> struct st : cc::michael_set::traits { typedef H hash; };                       // default: real item counter
    template <typename H> struct st_nocnt : cc::michael_set::traits { typedef H hash; typedef cds::atomicity::empty_item_counter item_counter; };
    template <typename H> struct st_cf : cc::michael_set::traits { typedef H hash; typedef cds::atomicity::cache_friendly_item_counter item_counter; };

    typedef caps<1, true, true, false, true> caps_gc;
    typedef caps<2, true, true, false, true> caps_it;
    typedef caps<3, false, true, false, true, false, false, true, false> caps_nogc;

    template <typename Env, typename List, typename STr, typename Caps, typename Mk>
    void reg( char const* name, bool counted, bool replace, char const* traits )
    {
        typedef cc::MichaelHashSet<typename Env::gc, List, STr> S;
        // MichaelHashSet::empty() is size() == 0
        add_variant<Env, SetAdapter<S, Env, Caps, Mk>>( name, 'K', kcfg( counted, true, replace, 0 ), traits );
    }
#define ML( Env, tr ) cc::MichaelList<Env::gc, Item, tr>
#define LL( Env, tr ) cc::LazyList<Env::gc, Item, tr>
#define IL( Env, tr ) cc::IterableList<Env::gc, Item, tr>

    void register_all()
    {
        reg<EnvHP, ML( EnvHP, ml_less ), st<hash_mod<4>>, caps_gc, mk2<4, 1>>( "MichaelHashSet_Michael_HP_less_hashmod4_4x1", true, false,
            "form=container;family=MichaelHashSet;bucket=MichaelList;order=less;hash=mod4(colliding);counter=on;ctor=4,1" );
        reg<EnvHP, ML( EnvHP, ml_cmp ), st<hash_mix>, caps_gc, mk2<64, 2>>( "MichaelHashSet_Michael_HP_cmp_hashmix_64x2", true, false,
            "form=container;family=MichaelHashSet;bucket=MichaelList;order=compare;hash=mix;counter=on;ctor=64,2" );
        reg<EnvHP, ML( EnvHP, ml_cmp ), st_nocnt<hash_mod<4>>, caps_gc, mk2<16, 4>>( "MichaelHashSet_Michael_HP_cmp_nocnt", false, false,
            "form=container;family=MichaelHashSet;bucket=MichaelList;order=compare;hash=mod4(colliding);counter=off;ctor=16,4" );
        reg<EnvDHP, ML( EnvDHP, ml_less ), st_cf<hash_mod<7>>, caps_gc, mk2<8, 1>>( "MichaelHashSet_Michael_DHP_less_hashmod7_cfcnt", true, false,
            "form=container;family=MichaelHashSet;bucket=MichaelList;order=less;hash=mod7(colliding);counter=cache_friendly;ctor=8,1" );
        reg<EnvGPB, ML( EnvGPB, ml_cmp ), st<hash_mod<4>>, caps_gc, mk2<4, 1>>( "MichaelHashSet_Michael_RCU_GPB_cmp_hashmod4", true, false,
            "form=container;family=MichaelHashSet;bucket=MichaelList;order=compare;hash=mod4(colliding);counter=on;ctor=4,1" );
        reg<EnvGPI, ML( EnvGPI, ml_less ), st<hash_mix>, caps_gc, mk2<32, 1>>( "MichaelHashSet_Michael_RCU_GPI_less_hashmix", true, false,
            "form=container;family=MichaelHashSet;bucket=MichaelList;order=less;hash=mix;counter=on;ctor=32,1" );
        reg<EnvNogc, ML( EnvNogc, ml_cmp ), st<hash_mod<4>>, caps_nogc, mk2<4, 1>>( "MichaelHashSet_Michael_nogc_cmp_hashmod4", true, false,
            "form=container;family=MichaelHashSet;bucket=MichaelList;order=compare;hash=mod4(colliding);counter=on;ctor=4,1" );

        reg<EnvHP, LL( EnvHP, ll_cmp ), st<hash_mod<4>>, caps_gc, mk2<4, 1>>( "MichaelHashSet_Lazy_HP_cmp_hashmod4_4x1", true, false,
            "form=container;family=MichaelHashSet;bucket=LazyList;order=compare;hash=mod4(colliding);counter=on;ctor=4,1" );
        reg<EnvDHP, LL( EnvDHP, ll_less ), st<hash_mix>, caps_gc, mk2<64, 4>>( "MichaelHashSet_Lazy_DHP_less_hashmix_64x4", true, false,
            "form=container;family=MichaelHashSet;bucket=LazyList;order=less;hash=mix;counter=on;ctor=64,4" );
        reg<EnvGPB, LL( EnvGPB, ll_less ), st<hash_mod<4>>, caps_gc, mk2<4, 1>>( "MichaelHashSet_Lazy_RCU_GPB_less_hashmod4", true, false,
            "form=container;family=MichaelHashSet;bucket=LazyList;order=less;hash=mod4(colliding);counter=on;ctor=4,1" );
        reg<EnvGPT, LL( EnvGPT, ll_cmp ), st_nocnt<hash_mix>, caps_gc, mk2<16, 1>>( "MichaelHashSet_Lazy_RCU_GPT_cmp_nocnt", false, false,
            "form=container;family=MichaelHashSet;bucket=LazyList;order=compare;hash=mix;counter=off;ctor=16,1" );
        reg<EnvNogc, LL( EnvNogc, ll_less ), st<hash_mod<4>>, caps_nogc, mk2<4, 1>>( "MichaelHashSet_Lazy_nogc_less_hashmod4", true, false,
            "form=container;family=MichaelHashSet;bucket=LazyList;order=less;hash=mod4(colliding);counter=on;ctor=4,1" );

        reg<EnvHP, IL( EnvHP, il_less ), st<hash_mod<4>>, caps_it, mk2<4, 1>>( "MichaelHashSet_Iterable_HP_less_hashmod4_4x1", true, true,
            "form=container;family=MichaelHashSet;bucket=IterableList;order=less;hash=mod4(colliding);counter=on;ctor=4,1" );
        reg<EnvDHP, IL( EnvDHP, il_cmp_stat ), st<hash_mix>, caps_it, mk2<64, 2>>( "MichaelHashSet_Iterable_DHP_cmp_stat_hashmix", true, true,
            "form=container;family=MichaelHashSet;bucket=IterableList;order=compare;hash=mix;counter=on;stat=on;ctor=64,2" );
    }
}
C20_MAIN( register_all )
