// C20: cds::container::EllenBinTreeSet and EllenBinTreeMap (ordered: extract_min / extract_max; no iterators)
#include "c20_keyed.h"
#include <cds/container/ellen_bintree_set_hp.h>
#include <cds/container/ellen_bintree_set_dhp.h>
#include <cds/container/ellen_bintree_set_rcu.h>
#include <cds/container/ellen_bintree_map_hp.h>
#include <cds/container/ellen_bintree_map_dhp.h>
#include <cds/container/ellen_bintree_map_rcu.h>

using namespace c20;
namespace cc = cds::container;
namespace co = cds::opt;

namespace {
    typedef cds::atomicity::item_counter cnt;
    struct kx { void operator()( int& key, Item const& v ) const { key = v.key; } };
    struct s_less : cc::ellen_bintree::traits { typedef kx key_extractor; typedef item_less less; };
    struct s_cmp_cnt : cc::ellen_bintree::traits { typedef kx key_extractor; typedef item_cmp compare; typedef cnt item_counter; };
    struct s_mix_stat : cc::ellen_bintree::traits { typedef kx key_extractor; typedef item_less less; typedef item_cmp compare; typedef cnt item_counter; typedef cc::ellen_bintree::stat<> stat; };
    struct s_sc : cc::ellen_bintree::traits { typedef kx key_extractor; typedef item_cmp compare; typedef cds::atomicity::cache_friendly_item_counter item_counter;
        typedef co::v::sequential_consistent memory_model; typedef cds::backoff::yield back_off; };
    struct m_less : cc::ellen_bintree::traits { typedef item_less less; };
    struct m_cmp_cnt : cc::ellen_bintree::traits { typedef item_cmp compare; typedef cnt item_counter; };
    struct m_mix_stat : cc::ellen_bintree::traits { typedef item_less less; typedef item_cmp compare; typedef cnt item_counter; typedef cc::ellen_bintree::stat<> stat; };

    //      upd ptr   with  ord   iter
    typedef caps<1, true, true, true, false> caps_e;

    template <typename Env, typename Tr> void regs( char const* name, bool counted, char const* traits )
    {
        typedef cc::EllenBinTreeSet<typename Env::gc, int, Item, Tr> S;
        add_variant<Env, SetAdapter<S, Env, caps_e>>( name, 'K', kcfg( counted, false, false, 0 ), traits );
    }
    template <typename Env, typename Tr> void regm( char const* name, bool counted, char const* traits )
    {
        typedef cc::EllenBinTreeMap<typename Env::gc, int, int, Tr> M;
        add_variant<Env, MapAdapter<M, Env, caps_e>>( name, 'K', kcfg( counted, false, false, 0 ), traits );
    }

    void register_all()
    {
        regs<EnvHP, s_less>( "EllenBinTreeSet_HP_less", false, "form=container;family=EllenBinTreeSet;order=less;counter=off" );
        regs<EnvHP, s_cmp_cnt>( "EllenBinTreeSet_HP_cmp_cnt", true, "form=container;family=EllenBinTreeSet;order=compare;counter=on" );
        regs<EnvHP, s_mix_stat>( "EllenBinTreeSet_HP_cmpmix_cnt_stat", true, "form=container;family=EllenBinTreeSet;order=compare+less;counter=on;stat=on" );
        regs<EnvDHP, s_cmp_cnt>( "EllenBinTreeSet_DHP_cmp_cnt", true, "form=container;family=EllenBinTreeSet;order=compare;counter=on" );
        regs<EnvDHP, s_sc>( "EllenBinTreeSet_DHP_cmp_cfcnt_seqcst", true, "form=container;family=EllenBinTreeSet;order=compare;counter=cache_friendly;memory_model=seq_cst;backoff=yield" );
        regs<EnvGPB, s_cmp_cnt>( "EllenBinTreeSet_RCU_GPB_cmp_cnt", true, "form=container;family=EllenBinTreeSet;order=compare;counter=on" );
        regs<EnvGPI, s_less>( "EllenBinTreeSet_RCU_GPI_less", false, "form=container;family=EllenBinTreeSet;order=less;counter=off" );
        regs<EnvGPT, s_mix_stat>( "EllenBinTreeSet_RCU_GPT_cmpmix_cnt_stat", true, "form=container;family=EllenBinTreeSet;order=compare+less;counter=on;stat=on" );

        regm<EnvHP, m_less>( "EllenBinTreeMap_HP_less", false, "form=container-map;family=EllenBinTreeMap;order=less;counter=off" );
        regm<EnvHP, m_cmp_cnt>( "EllenBinTreeMap_HP_cmp_cnt", true, "form=container-map;family=EllenBinTreeMap;order=compare;counter=on" );
        regm<EnvDHP, m_mix_stat>( "EllenBinTreeMap_DHP_cmpmix_cnt_stat", true, "form=container-map;family=EllenBinTreeMap;order=compare+less;counter=on;stat=on" );
        regm<EnvGPB, m_cmp_cnt>( "EllenBinTreeMap_RCU_GPB_cmp_cnt", true, "form=container-map;family=EllenBinTreeMap;order=compare;counter=on" );
        regm<EnvGPI, m_less>( "EllenBinTreeMap_RCU_GPI_less", false, "form=container-map;family=EllenBinTreeMap;order=less;counter=off" );
    }
}
C20_MAIN( register_all )
