// Property C20 - adapters from the canonical queue operations (ocaml/c20_main.ml) to the queue-like containers:
// FIFO queues, bounded queues, ring buffer, segmented queue, stacks, deque, priority queues (container forms of int).
#ifndef VERIF_C20_QUEUE_H
#define VERIF_C20_QUEUE_H
#include "c20.h"

namespace c20 {

    template <bool B> struct bool_c {};
    inline std::string v2s( bool ok, int x ) { return ok ? "v" + std::to_string( x ) : std::string( "none" ); }

    // specification configuration "kind,cap,counted,empty_by_size,disp"
    inline std::string qcfg( int kind, long cap, bool counted, bool ebs, int disp )
    {
        return std::to_string( kind ) + "," + std::to_string( cap ) + "," + ( counted ? "1," : "0," ) + ( ebs ? "1," : "0," ) + std::to_string( disp );
    }

    // construction policies: cfg = {kind, cap, counted, ebs, disp} for 'Q', {quasi factor} for 'S'
    struct qmk0 { template <typename C> static C* make( Seq const& ) { return new C; } };
    struct qmk_cap { template <typename C> static C* make( Seq const& s ) { return new C( (size_t) s.cfg.at( 1 )); } };
    struct qmk_cap_plus1 { template <typename C> static C* make( Seq const& s ) { return new C( (size_t) s.cfg.at( 1 ) + 1 ); } };    // MSPriorityQueue: slot 0 of the heap is unused
    struct qmk_quasi { template <typename C> static C* make( Seq const& s ) { return new C( (size_t) s.cfg.at( 0 )); } };
    template <size_t Q> struct qmk_fixed { template <typename C> static C* make( Seq const& ) { return new C( Q ); } };

    template <typename C, gc_kind K> struct qhp { static size_t get() { return 0; } };
    template <typename C> struct qhp<C, GK_HP> { static size_t get() { return C::c_nHazardPtrCount + 2; } };

    // ---- queues with the full API: push/enqueue/emplace/push_with, pop/dequeue/pop_with -----------------------
    template <typename Q, typename Env, typename Mk = qmk0, bool HpCount = true>
    struct QueueAdapter
    {
        std::unique_ptr<Q> q;
        explicit QueueAdapter( Seq const& s ): q( Mk::template make<Q>( s )) {}
        static std::string ops() { return "push,enq,emp,pushw,pop,deq,popw,size,empty,clear"; }
        static size_t hp_need() { return qhp<Q, HpCount ? Env::kind : GK_NONE>::get(); }
        void quiesce() { Env::quiesce(); }
        void destroy() { q.reset(); }
        bool exec( Op const& op, QOut& o )
        {
            std::string const& n = op.name;
            int v = (int) op.a, x = -1;
            if ( n == "push" ) o.res = b2s( q->push( v ));
            else if ( n == "enq" ) o.res = b2s( q->enqueue( v ));
            else if ( n == "emp" ) o.res = b2s( q->emplace( v ));
            else if ( n == "pushw" ) o.res = b2s( q->push_with( [v]( int& dest ) { dest = v; } ));
            else if ( n == "pop" ) { bool ok = q->pop( x ); o.res = v2s( ok, x ); }
            else if ( n == "deq" ) { bool ok = q->dequeue( x ); o.res = v2s( ok, x ); }
            else if ( n == "popw" ) { bool ok = q->pop_with( [&x]( int& src ) { x = src; } ); o.res = v2s( ok, x ); }
            else if ( n == "size" ) o.res = n2s( q->size());
            else if ( n == "empty" ) o.res = b2s( q->empty());
            else if ( n == "clear" ) { q->clear(); o.res = "u"; }
            else return false;
            return true;
        }
    };

    // ---- flat-combining queue: push/enqueue, pop/dequeue ------------------------------------------------------
    template <typename Q>
    struct FCQueueAdapter
    {
        std::unique_ptr<Q> q;
        explicit FCQueueAdapter( Seq const& ): q( new Q ) {}
        static std::string ops() { return "push,enq,pop,deq,size,empty,clear"; }
        static size_t hp_need() { return 0; }
        void quiesce() {}
        void destroy() { q.reset(); }
        bool exec( Op const& op, QOut& o )
        {
            std::string const& n = op.name;
            int v = (int) op.a, x = -1;
            if ( n == "push" ) o.res = b2s( q->push( v ));
            else if ( n == "enq" ) o.res = b2s( q->enqueue( std::move( v )));
            else if ( n == "pop" ) { bool ok = q->pop( x ); o.res = v2s( ok, x ); }
            else if ( n == "deq" ) { bool ok = q->dequeue( x ); o.res = v2s( ok, x ); }
            else if ( n == "size" ) o.res = n2s( q->size());
            else if ( n == "empty" ) o.res = b2s( q->empty());
            else if ( n == "clear" ) { q->clear(); o.res = "u"; }
            else return false;
            return true;
        }
    };

    // ---- WeakRingBuffer<int>: also front() + pop_front() (canonical name popf) -------------------------------
    template <typename Q, typename Mk = qmk_cap>
    struct RingAdapter
    {
        std::unique_ptr<Q> q;
        explicit RingAdapter( Seq const& s ): q( Mk::template make<Q>( s )) {}
        static std::string ops() { return "push,enq,pushw,pop,deq,popw,popf,size,empty,clear"; }
        static size_t hp_need() { return 0; }
        void quiesce() {}
        void destroy() { q.reset(); }
        bool exec( Op const& op, QOut& o )
        {
            std::string const& n = op.name;
            int v = (int) op.a, x = -1;
            if ( n == "push" ) o.res = b2s( q->push( v ));
            else if ( n == "enq" ) o.res = b2s( q->enqueue( v ));
            else if ( n == "pushw" ) o.res = b2s( q->push_with( [v]( int& dest ) { dest = v; } ));
            else if ( n == "pop" ) { bool ok = q->pop( x ); o.res = v2s( ok, x ); }
            else if ( n == "deq" ) { bool ok = q->dequeue( x ); o.res = v2s( ok, x ); }
            else if ( n == "popw" ) { bool ok = q->pop_with( [&x]( int& src ) { x = src; } ); o.res = v2s( ok, x ); }
            else if ( n == "popf" ) {
                int* p = q->front();
                if ( p ) { x = *p; bool ok = q->pop_front(); o.res = ok ? v2s( true, x ) : std::string( "front-without-pop" ); }
                else o.res = q->pop_front() ? "pop-without-front" : "none";
            }
            else if ( n == "size" ) o.res = n2s( q->size());
            else if ( n == "empty" ) o.res = b2s( q->empty());
            else if ( n == "clear" ) { q->clear(); o.res = "u"; }
            else return false;
            return true;
        }
    };

    // ---- TreiberStack: push, emplace, pop, pop_with -------------------------------------------------------------
    template <typename S, typename Env, typename Mk = qmk0>
    struct StackAdapter
    {
        std::unique_ptr<S> q;
        explicit StackAdapter( Seq const& s ): q( Mk::template make<S>( s )) {}
        static std::string ops() { return "push,emp,pop,popw,size,empty,clear"; }
        static size_t hp_need() { return qhp<S, Env::kind>::get(); }
        void quiesce() { Env::quiesce(); }
        void destroy() { q.reset(); }
        bool exec( Op const& op, QOut& o )
        {
            std::string const& n = op.name;
            int v = (int) op.a, x = -1;
            if ( n == "push" ) o.res = b2s( q->push( v ));
            else if ( n == "emp" ) o.res = b2s( q->emplace( v ));
            else if ( n == "pop" ) { bool ok = q->pop( x ); o.res = v2s( ok, x ); }
            else if ( n == "popw" ) { bool ok = q->pop_with( [&x]( int& src ) { x = src; } ); o.res = v2s( ok, x ); }
            else if ( n == "size" ) o.res = n2s( q->size());
            else if ( n == "empty" ) o.res = b2s( q->empty());
            else if ( n == "clear" ) { q->clear(); o.res = "u"; }
            else return false;
            return true;
        }
    };

    // ---- FCStack / FCPriorityQueue: push, pop ---------------------------------------------------------------------
    template <typename S>
    struct FCStackAdapter
    {
        std::unique_ptr<S> q;
        explicit FCStackAdapter( Seq const& ): q( new S ) {}
        static std::string ops() { return "push,emp,pop,size,empty,clear"; }     // "emp" = push( value_type&& )
        static size_t hp_need() { return 0; }
        void quiesce() {}
        void destroy() { q.reset(); }
        bool exec( Op const& op, QOut& o )
        {
            std::string const& n = op.name;
            int v = (int) op.a, x = -1;
            if ( n == "push" ) o.res = b2s( q->push( v ));
            else if ( n == "emp" ) o.res = b2s( q->push( std::move( v )));
            else if ( n == "pop" ) { bool ok = q->pop( x ); o.res = v2s( ok, x ); }
            else if ( n == "size" ) o.res = n2s( q->size());
            else if ( n == "empty" ) o.res = b2s( q->empty());
            else if ( n == "clear" ) { q->clear(); o.res = "u"; }
            else return false;
            return true;
        }
    };

    // ---- FCDeque --------------------------------------------------------------------------------------------------
    template <typename D>
    struct FCDequeAdapter
    {
        std::unique_ptr<D> q;
        explicit FCDequeAdapter( Seq const& ): q( new D ) {}
        static std::string ops() { return "push,pushb,pushf,pop,popf,popb,size,empty,clear"; }
        static size_t hp_need() { return 0; }
        void quiesce() {}
        void destroy() { q.reset(); }
        bool exec( Op const& op, QOut& o )
        {
            std::string const& n = op.name;
            int v = (int) op.a, x = -1;
            if ( n == "push" ) o.res = b2s( q->push_back( v ));
            else if ( n == "pushb" ) o.res = b2s( q->push_back( std::move( v )));
            else if ( n == "pushf" ) o.res = b2s(( op.a & 1 ) ? q->push_front( v ) : q->push_front( std::move( v )));
            else if ( n == "pop" || n == "popf" ) { bool ok = q->pop_front( x ); o.res = v2s( ok, x ); }
            else if ( n == "popb" ) { bool ok = q->pop_back( x ); o.res = v2s( ok, x ); }
            else if ( n == "size" ) o.res = n2s( q->size());
            else if ( n == "empty" ) o.res = b2s( q->empty());
            else if ( n == "clear" ) { q->clear(); o.res = "u"; }
            else return false;
            return true;
        }
    };

    // ---- MSPriorityQueue: bounded; push, push_with, emplace, pop, pop_with, clear, clear_with ------------------------
    template <typename P, typename Mk = qmk_cap_plus1>
    struct MSPQAdapter
    {
        std::unique_ptr<P> q;
        long cap; int nclear = 0;
        explicit MSPQAdapter( Seq const& s ): q( Mk::template make<P>( s )), cap( s.cfg.at( 1 ))
        {
            if ( (long) q->capacity() != cap ) report_bad( "capacity() is " + std::to_string( q->capacity()) + ", harness expected " + std::to_string( cap ));
        }
        static std::string ops() { return "push,emp,pushw,pop,popw,size,empty,clear"; }
        static size_t hp_need() { return 0; }
        void quiesce() {}
        void destroy() { q.reset(); }
        bool exec( Op const& op, QOut& o )
        {
            std::string const& n = op.name;
            int v = (int) op.a, x = -1;
            if ( n == "push" ) o.res = b2s( q->push( v ));
            else if ( n == "emp" ) o.res = b2s( q->emplace( v ));
            else if ( n == "pushw" ) o.res = b2s( q->push_with( [v]( int& dest ) { dest = v; } ));
            else if ( n == "pop" ) { bool ok = q->pop( x ); o.res = v2s( ok, x ); }
            else if ( n == "popw" ) { bool ok = q->pop_with( [&x]( int& src ) { x = src; } ); o.res = v2s( ok, x ); }
            else if ( n == "size" ) o.res = n2s( q->size());
            else if ( n == "empty" ) o.res = b2s( q->empty());
            else if ( n == "clear" ) { if ( ++nclear & 1 ) q->clear_with( []( int& ) {} ); else q->clear(); o.res = "u"; }
            else return false;
            if ( q->full() != ( q->size() == q->capacity())) report_bad( "full() disagrees with size() == capacity()" );
            return true;
        }
    };

    // ---- intrusive queues / stacks / priority queues: push( obj& ), pop() -> obj*; counting disposer ------------------
    template <typename Node> struct QBItem : Node { int key, val; bool gone; explicit QBItem( int v ): key( v ), val( v ), gone( false ) {} };
    template <typename Node> struct QMItem { int key, val; bool gone; Node hMember; explicit QMItem( int v ): key( v ), val( v ), gone( false ) {} };
    struct QPItem { int key, val; bool gone; explicit QPItem( int v ): key( v ), val( v ), gone( false ) {} };
    struct qdisposer {
        template <typename T> void operator()( T* p ) const
        {
            ++disposed();
            if ( p->gone ) report_bad( "double dispose of item " + std::to_string( p->val ));
            p->gone = true;
        }
    };

    // Clr: 0 = clear(), 1 = clear( true ) (flat combining: dispose).  Enq: enqueue/dequeue synonyms offered
    template <typename Q, typename Env, typename Mk = qmk0, int Clr = 0, bool Enq = true, bool Deferred = false>
    struct IQueueAdapter
    {
        typedef typename Q::value_type T;
        std::unique_ptr<Q> q;
        std::vector<T*> pool;
        explicit IQueueAdapter( Seq const& s ): q( Mk::template make<Q>( s )) {}
        ~IQueueAdapter() { for ( T* p : pool ) delete p; }
        static std::string ops() { return Enq ? "push,enq,pop,deq,size,empty,clear" : "push,pop,size,empty,clear"; }
        static size_t hp_need() { return qhp<Q, Env::kind>::get(); }
        void quiesce() { Env::quiesce(); }
        void destroy() { q.reset(); }
        T* mk( int v ) { pool.push_back( new T( v )); return pool.back(); }
        bool enq( int v, bool_c<true> ) { return q->enqueue( *mk( v )); }
        bool enq( int, bool_c<false> ) { return false; }
        T* deq( bool_c<true> ) { return q->dequeue(); }
        T* deq( bool_c<false> ) { return nullptr; }
        void clr( std::integral_constant<int, 0> ) { q->clear(); }
        void clr( std::integral_constant<int, 1> ) { q->clear( true ); }
        bool exec( Op const& op, QOut& o )
        {
            std::string const& n = op.name;
            int v = (int) op.a;
            if ( n == "push" ) o.res = b2s( q->push( *mk( v )));
            else if ( n == "enq" && Enq ) o.res = b2s( enq( v, bool_c<Enq>()));
            else if ( n == "pop" ) { T* p = q->pop(); o.res = v2s( p != nullptr, p ? p->val : -1 ); if ( p && p->gone ) report_bad( "pop returned a disposed item" ); }
            else if ( n == "deq" && Enq ) { T* p = deq( bool_c<Enq>()); o.res = v2s( p != nullptr, p ? p->val : -1 ); }
            else if ( n == "size" ) o.res = n2s( q->size());
            else if ( n == "empty" ) o.res = b2s( q->empty());
            else if ( n == "clear" ) { clr( std::integral_constant<int, Clr>()); o.res = "u"; }
            else return false;
            return true;
        }
    };
    template <typename Q, typename Env, typename Mk, int Clr, bool Enq>
    struct deferred_dispose<IQueueAdapter<Q, Env, Mk, Clr, Enq, true>> { static const bool value = true; };

    // deterministic permutation generator 0,1,..,n-1 (cds::opt::permutation_generator interface): with it a
    // SegmentedQueue used by one thread is an exact FIFO
    struct identity_permutation {
        typedef int integer_type;
        explicit identity_permutation( size_t n ): n_( (int) n ), i_( 0 ) {}
        operator integer_type() const { return i_; }
        bool next() { return ++i_ < n_; }
        void reset() { i_ = 0; }
    private:
        int n_, i_;
    };
} // namespace c20
#endif
