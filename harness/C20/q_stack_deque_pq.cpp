// C20: TreiberStack (with and without elimination), FCStack, FCDeque, MSPriorityQueue, FCPriorityQueue
#include "c20_queue.h"
#include <cds/container/treiber_stack.h>
#include <cds/container/fcstack.h>
#include <cds/container/fcdeque.h>
#include <cds/container/mspriority_queue.h>
#include <cds/container/fcpriority_queue.h>
#include <boost/container/deque.hpp>
#include <boost/container/stable_vector.hpp>
#include <vector>
#include <list>
#include <deque>
#include <mutex>

using namespace c20;
namespace cc = cds::container;
namespace co = cds::opt;

namespace {
    typedef cds::atomicity::item_counter cnt;
    struct ts_dflt : cc::treiber_stack::traits {};
    struct ts_cnt_stat : cc::treiber_stack::traits { typedef cnt item_counter; typedef cc::treiber_stack::stat<> stat; };
    struct ts_elim : cc::treiber_stack::traits { static constexpr const bool enable_elimination = true; typedef cnt item_counter; };
    struct ts_elim_dyn_stat : cc::treiber_stack::traits {
        static constexpr const bool enable_elimination = true; typedef cnt item_counter; typedef cc::treiber_stack::stat<> stat;
        typedef co::v::initialized_dynamic_buffer<void*> buffer; typedef co::v::sequential_consistent memory_model;
    };
    struct fs_stat : cc::fcstack::traits { typedef cc::fcstack::stat<> stat; };
    struct fs_elim : cc::fcstack::traits { static constexpr const bool enable_elimination = true; };
    struct fd_stat : cc::fcdeque::traits { typedef cc::fcdeque::stat<> stat; };
    struct fd_elim_mutex : cc::fcdeque::traits { static constexpr const bool enable_elimination = true; typedef std::mutex lock_type; };

    struct int_cmp { int operator()( int a, int b ) const { return a < b ? -1 : ( b < a ? 1 : 0 ); } };
    struct pq_less : cc::mspriority_queue::traits { typedef std::less<int> less; };
    struct pq_cmp : cc::mspriority_queue::traits { typedef int_cmp compare; };
    struct pq_cmp_stat_mutex : cc::mspriority_queue::traits { typedef int_cmp compare; typedef cc::mspriority_queue::stat<> stat; typedef std::mutex lock_type; };
    template <size_t N> struct pq_static : cc::mspriority_queue::traits { typedef std::less<int> less; typedef co::v::initialized_static_buffer<char, N> buffer; };
    struct fp_stat : cc::fcpqueue::traits { typedef cc::fcpqueue::stat<> stat; };

    template <typename Env, typename S, typename Mk = qmk0> void regt( char const* name, bool counted, char const* traits )
    {
        add_queue<Env, StackAdapter<S, Env, Mk>>( name, 'Q', qcfg( 1, -1, counted, false, 0 ), traits );
    }
    template <typename S> void regfs( char const* name, char const* traits )
    {
        add_queue<EnvNone, FCStackAdapter<S>>( name, 'Q', qcfg( 1, -1, true, false, 0 ), traits );
    }
    template <typename D> void regfd( char const* name, char const* traits )
    {
        add_queue<EnvNone, FCDequeAdapter<D>>( name, 'Q', qcfg( 2, -1, true, false, 0 ), traits );
    }
    template <typename P, typename Mk> void regpq( char const* name, long cap, char const* traits )
    {
        // MSPriorityQueue: empty() is size() == 0, the item counter is built in
        add_queue<EnvNone, MSPQAdapter<P, Mk>>( name, 'Q', qcfg( 3, cap, true, true, 0 ), traits );
    }
    template <typename P> void regfp( char const* name, char const* traits )
    {
        add_queue<EnvNone, FCStackAdapter<P>>( name, 'Q', qcfg( 3, -1, true, false, 0 ), traits );
    }

    void register_all()
    {
        regt<EnvHP, cc::TreiberStack<cds::gc::HP, int, ts_dflt>>( "TreiberStack_HP", false, "form=container;family=TreiberStack;counter=off;elimination=off" );
        regt<EnvHP, cc::TreiberStack<cds::gc::HP, int, ts_cnt_stat>>( "TreiberStack_HP_cnt_stat", true, "form=container;family=TreiberStack;counter=on;stat=on;elimination=off" );
        regt<EnvHP, cc::TreiberStack<cds::gc::HP, int, ts_elim>>( "TreiberStack_HP_cnt_elimination", true, "form=container;family=TreiberStack;counter=on;elimination=on;buffer=static4" );
        regt<EnvDHP, cc::TreiberStack<cds::gc::DHP, int, ts_cnt_stat>>( "TreiberStack_DHP_cnt_stat", true, "form=container;family=TreiberStack;counter=on;stat=on;elimination=off" );
        regt<EnvDHP, cc::TreiberStack<cds::gc::DHP, int, ts_elim_dyn_stat>, qmk_fixed<4>>( "TreiberStack_DHP_cnt_elimination_dyn_stat_seqcst", true, "form=container;family=TreiberStack;counter=on;stat=on;elimination=on;buffer=dynamic;memory_model=seq_cst" );

        regfs<cc::FCStack<int>>( "FCStack_deque", "form=container;family=FCStack;backend=std::stack<deque>" );
        regfs<cc::FCStack<int, std::stack<int, std::vector<int>>, fs_stat>>( "FCStack_vector_stat", "form=container;family=FCStack;backend=std::stack<vector>;stat=on" );
        regfs<cc::FCStack<int, std::stack<int, std::list<int>>, fs_elim>>( "FCStack_list_elimination", "form=container;family=FCStack;backend=std::stack<list>;elimination=on" );

        regfd<cc::FCDeque<int>>( "FCDeque_std_deque", "form=container;family=FCDeque;backend=std::deque" );
        regfd<cc::FCDeque<int, std::deque<int>, fd_stat>>( "FCDeque_std_deque_stat", "form=container;family=FCDeque;backend=std::deque;stat=on" );
        regfd<cc::FCDeque<int, boost::container::deque<int>, fd_elim_mutex>>( "FCDeque_boost_deque_elimination_mutex", "form=container;family=FCDeque;backend=boost::container::deque;elimination=on;lock=std::mutex" );

        regpq<cc::MSPriorityQueue<int, pq_less>, qmk_cap_plus1>( "MSPriorityQueue_dyn_less_cap3", 3, "form=container;family=MSPriorityQueue;buffer=dynamic;order=less;capacity=3" );
        regpq<cc::MSPriorityQueue<int, pq_cmp>, qmk_cap_plus1>( "MSPriorityQueue_dyn_cmp_cap7", 7, "form=container;family=MSPriorityQueue;buffer=dynamic;order=compare;capacity=7" );
        regpq<cc::MSPriorityQueue<int, pq_cmp_stat_mutex>, qmk_cap_plus1>( "MSPriorityQueue_dyn_cmp_stat_mutex_cap15", 15, "form=container;family=MSPriorityQueue;buffer=dynamic;order=compare;capacity=15;stat=on;lock=std::mutex" );
        regpq<cc::MSPriorityQueue<int, pq_less>, qmk_cap_plus1>( "MSPriorityQueue_dyn_less_cap255", 255, "form=container;family=MSPriorityQueue;buffer=dynamic;order=less;capacity=255" );
        regpq<cc::MSPriorityQueue<int, pq_static<8>>, qmk_cap_plus1>( "MSPriorityQueue_static8_less_cap7", 7, "form=container;family=MSPriorityQueue;buffer=static;order=less;capacity=7" );

        regfp<cc::FCPriorityQueue<int>>( "FCPriorityQueue_vector", "form=container;family=FCPriorityQueue;backend=std::priority_queue<vector>" );
        regfp<cc::FCPriorityQueue<int, std::priority_queue<int, std::deque<int>>, fp_stat>>( "FCPriorityQueue_deque_stat", "form=container;family=FCPriorityQueue;backend=std::priority_queue<deque>;stat=on" );
        regfp<cc::FCPriorityQueue<int, std::priority_queue<int, boost::container::stable_vector<int>>>>( "FCPriorityQueue_boost_stable_vector", "form=container;family=FCPriorityQueue;backend=std::priority_queue<boost::stable_vector>" );
    }
}
C20_MAIN( register_all )
