// C20: cds::container::MichaelList used as an ordered set, every reclamation scheme
#include "c20_keyed.h"
#include <cds/container/michael_list_hp.h>
#include <cds/container/michael_list_dhp.h>
#include <cds/container/michael_list_rcu.h>
#include <cds/container/michael_list_nogc.h>

using namespace c20;
namespace cc = cds::container;

namespace {
    struct t_less : cc::michael_list::traits { typedef item_less less; };
    struct t_cmp : cc::michael_list::traits { typedef item_cmp compare; };
    struct t_cmp_cnt : cc::michael_list::traits { typedef item_cmp compare; typedef cds::atomicity::item_counter item_counter; };
    struct t_less_cnt_stat : cc::michael_list::traits {
        typedef item_less less; typedef cds::atomicity::item_counter item_counter; typedef cc::michael_list::stat<> stat;
    };
    struct t_cmpmix_cfcnt_sc : cc::michael_list::traits {
        typedef item_less less; typedef item_cmp compare; typedef cds::atomicity::cache_friendly_item_counter item_counter;
        typedef cds::opt::v::sequential_consistent memory_model; typedef cds::backoff::pause back_off;
    };

    typedef caps<1, true, true, false, true> caps_gc;
    typedef caps<3, false, true, false, true, false, false, true, false> caps_nogc;

    template <typename Env, typename Tr> void reg( char const* name, bool counted, char const* traits )
    {
        typedef cc::MichaelList<typename Env::gc, Item, Tr> L;
        add_variant<Env, SetAdapter<L, Env, caps_gc>>( name, 'K', kcfg( counted, false, false, 0 ), traits );
    }
    template <typename Tr> void reg_nogc( char const* name, bool counted, char const* traits )
    {
        typedef cc::MichaelList<cds::gc::nogc, Item, Tr> L;
        add_variant<EnvNogc, SetAdapter<L, EnvNogc, caps_nogc>>( name, 'K', kcfg( counted, false, false, 0 ), traits );
    }

    void register_all()
    {
        reg<EnvHP, t_less>( "MichaelList_HP_less", false, "form=container;family=MichaelList;order=less;counter=off" );
        reg<EnvHP, t_cmp_cnt>( "MichaelList_HP_cmp_cnt", true, "form=container;family=MichaelList;order=compare;counter=on" );
        reg<EnvHP, t_less_cnt_stat>( "MichaelList_HP_less_cnt_stat", true, "form=container;family=MichaelList;order=less;counter=on;stat=on" );
        reg<EnvHP, t_cmpmix_cfcnt_sc>( "MichaelList_HP_cmpmix_cfcnt_seqcst", true, "form=container;family=MichaelList;order=compare+less;counter=cache_friendly;memory_model=seq_cst;backoff=pause" );
        reg<EnvDHP, t_cmp>( "MichaelList_DHP_cmp", false, "form=container;family=MichaelList;order=compare;counter=off" );
        reg<EnvDHP, t_less_cnt_stat>( "MichaelList_DHP_less_cnt_stat", true, "form=container;family=MichaelList;order=less;counter=on;stat=on" );
        reg<EnvGPB, t_cmp_cnt>( "MichaelList_RCU_GPB_cmp_cnt", true, "form=container;family=MichaelList;order=compare;counter=on" );
        reg<EnvGPI, t_less>( "MichaelList_RCU_GPI_less", false, "form=container;family=MichaelList;order=less;counter=off" );
        reg<EnvGPT, t_less_cnt_stat>( "MichaelList_RCU_GPT_less_cnt_stat", true, "form=container;family=MichaelList;order=less;counter=on;stat=on" );
        reg_nogc<t_cmp_cnt>( "MichaelList_nogc_cmp_cnt", true, "form=container;family=MichaelList;order=compare;counter=on" );
        reg_nogc<t_less>( "MichaelList_nogc_less", false, "form=container;family=MichaelList;order=less;counter=off" );
    }
}
C20_MAIN( register_all )
