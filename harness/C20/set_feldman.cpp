// C20: cds::container::FeldmanHashSet (the hash IS the key: injective by construction; small head/array bits make
// many keys share slots so that array nodes get expanded)
#include "c20_keyed.h"
#include <cds/container/feldman_hashset_hp.h>
#include <cds/container/feldman_hashset_dhp.h>
#include <cds/container/feldman_hashset_rcu.h>

using namespace c20;
namespace cc = cds::container;
namespace co = cds::opt;

namespace {
    struct get_hash { int const& operator()( Item const& i ) const { return i.key; } };
    struct int_cmp { int operator()( int a, int b ) const { return a < b ? -1 : ( b < a ? 1 : 0 ); } };

    struct t_dflt : cc::feldman_hashset::traits { typedef get_hash hash_accessor; };                 // bitwise compare of the hash
    struct t_cmp : cc::feldman_hashset::traits { typedef get_hash hash_accessor; typedef int_cmp compare; };
    struct t_less : cc::feldman_hashset::traits { typedef get_hash hash_accessor; typedef std::less<int> less; };
    struct t_stat : cc::feldman_hashset::traits {
        typedef get_hash hash_accessor; typedef int_cmp compare; typedef cc::feldman_hashset::stat<> stat;
        typedef cds::atomicity::cache_friendly_item_counter item_counter; typedef cds::backoff::yield back_off;
    };
    struct t_nocnt : cc::feldman_hashset::traits { typedef get_hash hash_accessor; typedef std::less<int> less; typedef cds::atomicity::empty_item_counter item_counter; };
    struct t_sc : cc::feldman_hashset::traits { typedef get_hash hash_accessor; typedef int_cmp compare; typedef co::v::sequential_consistent memory_model; };

    //      upd ptr   with   ord    iter  erase find1 emplace findf
    typedef caps<4, true, false, false, true, true, true, true, true> caps_f;

    template <typename Env, typename Tr, typename Mk>
    void reg( char const* name, bool counted, char const* traits )
    {
        typedef cc::FeldmanHashSet<typename Env::gc, Item, Tr> S;
        // FeldmanHashSet::empty() is size() == 0; update() replaces the item
        add_variant<Env, SetAdapter<S, Env, caps_f, Mk>>( name, 'K', kcfg( counted, true, true, 0 ), traits );
    }

    void register_all()
    {
        reg<EnvHP, t_dflt, mk0>( "FeldmanHashSet_HP_bitwise_default", true, "form=container;family=FeldmanHashSet;order=bitwise;counter=on;ctor=default(8,4)" );
        reg<EnvHP, t_cmp, mk2<2, 2>>( "FeldmanHashSet_HP_cmp_2x2", true, "form=container;family=FeldmanHashSet;order=compare;counter=on;ctor=head2,array2" );
        reg<EnvHP, t_less, mk2<4, 1>>( "FeldmanHashSet_HP_less_4x1", true, "form=container;family=FeldmanHashSet;order=less;counter=on;ctor=head4,array1" );
        reg<EnvHP, t_stat, mk2<3, 3>>( "FeldmanHashSet_HP_cmp_stat_cfcnt_3x3", true, "form=container;family=FeldmanHashSet;order=compare;counter=cache_friendly;stat=on;backoff=yield;ctor=head3,array3" );
        reg<EnvHP, t_nocnt, mk2<4, 2>>( "FeldmanHashSet_HP_less_nocnt", false, "form=container;family=FeldmanHashSet;order=less;counter=off;ctor=head4,array2" );
        reg<EnvDHP, t_cmp, mk2<4, 2>>( "FeldmanHashSet_DHP_cmp_4x2", true, "form=container;family=FeldmanHashSet;order=compare;counter=on;ctor=head4,array2" );
        reg<EnvDHP, t_sc, mk2<2, 4>>( "FeldmanHashSet_DHP_cmp_seqcst_2x4", true, "form=container;family=FeldmanHashSet;order=compare;counter=on;memory_model=seq_cst;ctor=head2,array4" );
        reg<EnvGPB, t_cmp, mk2<2, 2>>( "FeldmanHashSet_RCU_GPB_cmp_2x2", true, "form=container;family=FeldmanHashSet;order=compare;counter=on;ctor=head2,array2" );
        reg<EnvGPI, t_less, mk2<4, 4>>( "FeldmanHashSet_RCU_GPI_less_4x4", true, "form=container;family=FeldmanHashSet;order=less;counter=on;ctor=head4,array4" );
        reg<EnvGPT, t_stat, mk2<3, 2>>( "FeldmanHashSet_RCU_GPT_cmp_stat_3x2", true, "form=container;family=FeldmanHashSet;order=compare;counter=cache_friendly;stat=on;ctor=head3,array2" );
    }
}
C20_MAIN( register_all )
