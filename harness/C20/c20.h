// Property C20 - single-threaded API behaviour of every container variant against the extracted Coq
// specification LV.Spec.ApiSpec.  Framework shared by every translation unit of harness/C20.
//
//   exe --list                         one line per variant:  <name> <K|Q|S> <cfg ints,comma separated> <ops,comma separated> <traits>
//   exe <variant> <sequence file>      runs every sequence of the file on a fresh container of that variant and
//                                      prints the canonical output lines documented in ocaml/c20_main.ml
//   environment C20_HP="<extra hazard ptrs>,<max threads>,<max retired>,<scan 0 classic|1 inplace>"  HP singleton parameters
//               (hazard pointer count = what the container requires + what the harness holds + extra)
//               C20_DHP="<initial pool size>"
//
// Sequence file: one sequence per line, "<id> <K|Q|S> <cfg ints> | op op ...", see ocaml/c20_main.ml.
// A harness variant ignores the cfg part except for run-time parameters (Q: capacity, S: quasi factor).
#ifndef VERIF_C20_H
#define VERIF_C20_H

#include <cstring>
#include <cstdio>
#include <cstdlib>
#include <algorithm>
#include <fstream>
#include <functional>
#include <iostream>
#include <map>
#include <memory>
#include <sstream>
#include <string>
#include <type_traits>
#include <vector>

#include <cds/init.h>
#include <cds/gc/hp.h>
#include <cds/gc/dhp.h>
#include <cds/gc/nogc.h>
#include <cds/urcu/general_buffered.h>
#include <cds/urcu/general_instant.h>
#include <cds/urcu/general_threaded.h>
#include <cds/urcu/signal_buffered.h>
#include <cds/threading/model.h>

namespace c20 {

    // ------------------------------------------------------------------------------------------
    // sequences

    struct Op { std::string name; long a, b, c; int argc; };
    struct Seq { std::string id; char kind; std::vector<long> cfg; std::vector<Op> ops; };

    inline bool read_seq( std::istream& in, Seq& s )
    {
        std::string line;
        while ( std::getline( in, line )) {
            std::istringstream ss( line );
            std::string id, kind, tok;
            if ( !( ss >> id >> kind )) continue;
            s = Seq(); s.id = id; s.kind = kind[0];
            bool ops = false;
            while ( ss >> tok ) {
                if ( tok == "|" ) { ops = true; continue; }
                if ( !ops ) { s.cfg.push_back( std::atol( tok.c_str())); continue; }
                Op o; o.a = o.b = o.c = 0; o.argc = 0;
                size_t p = tok.find( ':' );
                o.name = tok.substr( 0, p );
                long* dst[3] = { &o.a, &o.b, &o.c };
                while ( p != std::string::npos && o.argc < 3 ) {
                    size_t q = tok.find( ':', p + 1 );
                    *dst[o.argc++] = std::atol( tok.substr( p + 1, q == std::string::npos ? q : q - p - 1 ).c_str());
                    p = q;
                }
                s.ops.push_back( o );
            }
            return true;
        }
        return false;
    }

    // ------------------------------------------------------------------------------------------
    // disposer accounting (harness-side monitor: a double disposal or a disposal of a linked/foreign object
    // prints BAD, which never matches the specification)

    inline int& disposed() { static int n = 0; return n; }
    inline std::vector<std::string>& bad() { static std::vector<std::string> v; return v; }
    inline void report_bad( std::string const& s ) { bad().push_back( s ); }

    inline std::string fmt_item( int k, int v )
    {
        char buf[64]; std::snprintf( buf, sizeof buf, "(%d,%d)", k, v ); return buf;
    }

    // ------------------------------------------------------------------------------------------
    // value types of the container (non-intrusive) forms

    struct Item {
        int key; int val;
        Item(): key( 0 ), val( 0 ) {}
        explicit Item( int k ): key( k ), val( 0 ) {}
        Item( int k, int v ): key( k ), val( v ) {}
    };
    struct KeyRef { int key; explicit KeyRef( int k ): key( k ) {} };   // "other item" for the *_with( key, less ) forms

    template <typename T> inline int key_of( T const& i ) { return i.key; }      // Item, KeyRef, intrusive items
    inline int key_of( int k ) { return k; }

    struct item_less {
        template <typename A, typename B> bool operator()( A const& a, B const& b ) const { return key_of( a ) < key_of( b ); }
    };
    struct item_cmp {
        template <typename A, typename B> int operator()( A const& a, B const& b ) const
        { int x = key_of( a ), y = key_of( b ); return x < y ? -1 : ( y < x ? 1 : 0 ); }
    };
    struct item_equal {
        template <typename A, typename B> bool operator()( A const& a, B const& b ) const { return key_of( a ) == key_of( b ); }
    };
    typedef item_less other_less;
    typedef item_equal other_equal;

    // hash functors: hash_mod<M> collides heavily (M values), hash_mix spreads
    template <unsigned M> struct hash_mod {
        template <typename A> size_t operator()( A const& a ) const { return (size_t)( (unsigned) key_of( a ) % M ); }
    };
    struct hash_mix {
        template <typename A> size_t operator()( A const& a ) const
        { unsigned long long x = (unsigned) key_of( a ); x *= 0x9E3779B97F4A7C15ull; x ^= x >> 29; return (size_t) x; }
    };
    struct hash_mix2 {
        template <typename A> size_t operator()( A const& a ) const
        { unsigned long long x = (unsigned) key_of( a ) + 0x51ull; x *= 0xBF58476D1CE4E5B9ull; x ^= x >> 31; return (size_t) x; }
    };
    struct hash_id {
        template <typename A> size_t operator()( A const& a ) const { return (size_t)(unsigned) key_of( a ); }
    };

    // ------------------------------------------------------------------------------------------
    // reclamation environments

    enum gc_kind { GK_HP, GK_RCU, GK_NOGC, GK_NONE };

    inline std::vector<long> env_ints( char const* name, std::vector<long> dflt )
    {
        char const* e = std::getenv( name );
        if ( !e || !*e ) return dflt;
        std::vector<long> v; std::stringstream ss( e ); std::string t;
        while ( std::getline( ss, t, ',' )) v.push_back( std::atol( t.c_str()));
        for ( size_t i = v.size(); i < dflt.size(); ++i ) v.push_back( dflt[i] );
        return v;
    }

    struct EnvHP {
        typedef cds::gc::HP gc; static const gc_kind kind = GK_HP; static char const* name() { return "HP"; }
        // need: hazard pointers the container itself requires (c_nHazardPtrCount) plus those the harness holds
        // (guarded_ptr, two iterators); C20_HP gives the number of EXTRA hazard pointers on top of that
        static void setup( size_t need ) {
            std::vector<long> p = env_ints( "C20_HP", { 4, 4, 0, 1 } );
            cds::gc::hp::GarbageCollector::Construct( need + (size_t) p[0], (size_t) p[1], (size_t) p[2],
                p[3] ? cds::gc::hp::details::inplace : cds::gc::hp::details::classic );
        }
        static void teardown() { cds::gc::hp::GarbageCollector::Destruct( true ); }
        static void quiesce() { cds::gc::HP::force_dispose(); }
    };
    struct EnvDHP {
        typedef cds::gc::DHP gc; static const gc_kind kind = GK_HP; static char const* name() { return "DHP"; }
        static void setup( size_t ) {
            std::vector<long> p = env_ints( "C20_DHP", { 16 } );
            cds::gc::dhp::GarbageCollector::Construct( (size_t) p[0] );
        }
        static void teardown() { cds::gc::dhp::GarbageCollector::Destruct(); }
        static void quiesce() { cds::gc::DHP::force_dispose(); }
    };
    template <typename RCU> struct rcu_name;
    template <typename RCU> struct EnvRCU {
        typedef cds::urcu::gc<RCU> gc; static const gc_kind kind = GK_RCU; static char const* name() { return rcu_name<RCU>::get(); }
        static void setup( size_t ) { RCU::Construct(); }
        static void teardown() { RCU::Destruct( true ); }
        static void quiesce() { gc::force_dispose(); }
    };
    typedef cds::urcu::general_buffered<>  rcu_gpb;
    typedef cds::urcu::general_instant<>   rcu_gpi;
    typedef cds::urcu::general_threaded<>  rcu_gpt;
    template <> struct rcu_name<rcu_gpb> { static char const* get() { return "RCU_GPB"; } };
    template <> struct rcu_name<rcu_gpi> { static char const* get() { return "RCU_GPI"; } };
    template <> struct rcu_name<rcu_gpt> { static char const* get() { return "RCU_GPT"; } };
#ifdef CDS_URCU_SIGNAL_HANDLING_ENABLED
    typedef cds::urcu::signal_buffered<>   rcu_shb;
    template <> struct rcu_name<rcu_shb> { static char const* get() { return "RCU_SHB"; } };
    typedef EnvRCU<rcu_shb> EnvSHB;
#endif
    typedef EnvRCU<rcu_gpb> EnvGPB;
    typedef EnvRCU<rcu_gpi> EnvGPI;
    typedef EnvRCU<rcu_gpt> EnvGPT;
    struct EnvNogc {
        typedef cds::gc::nogc gc; static const gc_kind kind = GK_NOGC; static char const* name() { return "nogc"; }
        static void setup( size_t ) {} static void teardown() {} static void quiesce() {}
    };
    struct EnvNone {   // containers that use no reclamation scheme (striped, cuckoo, flat combining, bounded queues)
        struct gc {}; static const gc_kind kind = GK_NONE; static char const* name() { return "-"; }
        static void setup( size_t ) {} static void teardown() {} static void quiesce() {}
    };

    // hazard pointers a container requires (HP-like schemes only)
    template <typename C, gc_kind K> struct hp_need_of { static size_t get() { return 0; } };
    template <typename C> struct hp_need_of<C, GK_HP> { static size_t get() { return C::c_nHazardPtrCount + 4; } };

    // ------------------------------------------------------------------------------------------
    // variant registry

    struct Variant {
        std::string name;
        char kind;                    // K, Q, S
        std::string cfg;              // specification configuration, comma separated ints (see ocaml/c20_main.ml)
        std::string ops;              // operations this variant offers, comma separated
        std::string traits;           // trait axes covered, free text "axis=value;..."
        std::function<void()> setup, teardown;
        std::function<void( Seq const&, std::ostream& )> run;
    };
    inline std::vector<Variant>& registry() { static std::vector<Variant> r; return r; }

    // ------------------------------------------------------------------------------------------
    // output of one keyed operation

    struct KOut {
        std::string res, calls; int held, disp;
        KOut(): held( 0 ), disp( 0 ) {}
    };
    inline std::string b2s( bool b ) { return b ? "b1" : "b0"; }
    inline std::string pair2s( std::pair<bool, bool> const& p ) { return std::string( "p" ) + ( p.first ? "1" : "0" ) + ( p.second ? "1" : "0" ); }
    inline std::string n2s( size_t n ) { return "n" + std::to_string( n ); }
    inline std::string call_I( int k, int v ) { return "I" + fmt_item( k, v ); }
    inline std::string call_E( int k, int v ) { return "E" + fmt_item( k, v ); }
    inline std::string call_F( int k, int v ) { return "F" + fmt_item( k, v ); }
    inline std::string call_U( bool bNew, int k, int seen, int v )
    {
        char buf[96]; std::snprintf( buf, sizeof buf, "U(%d,%d,%d,%d)", bNew ? 1 : 0, k, seen, v ); return buf;
    }
    inline std::string list2s( std::vector<std::pair<int, int>> v )
    {
        std::sort( v.begin(), v.end());          // unordered containers: iteration output is sorted before printing
        std::string s = "[";
        for ( auto const& p : v ) s += fmt_item( p.first, p.second );
        return s + "]";
    }

    // Runs the sequences of one kind through an adapter.
    //   Adapter( Seq const& )            constructs a fresh container (run-time parameters from seq.cfg)
    //   bool exec( Op const&, KOut& )    executes one operation, false = not offered by this variant
    //   void quiesce()                   brings reclamation to a quiescent state
    //   ~Adapter()                       destroys the container
    template <typename Adapter>
    void run_keyed( Seq const& s, std::ostream& out )
    {
        out << "# " << s.id << "\n";
        int before_end;
        {
            std::unique_ptr<Adapter> a( new Adapter( s ));
            for ( size_t i = 0; i < s.ops.size(); ++i ) {
                KOut o;
                a->quiesce();
                int d0 = disposed();
                bool ok = a->exec( s.ops[i], o );
                a->quiesce();
                o.disp = disposed() - d0;
                if ( !ok ) { out << i << " unsupported " << s.ops[i].name << "\n"; continue; }
                out << i << " " << o.res << " " << ( o.calls.empty() ? "-" : o.calls ) << " h" << o.held << " d" << o.disp << "\n";
                for ( auto const& b : bad()) out << i << " BAD " << b << "\n";
                bad().clear();
            }
            a->quiesce();
            before_end = disposed();
            a->destroy();       // destroys the container, keeps the objects the harness owns
            a->quiesce();
            out << "end d" << ( disposed() - before_end ) << "\n";
            for ( auto const& b : bad()) out << "end BAD " << b << "\n";
            bad().clear();
        }
    }

    struct QOut { std::string res; int disp; QOut(): disp( 0 ) {} };
    // adapters of containers whose disposer timing is unspecified (BasketQueue) report per-operation counts as 0 and
    // the total number of disposer calls of the whole sequence at the end
    template <typename A> struct deferred_dispose { static const bool value = false; };

    template <typename Adapter>
    void run_queue( Seq const& s, std::ostream& out )
    {
        out << "# " << s.id << "\n";
        std::unique_ptr<Adapter> a( new Adapter( s ));
        int const dstart = disposed();
        for ( size_t i = 0; i < s.ops.size(); ++i ) {
            QOut o;
            a->quiesce();
            int d0 = disposed();
            bool ok = a->exec( s.ops[i], o );
            a->quiesce();
            o.disp = deferred_dispose<Adapter>::value ? 0 : disposed() - d0;
            if ( !ok ) { out << i << " na d" << o.disp << "\n"; continue; }
            out << i << " " << o.res << " d" << o.disp << "\n";
            for ( auto const& b : bad()) out << i << " BAD " << b << "\n";
            bad().clear();
        }
        a->quiesce();
        int before_end = deferred_dispose<Adapter>::value ? dstart : disposed();
        a->destroy();
        a->quiesce();
        out << "end d" << ( disposed() - before_end ) << "\n";
        for ( auto const& b : bad()) out << "end BAD " << b << "\n";
        bad().clear();
    }

    template <typename Env, typename Adapter>
    Variant make_variant( char const* name, char kind, std::string cfg, char const* traits )
    {
        Variant v;
        v.name = name; v.kind = kind; v.cfg = cfg; v.ops = Adapter::ops(); v.traits = std::string( "gc=" ) + Env::name() + ";" + traits;
        v.setup = [] { Env::setup( Adapter::hp_need()); };
        v.teardown = [] { Env::teardown(); };
        return v;
    }
    template <typename Env, typename Adapter>
    void add_variant( char const* name, char kind, std::string cfg, char const* traits )     // keyed containers
    {
        Variant v = make_variant<Env, Adapter>( name, 'K', cfg, traits );
        v.run = []( Seq const& s, std::ostream& o ) { run_keyed<Adapter>( s, o ); };
        registry().push_back( v );
    }
    template <typename Env, typename Adapter>
    void add_queue( char const* name, char kind, std::string cfg, char const* traits )       // queue-like containers (Q, S)
    {
        Variant v = make_variant<Env, Adapter>( name, kind, cfg, traits );
        v.run = []( Seq const& s, std::ostream& o ) { run_queue<Adapter>( s, o ); };
        registry().push_back( v );
    }

    inline int main_impl( int argc, char** argv )
    {
        if ( argc >= 2 && std::string( argv[1] ) == "--list" ) {
            for ( auto const& v : registry())
                std::cout << v.name << " " << v.kind << " " << v.cfg << " " << v.ops << " " << v.traits << "\n";
            return 0;
        }
        if ( argc < 3 ) { std::fprintf( stderr, "usage: %s --list | <variant> <sequence file>\n", argv[0] ); return 2; }
        Variant const* v = nullptr;
        for ( auto const& x : registry()) if ( x.name == argv[1] ) v = &x;
        if ( !v ) { std::fprintf( stderr, "unknown variant %s\n", argv[1] ); return 2; }
        std::ifstream in( argv[2] );
        if ( !in ) { std::fprintf( stderr, "cannot read %s\n", argv[2] ); return 2; }
        cds::Initialize();
        v->setup();
        cds::threading::Manager::attachThread();
        {
            Seq s;
            std::ostringstream out;
            while ( read_seq( in, s )) {
                if ( s.kind != v->kind ) continue;
                v->run( s, out );
                std::cout << out.str(); out.str( "" );
                std::cout.flush();      // a watchdog kill must not lose the sequences already finished
            }
        }
        std::cout.flush();
        cds::threading::Manager::detachThread();
        v->teardown();
        cds::Terminate();
        return 0;
    }
} // namespace c20

#define C20_MAIN( register_fn ) int main( int argc, char** argv ) { register_fn(); return c20::main_impl( argc, argv ); }

#endif
