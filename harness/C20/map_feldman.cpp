// C20: cds::container::FeldmanHashMap (key int; std::hash<int> is injective)
#include "c20_keyed.h"
#include <cds/container/feldman_hashmap_hp.h>
#include <cds/container/feldman_hashmap_dhp.h>
#include <cds/container/feldman_hashmap_rcu.h>

using namespace c20;
namespace cc = cds::container;
namespace co = cds::opt;

namespace {
    struct hcmp { template <typename T> int operator()( T const& a, T const& b ) const { return a < b ? -1 : ( b < a ? 1 : 0 ); } };
    struct hless { template <typename T> bool operator()( T const& a, T const& b ) const { return a < b; } };

    struct t_dflt : cc::feldman_hashmap::traits {};
    struct t_cmp : cc::feldman_hashmap::traits { typedef hcmp compare; };
    struct t_less : cc::feldman_hashmap::traits { typedef hless less; };
    struct t_stat : cc::feldman_hashmap::traits {
        typedef hcmp compare; typedef cc::feldman_hashmap::stat<> stat; typedef cds::atomicity::cache_friendly_item_counter item_counter;
    };
    struct t_hashid : cc::feldman_hashmap::traits { typedef hash_id hash; typedef hless less; };
    struct t_nocnt : cc::feldman_hashmap::traits { typedef hcmp compare; typedef cds::atomicity::empty_item_counter item_counter; };

    typedef caps<4, true, false, false, true, true, true, true, true> caps_f;

    template <typename Env, typename Tr, typename Mk>
    void reg( char const* name, bool counted, char const* traits )
    {
        typedef cc::FeldmanHashMap<typename Env::gc, int, int, Tr> M;
        add_variant<Env, MapAdapter<M, Env, caps_f, Mk>>( name, 'K', kcfg( counted, true, true, 0 ), traits );
    }

    void register_all()
    {
        reg<EnvHP, t_dflt, mk0>( "FeldmanHashMap_HP_bitwise_default", true, "form=container-map;family=FeldmanHashMap;order=bitwise;hash=std::hash;counter=on;ctor=default(8,4)" );
        reg<EnvHP, t_cmp, mk2<2, 2>>( "FeldmanHashMap_HP_cmp_2x2", true, "form=container-map;family=FeldmanHashMap;order=compare;hash=std::hash;counter=on;ctor=head2,array2" );
        reg<EnvHP, t_less, mk2<4, 1>>( "FeldmanHashMap_HP_less_4x1", true, "form=container-map;family=FeldmanHashMap;order=less;hash=std::hash;counter=on;ctor=head4,array1" );
        reg<EnvHP, t_hashid, mk2<3, 3>>( "FeldmanHashMap_HP_less_hashid_3x3", true, "form=container-map;family=FeldmanHashMap;order=less;hash=identity;counter=on;ctor=head3,array3" );
        reg<EnvHP, t_nocnt, mk2<4, 2>>( "FeldmanHashMap_HP_cmp_nocnt", false, "form=container-map;family=FeldmanHashMap;order=compare;hash=std::hash;counter=off;ctor=head4,array2" );
        reg<EnvDHP, t_stat, mk2<4, 2>>( "FeldmanHashMap_DHP_cmp_stat_4x2", true, "form=container-map;family=FeldmanHashMap;order=compare;hash=std::hash;counter=cache_friendly;stat=on;ctor=head4,array2" );
        reg<EnvGPB, t_cmp, mk2<2, 2>>( "FeldmanHashMap_RCU_GPB_cmp_2x2", true, "form=container-map;family=FeldmanHashMap;order=compare;hash=std::hash;counter=on;ctor=head2,array2" );
        reg<EnvGPI, t_less, mk2<4, 4>>( "FeldmanHashMap_RCU_GPI_less_4x4", true, "form=container-map;family=FeldmanHashMap;order=less;hash=std::hash;counter=on;ctor=head4,array4" );
    }
}
C20_MAIN( register_all )
