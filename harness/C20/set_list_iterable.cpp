// C20: cds::container::IterableList used as an ordered set (HP, DHP): update() replaces the item
#include "c20_keyed.h"
#include <cds/container/iterable_list_hp.h>
#include <cds/container/iterable_list_dhp.h>

using namespace c20;
namespace cc = cds::container;
namespace co = cds::opt;

namespace {
    typedef cds::atomicity::item_counter cnt;
    typedef cc::iterable_list::make_traits<co::less<item_less>, co::item_counter<cnt>>::type t_less;
    typedef cc::iterable_list::make_traits<co::compare<item_cmp>, co::item_counter<cnt>>::type t_cmp;
    typedef cc::iterable_list::make_traits<co::less<item_less>, co::item_counter<cnt>, co::stat<cc::iterable_list::stat<>>>::type t_less_stat;
    struct t_mix_sc : cc::iterable_list::traits {
        typedef item_less less; typedef item_cmp compare; typedef cds::atomicity::cache_friendly_item_counter item_counter;
        typedef co::v::sequential_consistent memory_model; typedef cds::backoff::pause back_off;
    };
    struct t_nocnt : cc::iterable_list::traits { typedef item_cmp compare; };    // default: no item counter, so empty() is always true

    typedef caps<2, true, true, false, true> caps_it;

    template <typename Env, typename Tr> void reg( char const* name, bool counted, char const* traits )
    {
        typedef cc::IterableList<typename Env::gc, Item, Tr> L;
        // IterableList::empty() is size() == 0
        add_variant<Env, SetAdapter<L, Env, caps_it>>( name, 'K', kcfg( counted, true, true, 0 ), traits );
    }

    void register_all()
    {
        reg<EnvHP, t_less>( "IterableList_HP_less", true, "form=container;family=IterableList;order=less;counter=on" );
        reg<EnvHP, t_cmp>( "IterableList_HP_cmp", true, "form=container;family=IterableList;order=compare;counter=on" );
        reg<EnvHP, t_less_stat>( "IterableList_HP_less_stat", true, "form=container;family=IterableList;order=less;counter=on;stat=on" );
        reg<EnvHP, t_mix_sc>( "IterableList_HP_cmpmix_cfcnt_seqcst", true, "form=container;family=IterableList;order=compare+less;counter=cache_friendly;memory_model=seq_cst;backoff=pause" );
        reg<EnvHP, t_nocnt>( "IterableList_HP_cmp_nocnt", false, "form=container;family=IterableList;order=compare;counter=off" );
        reg<EnvDHP, t_cmp>( "IterableList_DHP_cmp", true, "form=container;family=IterableList;order=compare;counter=on" );
        reg<EnvDHP, t_less_stat>( "IterableList_DHP_less_stat", true, "form=container;family=IterableList;order=less;counter=on;stat=on" );
    }
}
C20_MAIN( register_all )
