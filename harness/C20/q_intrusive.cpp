// C20: intrusive queues, stacks and priority queue with a counting disposer
#include "c20_queue.h"
#include <cds/intrusive/msqueue.h>
#include <cds/intrusive/moir_queue.h>
#include <cds/intrusive/basket_queue.h>
#include <cds/intrusive/optimistic_queue.h>
#include <cds/intrusive/treiber_stack.h>
#include <cds/intrusive/fcqueue.h>
#include <cds/intrusive/fcstack.h>
#include <cds/intrusive/segmented_queue.h>
#include <cds/intrusive/vyukov_mpmc_cycle_queue.h>
#include <cds/intrusive/mspriority_queue.h>
#include <boost/intrusive/list.hpp>
#include <boost/intrusive/slist.hpp>

using namespace c20;
namespace ci = cds::intrusive;
namespace co = cds::opt;
namespace bi = boost::intrusive;

namespace {
    typedef cds::atomicity::item_counter cnt;
    template <typename GC> struct ms {
        typedef ci::msqueue::node<GC> node; typedef QBItem<node> bitem; typedef QMItem<node> mitem;
        struct t_base : ci::msqueue::traits { typedef ci::msqueue::base_hook<co::gc<GC>> hook; typedef qdisposer disposer; };
        struct t_base_cnt_stat : t_base { typedef cnt item_counter; typedef ci::msqueue::stat<> stat; typedef co::v::sequential_consistent memory_model; };
        struct t_member_cnt : ci::msqueue::traits { typedef ci::msqueue::member_hook<offsetof( mitem, hMember ), co::gc<GC>> hook; typedef qdisposer disposer; typedef cnt item_counter; };
    };
    template <typename GC> struct bq {
        typedef ci::basket_queue::node<GC> node; typedef QBItem<node> bitem; typedef QMItem<node> mitem;
        struct t_base_cnt : ci::basket_queue::traits { typedef ci::basket_queue::base_hook<co::gc<GC>> hook; typedef qdisposer disposer; typedef cnt item_counter; };
        struct t_member_stat : ci::basket_queue::traits { typedef ci::basket_queue::member_hook<offsetof( mitem, hMember ), co::gc<GC>> hook; typedef qdisposer disposer; typedef ci::basket_queue::stat<> stat; };
    };
    template <typename GC> struct oq {
        typedef ci::optimistic_queue::node<GC> node; typedef QBItem<node> bitem; typedef QMItem<node> mitem;
        struct t_base_cnt : ci::optimistic_queue::traits { typedef ci::optimistic_queue::base_hook<co::gc<GC>> hook; typedef qdisposer disposer; typedef cnt item_counter; };
        struct t_member_stat : ci::optimistic_queue::traits { typedef ci::optimistic_queue::member_hook<offsetof( mitem, hMember ), co::gc<GC>> hook; typedef qdisposer disposer; typedef ci::optimistic_queue::stat<> stat; };
    };
    template <typename GC> struct ts {
        typedef ci::treiber_stack::node<GC> node; typedef QBItem<node> bitem; typedef QMItem<node> mitem;
        struct t_base_cnt : ci::treiber_stack::traits { typedef ci::treiber_stack::base_hook<co::gc<GC>> hook; typedef qdisposer disposer; typedef cnt item_counter; };
        struct t_member_elim : ci::treiber_stack::traits { typedef ci::treiber_stack::member_hook<offsetof( mitem, hMember ), co::gc<GC>> hook; typedef qdisposer disposer;
            typedef cnt item_counter; static constexpr const bool enable_elimination = true; typedef ci::treiber_stack::stat<> stat; };
    };
    typedef QBItem<bi::list_base_hook<>> fcq_item;
    typedef QBItem<bi::slist_base_hook<>> fcs_item;
    struct fcq_tr : ci::fcqueue::traits { typedef qdisposer disposer; typedef ci::fcqueue::stat<> stat; };
    struct fcs_tr : ci::fcstack::traits { typedef qdisposer disposer; };
    struct sq_id : ci::segmented_queue::traits { typedef qdisposer disposer; typedef identity_permutation permutation_generator; };
    struct sq_r2 : ci::segmented_queue::traits { typedef qdisposer disposer; };
    struct vy_tr : ci::vyukov_queue::traits { typedef qdisposer disposer; typedef cnt item_counter; };
    struct pq_tr : ci::mspriority_queue::traits { typedef item_less less; };
    struct pq_cmp_stat : ci::mspriority_queue::traits { typedef item_cmp compare; typedef ci::mspriority_queue::stat<> stat; };

    template <typename Env, typename Q, typename Mk = qmk0, int Clr = 0, bool Enq = true, bool Deferred = false>
    void reg( char const* name, char kind, std::string cfg, char const* traits )
    {
        add_queue<Env, IQueueAdapter<Q, Env, Mk, Clr, Enq, Deferred>>( name, kind, cfg, traits );
    }

    void register_all()
    {
        typedef cds::gc::HP HP; typedef cds::gc::DHP DHP;
        // MSQueue family: the disposer runs one dequeue late (QDLag = 1)
        reg<EnvHP, ci::MSQueue<HP, ms<HP>::bitem, ms<HP>::t_base>>( "I_MSQueue_HP_base", 'Q', qcfg( 0, -1, false, false, 1 ), "form=intrusive;family=MSQueue;hook=base;counter=off" );
        reg<EnvHP, ci::MSQueue<HP, ms<HP>::mitem, ms<HP>::t_member_cnt>>( "I_MSQueue_HP_member_cnt", 'Q', qcfg( 0, -1, true, false, 1 ), "form=intrusive;family=MSQueue;hook=member;counter=on" );
        reg<EnvDHP, ci::MSQueue<DHP, ms<DHP>::bitem, ms<DHP>::t_base_cnt_stat>>( "I_MSQueue_DHP_base_cnt_stat_seqcst", 'Q', qcfg( 0, -1, true, false, 1 ), "form=intrusive;family=MSQueue;hook=base;counter=on;stat=on;memory_model=seq_cst" );
        reg<EnvHP, ci::MoirQueue<HP, ms<HP>::bitem, ms<HP>::t_base_cnt_stat>>( "I_MoirQueue_HP_base_cnt_stat", 'Q', qcfg( 0, -1, true, false, 1 ), "form=intrusive;family=MoirQueue;hook=base;counter=on;stat=on" );
        reg<EnvDHP, ci::MoirQueue<DHP, ms<DHP>::mitem, ms<DHP>::t_member_cnt>>( "I_MoirQueue_DHP_member_cnt", 'Q', qcfg( 0, -1, true, false, 1 ), "form=intrusive;family=MoirQueue;hook=member;counter=on" );
        // BasketQueue unlinks dequeued nodes lazily in batches: only the total is specified (QDTotal = 4)
        reg<EnvHP, ci::BasketQueue<HP, bq<HP>::bitem, bq<HP>::t_base_cnt>, qmk0, 0, true, true>( "I_BasketQueue_HP_base_cnt", 'Q', qcfg( 0, -1, true, false, 4 ), "form=intrusive;family=BasketQueue;hook=base;counter=on" );
        reg<EnvDHP, ci::BasketQueue<DHP, bq<DHP>::mitem, bq<DHP>::t_member_stat>, qmk0, 0, true, true>( "I_BasketQueue_DHP_member_stat", 'Q', qcfg( 0, -1, false, false, 4 ), "form=intrusive;family=BasketQueue;hook=member;counter=off;stat=on" );
        reg<EnvHP, ci::OptimisticQueue<HP, oq<HP>::bitem, oq<HP>::t_base_cnt>>( "I_OptimisticQueue_HP_base_cnt", 'Q', qcfg( 0, -1, true, false, 1 ), "form=intrusive;family=OptimisticQueue;hook=base;counter=on" );
        reg<EnvDHP, ci::OptimisticQueue<DHP, oq<DHP>::mitem, oq<DHP>::t_member_stat>>( "I_OptimisticQueue_DHP_member_stat", 'Q', qcfg( 0, -1, false, false, 1 ), "form=intrusive;family=OptimisticQueue;hook=member;counter=off;stat=on" );
        // TreiberStack: pop hands the object back, clear() and the destructor dispose (QDClear = 2)
        reg<EnvHP, ci::TreiberStack<HP, ts<HP>::bitem, ts<HP>::t_base_cnt>, qmk0, 0, false>( "I_TreiberStack_HP_base_cnt", 'Q', qcfg( 1, -1, true, false, 2 ), "form=intrusive;family=TreiberStack;hook=base;counter=on" );
        reg<EnvDHP, ci::TreiberStack<DHP, ts<DHP>::mitem, ts<DHP>::t_member_elim>, qmk0, 0, false>( "I_TreiberStack_DHP_member_cnt_elimination_stat", 'Q', qcfg( 1, -1, true, false, 2 ), "form=intrusive;family=TreiberStack;hook=member;counter=on;elimination=on;stat=on" );
        // flat combining: clear( true ) disposes, the destructor does not (QDManual = 3)
        reg<EnvNone, ci::FCQueue<fcq_item, bi::list<fcq_item>, fcq_tr>, qmk0, 1, true>( "I_FCQueue_boost_list_stat", 'Q', qcfg( 0, -1, true, false, 3 ), "form=intrusive;family=FCQueue;backend=boost::intrusive::list;stat=on" );
        reg<EnvNone, ci::FCStack<fcs_item, bi::slist<fcs_item>, fcs_tr>, qmk0, 1, false>( "I_FCStack_boost_slist", 'Q', qcfg( 1, -1, true, false, 3 ), "form=intrusive;family=FCStack;backend=boost::intrusive::slist" );
        // SegmentedQueue: dequeue hands back, clear() / destructor dispose
        reg<EnvHP, ci::SegmentedQueue<HP, QPItem, sq_id>, qmk_fixed<4>>( "I_SegmentedQueue_HP_identity_q4", 'Q', qcfg( 0, -1, true, true, 2 ), "form=intrusive;family=SegmentedQueue;permutation=identity;quasi_factor=4;counter=on" );
        reg<EnvDHP, ci::SegmentedQueue<DHP, QPItem, sq_id>, qmk_fixed<2>>( "I_SegmentedQueue_DHP_identity_q2", 'Q', qcfg( 0, -1, true, true, 2 ), "form=intrusive;family=SegmentedQueue;permutation=identity;quasi_factor=2;counter=on" );
        reg<EnvHP, ci::SegmentedQueue<HP, QPItem, sq_r2>, qmk_quasi>( "I_SegmentedQueue_HP_random2_q4", 'S', "4", "form=intrusive;family=SegmentedQueue;permutation=random2;quasi_factor=4;counter=on" );
        // Vyukov: bounded; clear() disposes, the destructor does not
        reg<EnvNone, ci::VyukovMPMCCycleQueue<QPItem, vy_tr>, qmk_cap>( "I_VyukovMPMCCycleQueue_cnt_cap4", 'Q', qcfg( 0, 4, true, false, 3 ), "form=intrusive;family=VyukovMPMCCycleQueue;buffer=dynamic;capacity=4;counter=on" );
        reg<EnvNone, ci::VyukovMPMCCycleQueue<QPItem, vy_tr>, qmk_cap>( "I_VyukovMPMCCycleQueue_cnt_cap16", 'Q', qcfg( 0, 16, true, false, 3 ), "form=intrusive;family=VyukovMPMCCycleQueue;buffer=dynamic;capacity=16;counter=on" );
        // MSPriorityQueue: no disposer at all
        reg<EnvNone, ci::MSPriorityQueue<QPItem, pq_tr>, qmk_cap_plus1, 0, false>( "I_MSPriorityQueue_less_cap7", 'Q', qcfg( 3, 7, true, true, 0 ), "form=intrusive;family=MSPriorityQueue;order=less;capacity=7" );
        reg<EnvNone, ci::MSPriorityQueue<QPItem, pq_cmp_stat>, qmk_cap_plus1, 0, false>( "I_MSPriorityQueue_cmp_stat_cap15", 'Q', qcfg( 3, 15, true, true, 0 ), "form=intrusive;family=MSPriorityQueue;order=compare;capacity=15;stat=on" );
    }
}
C20_MAIN( register_all )
