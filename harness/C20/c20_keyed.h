// Property C20 - adapters from the canonical keyed operations (ocaml/c20_main.ml) to the container-form
// (non-intrusive) sets and maps of cds/container.
#ifndef VERIF_C20_KEYED_H
#define VERIF_C20_KEYED_H
#include "c20.h"

namespace c20 {

    template <bool B> struct bool_ {};
    template <gc_kind K> struct kind_ {};

    // how a container is constructed
    struct mk0 { template <typename C> static C* make( Seq const& ) { return new C; } static std::string str() { return "ctor=default"; } };
    template <size_t A, size_t B> struct mk2 {
        template <typename C> static C* make( Seq const& ) { return new C( A, B ); }
        static std::string str() { return "ctor=" + std::to_string( A ) + "," + std::to_string( B ); }
    };
    template <size_t A, size_t B, size_t C3> struct mk3 {
        template <typename C> static C* make( Seq const& ) { return new C( A, B, C3 ); }
        static std::string str() { return "ctor=" + std::to_string( A ) + "," + std::to_string( B ) + "," + std::to_string( C3 ); }
    };
    template <size_t A> struct mk1 {
        template <typename C> static C* make( Seq const& ) { return new C( A ); }
        static std::string str() { return "ctor=" + std::to_string( A ); }
    };

    // how an element is read: sets hold Item, maps hold pair<const int, int>
    struct fmt_set {
        template <typename V> static int key( V const& v ) { return v.key; }
        template <typename V> static int val( V const& v ) { return v.val; }
    };
    struct fmt_map {
        template <typename V> static int key( V const& v ) { return v.first; }
        template <typename V> static int val( V const& v ) { return v.second; }
    };
    template <typename F, typename V> std::string fmt_of( V const& v ) { return fmt_item( F::key( v ), F::val( v )); }

    // ---- capability description of one API shape -------------------------------------------------
    // upd:   0 = none, 1 = update( val, f(bNew, item, arg), allow ), 2 = update( val, f(item, old*), allow ) + upsert,
    //        3 = nogc: update( val, allow ) returning pair<iterator,bool>, 4 = as 2 without upsert (Feldman)
    // ptr:   get / extract (guarded_ptr or exempt_ptr / raw_ptr) offered
    // with:  *_with( key, less ) overloads offered
    // ordered: extract_min / extract_max offered
    // iter:  begin()/end()
    // erase: erase offered (not for nogc)
    // find1: find functor takes the item only (Feldman)
    template <int Upd, bool Ptr, bool With, bool Ordered, bool Iter, bool Erase = true, bool Find1 = false, bool Emplace = true, bool FindF = true>
    struct caps {
        static const int upd = Upd; static const bool ptr = Ptr, with = With, ordered = Ordered, iter = Iter, erase = Erase, find1 = Find1,
            emplace = Emplace, findf = FindF;
    };

    template <typename Caps, gc_kind K>
    std::string ops_string( bool map )
    {
        std::string s = "ins,size,empty,clear,con";
        if ( Caps::emplace ) s += ",emp";
        if ( K != GK_NOGC || map ) s += ",insf";
        if ( Caps::findf ) s += ",fnd";
        if ( Caps::upd == 1 ) s += ",upd";
        if ( Caps::upd == 2 ) s += ",upd,ups";
        if ( Caps::upd == 3 ) s += ",ups";
        if ( Caps::upd == 4 ) s += ",upd";
        if ( Caps::erase ) s += ",era,eraf";
        if ( Caps::with ) { s += ",conw"; if ( Caps::findf ) s += ",fndw"; if ( Caps::erase ) s += ",eraw,erafw"; }
        if ( Caps::ptr ) { s += ",get,ext"; if ( Caps::with ) s += ",getw,extw"; }
        if ( Caps::ordered ) s += ",xmin,xmax";
        if ( Caps::iter ) s += ",iter";
        return s;
    }

    // ---- pointer-returning operations, by reclamation kind ----------------------------------------
    template <typename F, typename C, typename Env, bool With>
    struct ptr_ops {
        // the *_with overloads exist only when With
        template <typename R> static R get_w( C& c, int k, bool_<true> ) { return c.get_with( KeyRef( k ), other_less()); }
        template <typename R> static R get_w( C& c, int k, bool_<false> ) { return c.get( k ); }
        template <typename R> static R ext_w( C& c, int k, bool_<true> ) { return c.extract_with( KeyRef( k ), other_less()); }
        template <typename R> static R ext_w( C& c, int k, bool_<false> ) { return c.extract( k ); }

        // HP / DHP: guarded_ptr
        static void get( C& c, int k, bool with, KOut& o, kind_<GK_HP> )
        {
            typename C::guarded_ptr gp = with ? get_w<typename C::guarded_ptr>( c, k, bool_<With>()) : c.get( k );
            o.res = gp ? fmt_of<F>( *gp ) : std::string( "null" );
        }
        template <typename G> static void finish_hp( G& gp, KOut& o )
        {
            if ( gp ) {
                o.res = fmt_of<F>( *gp );
                int d0 = disposed(); Env::quiesce(); o.held = disposed() - d0;    // still held: must not be disposed
            }
            else o.res = "null";
            gp.release();
        }
        static void extract( C& c, int k, bool with, KOut& o, kind_<GK_HP> )
        {
            typename C::guarded_ptr gp = with ? ext_w<typename C::guarded_ptr>( c, k, bool_<With>()) : c.extract( k );
            finish_hp( gp, o );
        }
        static void xmin( C& c, KOut& o, kind_<GK_HP> ) { typename C::guarded_ptr gp = c.extract_min(); finish_hp( gp, o ); }
        static void xmax( C& c, KOut& o, kind_<GK_HP> ) { typename C::guarded_ptr gp = c.extract_max(); finish_hp( gp, o ); }

        // RCU: raw_ptr under rcu_lock, exempt_ptr
        static void get_rcu_w( C& c, int k, KOut& o, bool_<true> )
        { auto rp = c.get_with( KeyRef( k ), other_less()); o.res = rp ? fmt_of<F>( *rp ) : std::string( "null" ); }
        static void get_rcu_w( C& c, int k, KOut& o, bool_<false> ) {}
        static void get( C& c, int k, bool with, KOut& o, kind_<GK_RCU> )
        {
            typename C::rcu_lock l;
            if ( with ) get_rcu_w( c, k, o, bool_<With>());
            else { auto rp = c.get( k ); o.res = rp ? fmt_of<F>( *rp ) : std::string( "null" ); }
        }
        template <typename X> static void finish_rcu( X& xp, KOut& o )
        {
            if ( xp ) {
                o.res = fmt_of<F>( *xp );
                int d0 = disposed(); Env::quiesce(); o.held = disposed() - d0;
            }
            else o.res = "null";
            xp.release();
        }
        static void extract( C& c, int k, bool with, KOut& o, kind_<GK_RCU> )
        {
            typename C::exempt_ptr xp;
            if ( C::c_bExtractLockExternal ) {
                typename C::rcu_lock l;
                xp = with ? ext_w<typename C::exempt_ptr>( c, k, bool_<With>()) : c.extract( k );
            }
            else
                xp = with ? ext_w<typename C::exempt_ptr>( c, k, bool_<With>()) : c.extract( k );
            finish_rcu( xp, o );
        }
        static void xmin( C& c, KOut& o, kind_<GK_RCU> ) { typename C::exempt_ptr xp = c.extract_min(); finish_rcu( xp, o ); }
        static void xmax( C& c, KOut& o, kind_<GK_RCU> ) { typename C::exempt_ptr xp = c.extract_max(); finish_rcu( xp, o ); }
    };

    template <typename Env, typename C, bool Lock = ( Env::kind == GK_RCU )> struct iter_lock { iter_lock() {} };
    template <typename Env, typename C> struct iter_lock<Env, C, true> { typename C::rcu_lock l; };

    // =================================================================================================
    // container sets: value_type = Item
    template <typename Set, typename Env, typename Caps, typename Mk = mk0>
    struct SetAdapter
    {
        typedef fmt_set F;
        typedef ptr_ops<F, Set, Env, Caps::with> P;
        std::unique_ptr<Set> s;
        explicit SetAdapter( Seq const& q ): s( Mk::template make<Set>( q )) {}
        static std::string ops() { return ops_string<Caps, Env::kind>( false ); }
        static size_t hp_need() { return hp_need_of<Set, Env::kind>::get(); }
        void quiesce() { Env::quiesce(); }
        void destroy() { s.reset(); }

        // update shapes
        bool upd( int k, int v, bool allow, KOut& o, bool_<false> ) { return false; }
        void upd1( int k, int v, bool allow, KOut& o )
        {
            o.res = pair2s( s->update( Item( k, v ), [&o]( bool bNew, Item& it, Item const& arg ) {
                o.calls += call_U( bNew, it.key, it.val, arg.val ); it.val = arg.val; }, allow ));
        }
        void upd2( int k, int v, bool allow, KOut& o )
        {
            o.res = pair2s( s->update( Item( k, v ), [&o]( Item& it, Item* old ) {
                o.calls += call_U( old == nullptr, it.key, old ? old->val : it.val, it.val ); }, allow ));
        }
        void ups2( int k, int v, bool allow, KOut& o ) { o.res = pair2s( s->upsert( Item( k, v ), allow )); }
        void ups3( int k, int v, bool allow, KOut& o )
        {
            auto r = s->update( Item( k, v ), allow );      // nogc: the existing item is kept
            bool ok = r.first != s->end();
            if ( ok && !r.second ) r.first->val = v;         // the specification's update assigns the value
            o.res = pair2s( std::make_pair( ok, r.second ));
        }
        template <int U> bool do_upd( Op const& op, KOut& o, std::integral_constant<int, U> ) { return false; }
        bool do_upd( Op const& op, KOut& o, std::integral_constant<int, 1> )
        { if ( op.name != "upd" ) return false; upd1( op.a, op.b, op.c != 0, o ); return true; }
        bool do_upd( Op const& op, KOut& o, std::integral_constant<int, 2> )
        { if ( op.name == "upd" ) upd2( op.a, op.b, op.c != 0, o ); else ups2( op.a, op.b, op.c != 0, o ); return true; }
        bool do_upd( Op const& op, KOut& o, std::integral_constant<int, 3> )
        { if ( op.name != "ups" ) return false; ups3( op.a, op.b, op.c != 0, o ); return true; }
        bool do_upd( Op const& op, KOut& o, std::integral_constant<int, 4> )
        { if ( op.name != "upd" ) return false; upd2( op.a, op.b, op.c != 0, o ); return true; }

        // insert shapes: nogc returns an iterator
        void ins( int k, int v, KOut& o, kind_<GK_NOGC> ) { o.res = b2s( s->insert( Item( k, v )) != s->end()); }
        template <gc_kind K> void ins( int k, int v, KOut& o, kind_<K> ) { o.res = b2s( s->insert( Item( k, v ))); }
        void emp( int k, int v, KOut& o, kind_<GK_NOGC> ) { o.res = b2s( s->emplace( k, v ) != s->end()); }
        template <gc_kind K> void emp( int k, int v, KOut& o, kind_<K> ) { o.res = b2s( s->emplace( k, v )); }
        bool do_emp( int k, int v, KOut& o, bool_<true> ) { emp( k, v, o, kind_<Env::kind>()); return true; }
        bool do_emp( int, int, KOut&, bool_<false> ) { return false; }
        bool insf( int, int, KOut&, kind_<GK_NOGC> ) { return false; }
        template <gc_kind K> bool insf( int k, int v, KOut& o, kind_<K> )
        { o.res = b2s( s->insert( Item( k, v ), [&o]( Item& it ) { o.calls += call_I( it.key, it.val ); } )); return true; }

        // contains: nogc returns an iterator / pointer
        void con( int k, bool with, KOut& o, kind_<GK_NOGC> )
        { o.res = b2s( with ? s->contains( KeyRef( k ), other_less()) != s->end() : s->contains( k ) != s->end()); }
        template <gc_kind K> void con( int k, bool with, KOut& o, kind_<K> )
        { o.res = b2s( with ? s->contains( KeyRef( k ), other_less()) : s->contains( k )); }
        bool do_con( int k, bool with, KOut& o, bool_<true> ) { con( k, with, o, kind_<Env::kind>()); return true; }
        bool do_con( int k, bool with, KOut& o, bool_<false> )
        { if ( with ) return false; con_plain( k, o, kind_<Env::kind>()); return true; }
        void con_plain( int k, KOut& o, kind_<GK_NOGC> ) { o.res = b2s( s->contains( k ) != s->end()); }
        template <gc_kind K> void con_plain( int k, KOut& o, kind_<K> ) { o.res = b2s( s->contains( k )); }

        // find with functor: f(item, key) or f(item)
        bool fnd( int k, bool with, KOut& o, bool_<false> /*find1*/, bool_<true> /*with offered*/ )
        {
            auto f = [&o]( Item& it, int const& ) { o.calls += call_F( it.key, it.val ); };
            auto g = [&o]( Item& it, KeyRef const& ) { o.calls += call_F( it.key, it.val ); };
            o.res = b2s( with ? s->find_with( KeyRef( k ), other_less(), g ) : s->find( k, f ));
            return true;
        }
        bool fnd( int k, bool with, KOut& o, bool_<false>, bool_<false> )
        {
            if ( with ) return false;
            o.res = b2s( s->find( k, [&o]( Item& it, int const& ) { o.calls += call_F( it.key, it.val ); } ));
            return true;
        }
        template <bool W> bool fnd( int k, bool with, KOut& o, bool_<true>, bool_<W> )
        {
            if ( with ) return false;
            o.res = b2s( s->find( k, [&o]( Item& it ) { o.calls += call_F( it.key, it.val ); } ));
            return true;
        }
        bool do_fnd( int k, bool with, KOut& o, bool_<true> ) { return fnd( k, with, o, bool_<Caps::find1>(), bool_<Caps::with>()); }
        bool do_fnd( int, bool, KOut&, bool_<false> ) { return false; }

        // erase
        bool era( Op const& op, KOut& o, bool_<false> ) { return false; }
        bool era( Op const& op, KOut& o, bool_<true> )
        {
            int k = (int) op.a;
            auto f = [&o]( Item const& it ) { o.calls += call_E( it.key, it.val ); };
            if ( op.name == "era" ) o.res = b2s( s->erase( k ));
            else if ( op.name == "eraf" ) o.res = b2s( s->erase( k, f ));
            else return era_with( op, o, bool_<Caps::with>());
            return true;
        }
        bool era_with( Op const& op, KOut& o, bool_<false> ) { return false; }
        bool era_with( Op const& op, KOut& o, bool_<true> )
        {
            int k = (int) op.a;
            auto f = [&o]( Item const& it ) { o.calls += call_E( it.key, it.val ); };
            if ( op.name == "eraw" ) o.res = b2s( s->erase_with( KeyRef( k ), other_less()));
            else o.res = b2s( s->erase_with( KeyRef( k ), other_less(), f ));
            return true;
        }

        // get / extract / extract_min / extract_max
        bool ptr( Op const& op, KOut& o, bool_<false> ) { return false; }
        bool ptr( Op const& op, KOut& o, bool_<true> )
        {
            bool with = op.name == "getw" || op.name == "extw";
            if ( with && !Caps::with ) return false;
            if ( op.name[0] == 'g' ) P::get( *s, (int) op.a, with, o, kind_<Env::kind>());
            else P::extract( *s, (int) op.a, with, o, kind_<Env::kind>());
            return true;
        }
        bool ord( Op const& op, KOut& o, bool_<false> ) { return false; }
        bool ord( Op const& op, KOut& o, bool_<true> )
        {
            if ( op.name == "xmin" ) P::xmin( *s, o, kind_<Env::kind>()); else P::xmax( *s, o, kind_<Env::kind>());
            return true;
        }
        bool iter( KOut& o, bool_<false> ) { return false; }
        bool iter( KOut& o, bool_<true> )
        {
            std::vector<std::pair<int, int>> v;
            {
                iter_lock<Env, Set> l;
                for ( auto it = s->begin(); it != s->end(); ++it ) v.push_back( std::make_pair( it->key, it->val ));
            }
            o.res = list2s( v );
            return true;
        }

        bool exec( Op const& op, KOut& o )
        {
            std::string const& n = op.name;
            int k = (int) op.a, v = (int) op.b;
            if ( n == "ins" ) { ins( k, v, o, kind_<Env::kind>()); return true; }
            if ( n == "emp" ) return do_emp( k, v, o, bool_<Caps::emplace>());
            if ( n == "insf" ) return insf( k, v, o, kind_<Env::kind>());
            if ( n == "upd" || n == "ups" ) return do_upd( op, o, std::integral_constant<int, Caps::upd>());
            if ( n == "era" || n == "eraf" || n == "eraw" || n == "erafw" ) return era( op, o, bool_<Caps::erase>());
            if ( n == "con" ) return do_con( k, false, o, bool_<Caps::with>());
            if ( n == "conw" ) return do_con( k, true, o, bool_<Caps::with>());
            if ( n == "fnd" ) return do_fnd( k, false, o, bool_<Caps::findf>());
            if ( n == "fndw" ) return do_fnd( k, true, o, bool_<Caps::findf>());
            if ( n == "get" || n == "getw" || n == "ext" || n == "extw" ) return ptr( op, o, bool_<Caps::ptr>());
            if ( n == "xmin" || n == "xmax" ) return ord( op, o, bool_<Caps::ordered>());
            if ( n == "iter" ) return iter( o, bool_<Caps::iter>());
            if ( n == "size" ) { o.res = n2s( s->size()); return true; }
            if ( n == "empty" ) { o.res = b2s( s->empty()); return true; }
            if ( n == "clear" ) { s->clear(); o.res = "u"; return true; }
            return false;
        }
    };

    // =================================================================================================
    // container maps: key int, mapped int, value_type = pair<const int, int>
    template <typename Map, typename Env, typename Caps, typename Mk = mk0>
    struct MapAdapter
    {
        typedef fmt_map F;
        typedef ptr_ops<F, Map, Env, Caps::with> P;
        typedef typename Map::value_type value_type;
        std::unique_ptr<Map> s;
        explicit MapAdapter( Seq const& q ): s( Mk::template make<Map>( q )) {}
        static std::string ops() { return ops_string<Caps, Env::kind>( true ); }
        static size_t hp_need() { return hp_need_of<Map, Env::kind>::get(); }
        void quiesce() { Env::quiesce(); }
        void destroy() { s.reset(); }

        template <int U> bool do_upd( Op const& op, KOut& o, std::integral_constant<int, U> ) { return false; }
        bool do_upd( Op const& op, KOut& o, std::integral_constant<int, 1> )
        {
            if ( op.name != "upd" ) return false;
            int v = (int) op.b;
            o.res = pair2s( s->update( (int) op.a, [&o, v]( bool bNew, value_type& p ) {
                o.calls += call_U( bNew, p.first, bNew ? v : p.second, v ); p.second = v; }, op.c != 0 ));
            return true;
        }
        bool do_upd( Op const& op, KOut& o, std::integral_constant<int, 2> )
        {
            int v = (int) op.b;
            if ( op.name == "upd" )
                o.res = pair2s( s->update( (int) op.a, [&o, v]( value_type& p, value_type* old ) {
                    o.calls += call_U( old == nullptr, p.first, old ? old->second : v, v ); p.second = v; }, op.c != 0 ));
            else
                o.res = pair2s( s->upsert( (int) op.a, v, op.c != 0 ));
            return true;
        }
        bool do_upd( Op const& op, KOut& o, std::integral_constant<int, 4> )
        {
            if ( op.name != "upd" ) return false;
            int v = (int) op.b;
            o.res = pair2s( s->update( (int) op.a, [&o, v]( value_type& p, value_type* old ) {
                o.calls += call_U( old == nullptr, p.first, old ? old->second : v, v ); p.second = v; }, op.c != 0 ));
            return true;
        }
        bool do_upd( Op const& op, KOut& o, std::integral_constant<int, 3> )
        {
            if ( op.name != "ups" ) return false;
            auto r = s->update( (int) op.a, op.c != 0 );
            bool ok = r.first != s->end();
            if ( ok ) r.first->second = (int) op.b;
            o.res = pair2s( std::make_pair( ok, r.second ));
            return true;
        }

        void ins( int k, int v, KOut& o, kind_<GK_NOGC> ) { o.res = b2s( s->insert( k, v ) != s->end()); }
        template <gc_kind K> void ins( int k, int v, KOut& o, kind_<K> ) { o.res = b2s( s->insert( k, v )); }
        void emp( int k, int v, KOut& o, kind_<GK_NOGC> ) { o.res = b2s( s->emplace( k, v ) != s->end()); }
        template <gc_kind K> void emp( int k, int v, KOut& o, kind_<K> ) { o.res = b2s( s->emplace( k, v )); }
        bool do_emp( int k, int v, KOut& o, bool_<true> ) { emp( k, v, o, kind_<Env::kind>()); return true; }
        bool do_emp( int, int, KOut&, bool_<false> ) { return false; }
        bool insf( int k, int v, KOut& o, kind_<GK_NOGC> )
        {
            o.res = b2s( s->insert_with( k, [&o, v]( value_type& p ) { p.second = v; o.calls += call_I( p.first, p.second ); } ) != s->end());
            return true;
        }
        template <gc_kind K> bool insf( int k, int v, KOut& o, kind_<K> )
        {
            o.res = b2s( s->insert_with( k, [&o, v]( value_type& p ) { p.second = v; o.calls += call_I( p.first, p.second ); } ));
            return true;
        }

        void con( int k, bool with, KOut& o, kind_<GK_NOGC> )
        { o.res = b2s( with ? s->contains( KeyRef( k ), other_less()) != s->end() : s->contains( k ) != s->end()); }
        template <gc_kind K> void con( int k, bool with, KOut& o, kind_<K> )
        { o.res = b2s( with ? s->contains( KeyRef( k ), other_less()) : s->contains( k )); }
        bool do_con( int k, bool with, KOut& o, bool_<true> ) { con( k, with, o, kind_<Env::kind>()); return true; }
        bool do_con( int k, bool with, KOut& o, bool_<false> )
        { if ( with ) return false; con_plain( k, o, kind_<Env::kind>()); return true; }
        void con_plain( int k, KOut& o, kind_<GK_NOGC> ) { o.res = b2s( s->contains( k ) != s->end()); }
        template <gc_kind K> void con_plain( int k, KOut& o, kind_<K> ) { o.res = b2s( s->contains( k )); }

        bool do_fnd( int k, bool with, KOut& o, bool_<false> ) { return false; }
        bool do_fnd( int k, bool with, KOut& o, bool_<true> )
        {
            auto f = [&o]( value_type& p ) { o.calls += call_F( p.first, p.second ); };
            if ( with ) return fnd_with( k, o, bool_<Caps::with>());
            o.res = b2s( s->find( k, f ));
            return true;
        }
        bool fnd_with( int k, KOut& o, bool_<false> ) { return false; }
        bool fnd_with( int k, KOut& o, bool_<true> )
        {
            o.res = b2s( s->find_with( KeyRef( k ), other_less(), [&o]( value_type& p ) { o.calls += call_F( p.first, p.second ); } ));
            return true;
        }

        bool era( Op const& op, KOut& o, bool_<false> ) { return false; }
        bool era( Op const& op, KOut& o, bool_<true> )
        {
            int k = (int) op.a;
            auto f = [&o]( value_type& p ) { o.calls += call_E( p.first, p.second ); };
            if ( op.name == "era" ) o.res = b2s( s->erase( k ));
            else if ( op.name == "eraf" ) o.res = b2s( s->erase( k, f ));
            else return era_with( op, o, bool_<Caps::with>());
            return true;
        }
        bool era_with( Op const& op, KOut& o, bool_<false> ) { return false; }
        bool era_with( Op const& op, KOut& o, bool_<true> )
        {
            int k = (int) op.a;
            auto f = [&o]( value_type& p ) { o.calls += call_E( p.first, p.second ); };
            if ( op.name == "eraw" ) o.res = b2s( s->erase_with( KeyRef( k ), other_less()));
            else o.res = b2s( s->erase_with( KeyRef( k ), other_less(), f ));
            return true;
        }

        bool ptr( Op const& op, KOut& o, bool_<false> ) { return false; }
        bool ptr( Op const& op, KOut& o, bool_<true> )
        {
            bool with = op.name == "getw" || op.name == "extw";
            if ( with && !Caps::with ) return false;
            if ( op.name[0] == 'g' ) P::get( *s, (int) op.a, with, o, kind_<Env::kind>());
            else P::extract( *s, (int) op.a, with, o, kind_<Env::kind>());
            return true;
        }
        bool ord( Op const& op, KOut& o, bool_<false> ) { return false; }
        bool ord( Op const& op, KOut& o, bool_<true> )
        {
            if ( op.name == "xmin" ) P::xmin( *s, o, kind_<Env::kind>()); else P::xmax( *s, o, kind_<Env::kind>());
            return true;
        }
        bool iter( KOut& o, bool_<false> ) { return false; }
        bool iter( KOut& o, bool_<true> )
        {
            std::vector<std::pair<int, int>> v;
            {
                iter_lock<Env, Map> l;
                for ( auto it = s->begin(); it != s->end(); ++it ) v.push_back( std::make_pair( (int) it->first, (int) it->second ));
            }
            o.res = list2s( v );
            return true;
        }

        bool exec( Op const& op, KOut& o )
        {
            std::string const& n = op.name;
            int k = (int) op.a, v = (int) op.b;
            if ( n == "ins" ) { ins( k, v, o, kind_<Env::kind>()); return true; }
            if ( n == "emp" ) return do_emp( k, v, o, bool_<Caps::emplace>());
            if ( n == "insf" ) return insf( k, v, o, kind_<Env::kind>());
            if ( n == "upd" || n == "ups" ) return do_upd( op, o, std::integral_constant<int, Caps::upd>());
            if ( n == "era" || n == "eraf" || n == "eraw" || n == "erafw" ) return era( op, o, bool_<Caps::erase>());
            if ( n == "con" ) return do_con( k, false, o, bool_<Caps::with>());
            if ( n == "conw" ) return do_con( k, true, o, bool_<Caps::with>());
            if ( n == "fnd" ) return do_fnd( k, false, o, bool_<Caps::findf>());
            if ( n == "fndw" ) return do_fnd( k, true, o, bool_<Caps::findf>());
            if ( n == "get" || n == "getw" || n == "ext" || n == "extw" ) return ptr( op, o, bool_<Caps::ptr>());
            if ( n == "xmin" || n == "xmax" ) return ord( op, o, bool_<Caps::ordered>());
            if ( n == "iter" ) return iter( o, bool_<Caps::iter>());
            if ( n == "size" ) { o.res = n2s( s->size()); return true; }
            if ( n == "empty" ) { o.res = b2s( s->empty()); return true; }
            if ( n == "clear" ) { s->clear(); o.res = "u"; return true; }
            return false;
        }
    };

    // specification configuration string "counted,empty_by_size,replace,disp"
    inline std::string kcfg( bool counted, bool ebs, bool replace, int disp )
    {
        return std::to_string( counted ? 1 : 0 ) + "," + std::to_string( ebs ? 1 : 0 ) + "," + std::to_string( replace ? 1 : 0 ) + "," + std::to_string( disp );
    }
} // namespace c20
#endif
