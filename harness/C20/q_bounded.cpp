// C20: bounded queues: cds::container::VyukovMPMCCycleQueue, WeakRingBuffer; SegmentedQueue
#include "c20_queue.h"
#include <cds/container/vyukov_mpmc_cycle_queue.h>
#include <cds/container/weak_ringbuffer.h>
#include <cds/container/segmented_queue.h>

using namespace c20;
namespace cc = cds::container;
namespace co = cds::opt;

namespace {
    typedef cds::atomicity::item_counter cnt;
    struct vy_dflt : cc::vyukov_queue::traits {};
    struct vy_cnt : cc::vyukov_queue::traits { typedef cnt item_counter; };
    struct vy_cnt_sc : cc::vyukov_queue::traits { typedef cnt item_counter; typedef co::v::sequential_consistent memory_model; typedef cds::backoff::yield back_off; enum { padding = 64 }; };
    template <size_t N> struct vy_static : cc::vyukov_queue::traits { typedef co::v::uninitialized_static_buffer<int, N> buffer; typedef cnt item_counter; };
    struct rb_dflt : cc::weak_ringbuffer::traits {};
    struct rb_sc : cc::weak_ringbuffer::traits { typedef co::v::sequential_consistent memory_model; enum { padding = 64 }; };
    template <size_t N> struct rb_static : cc::weak_ringbuffer::traits { typedef co::v::uninitialized_static_buffer<int, N> buffer; };

    struct sq_id : cc::segmented_queue::traits { typedef identity_permutation permutation_generator; };
    struct sq_id_stat : cc::segmented_queue::traits { typedef identity_permutation permutation_generator; typedef cc::segmented_queue::stat<> stat; };
    struct sq_r2 : cc::segmented_queue::traits {};      // default: random2_permutation
    struct sq_rnd : cc::segmented_queue::traits { typedef co::v::random_permutation<int> permutation_generator; typedef cc::segmented_queue::stat<> stat; };
    struct sq_shuffle : cc::segmented_queue::traits { typedef co::v::random_shuffle_permutation<int> permutation_generator; };
    struct sq_r2_mutex : cc::segmented_queue::traits { typedef std::mutex lock_type; enum { padding = 16 }; };

    template <typename Q, typename Mk> void regv( char const* name, long cap, bool counted, char const* traits )
    {
        add_queue<EnvNone, QueueAdapter<Q, EnvNone, Mk>>( name, 'Q', qcfg( 0, cap, counted, false, 0 ), traits );
    }
    template <typename Q> void regr( char const* name, long cap, char const* traits )
    {
        // size() is computed from the positions: exact without any item counter; empty() is structural
        add_queue<EnvNone, RingAdapter<Q>>( name, 'Q', qcfg( 0, cap, true, false, 0 ), traits );
    }
    template <typename Env, typename Q, size_t Quasi> void regsf( char const* name, char const* traits )
    {
        // identity permutation: exact FIFO.  SegmentedQueue::empty() is size() == 0 and the item counter is mandatory
        add_queue<Env, QueueAdapter<Q, Env, qmk_fixed<Quasi>>>( name, 'Q', qcfg( 0, -1, true, true, 0 ), traits );
    }
    template <typename Env, typename Q> void regss( char const* name, long quasi, char const* traits )
    {
        add_queue<Env, QueueAdapter<Q, Env, qmk_quasi>>( name, 'S', std::to_string( quasi ), traits );
    }

    void register_all()
    {
        regv<cc::VyukovMPMCCycleQueue<int, vy_dflt>, qmk_cap>( "VyukovMPMCCycleQueue_dyn_cap2", 2, false, "form=container;family=VyukovMPMCCycleQueue;buffer=dynamic;capacity=2;counter=off" );
        regv<cc::VyukovMPMCCycleQueue<int, vy_cnt>, qmk_cap>( "VyukovMPMCCycleQueue_dyn_cnt_cap4", 4, true, "form=container;family=VyukovMPMCCycleQueue;buffer=dynamic;capacity=4;counter=on" );
        regv<cc::VyukovMPMCCycleQueue<int, vy_cnt_sc>, qmk_cap>( "VyukovMPMCCycleQueue_dyn_cnt_seqcst_cap16", 16, true, "form=container;family=VyukovMPMCCycleQueue;buffer=dynamic;capacity=16;counter=on;memory_model=seq_cst;backoff=yield;padding=64" );
        regv<cc::VyukovMPMCCycleQueue<int, vy_cnt>, qmk_cap>( "VyukovMPMCCycleQueue_dyn_cnt_cap256", 256, true, "form=container;family=VyukovMPMCCycleQueue;buffer=dynamic;capacity=256;counter=on" );
        regv<cc::VyukovMPMCCycleQueue<int, vy_static<4>>, qmk0>( "VyukovMPMCCycleQueue_static4_cnt", 4, true, "form=container;family=VyukovMPMCCycleQueue;buffer=static;capacity=4;counter=on" );
        regv<cc::VyukovMPMCCycleQueue<int, vy_static<8>>, qmk0>( "VyukovMPMCCycleQueue_static8_cnt", 8, true, "form=container;family=VyukovMPMCCycleQueue;buffer=static;capacity=8;counter=on" );

        regr<cc::WeakRingBuffer<int, rb_dflt>>( "WeakRingBuffer_dyn_cap2", 2, "form=container;family=WeakRingBuffer;buffer=dynamic;capacity=2" );
        regr<cc::WeakRingBuffer<int, rb_dflt>>( "WeakRingBuffer_dyn_cap4", 4, "form=container;family=WeakRingBuffer;buffer=dynamic;capacity=4" );
        regr<cc::WeakRingBuffer<int, rb_sc>>( "WeakRingBuffer_dyn_seqcst_cap16", 16, "form=container;family=WeakRingBuffer;buffer=dynamic;capacity=16;memory_model=seq_cst;padding=64" );
        regr<cc::WeakRingBuffer<int, rb_dflt>>( "WeakRingBuffer_dyn_cap256", 256, "form=container;family=WeakRingBuffer;buffer=dynamic;capacity=256" );
        add_queue<EnvNone, RingAdapter<cc::WeakRingBuffer<int, rb_static<8>>, qmk0>>( "WeakRingBuffer_static8", 'Q', qcfg( 0, 8, true, false, 0 ), "form=container;family=WeakRingBuffer;buffer=static;capacity=8" );

        regsf<EnvHP, cc::SegmentedQueue<cds::gc::HP, int, sq_id>, 2>( "SegmentedQueue_HP_identity_q2", "form=container;family=SegmentedQueue;permutation=identity;quasi_factor=2;counter=on" );
        regsf<EnvHP, cc::SegmentedQueue<cds::gc::HP, int, sq_id_stat>, 8>( "SegmentedQueue_HP_identity_stat_q8", "form=container;family=SegmentedQueue;permutation=identity;quasi_factor=8;counter=on;stat=on" );
        regsf<EnvDHP, cc::SegmentedQueue<cds::gc::DHP, int, sq_id>, 5>( "SegmentedQueue_DHP_identity_q5_rounds_to_8", "form=container;family=SegmentedQueue;permutation=identity;quasi_factor=5(->8);counter=on" );
        regss<EnvHP, cc::SegmentedQueue<cds::gc::HP, int, sq_r2>>( "SegmentedQueue_HP_random2_q2", 2, "form=container;family=SegmentedQueue;permutation=random2;quasi_factor=2;counter=on" );
        regss<EnvHP, cc::SegmentedQueue<cds::gc::HP, int, sq_r2>>( "SegmentedQueue_HP_random2_q4", 4, "form=container;family=SegmentedQueue;permutation=random2;quasi_factor=4;counter=on" );
        regss<EnvHP, cc::SegmentedQueue<cds::gc::HP, int, sq_rnd>>( "SegmentedQueue_HP_random_stat_q8", 8, "form=container;family=SegmentedQueue;permutation=random;quasi_factor=8;counter=on;stat=on" );
        regss<EnvDHP, cc::SegmentedQueue<cds::gc::DHP, int, sq_shuffle>>( "SegmentedQueue_DHP_shuffle_q16", 16, "form=container;family=SegmentedQueue;permutation=random_shuffle;quasi_factor=16;counter=on" );
        regss<EnvDHP, cc::SegmentedQueue<cds::gc::DHP, int, sq_r2_mutex>>( "SegmentedQueue_DHP_random2_mutex_q4", 4, "form=container;family=SegmentedQueue;permutation=random2;quasi_factor=4;counter=on;lock=std::mutex;padding=16" );
    }
}
C20_MAIN( register_all )
