// C20: cds::container::BronsonAVLTreeMap<RCU, int, int> (value form) and <RCU, int, PVal*> (pointer form with disposer)
#include "c20_keyed.h"
#include <cds/container/bronson_avltree_map_rcu.h>
#include <cds/sync/pool_monitor.h>
#include <cds/memory/vyukov_queue_pool.h>

using namespace c20;
namespace cc = cds::container;
namespace co = cds::opt;

namespace {
    // ---- value form -------------------------------------------------------------------------------
    template <typename Map, typename Env>
    struct BronsonAdapter
    {
        std::unique_ptr<Map> s;
        explicit BronsonAdapter( Seq const& ): s( new Map ) {}
        static std::string ops() { return "ins,emp,insf,upd,era,eraw,eraf,erafw,ext,extw,xmin,xmax,fnd,fndw,con,conw,size,empty,clear"; }
        static size_t hp_need() { return 0; }
        void quiesce() { Env::quiesce(); }
        void destroy() { s.reset(); }

        template <typename X> void finish( X& xp, int k, KOut& o )
        {
            if ( xp ) {
                o.res = fmt_item( k, *xp );
                int d0 = disposed(); Env::quiesce(); o.held = disposed() - d0;
            }
            else o.res = "null";
            xp.release();
        }
        bool exec( Op const& op, KOut& o )
        {
            std::string const& n = op.name;
            int k = (int) op.a, v = (int) op.b;
            auto ef = [&o]( int const& key, int& val ) { o.calls += call_E( key, val ); };
            auto ff = [&o]( int const& key, int& val ) { o.calls += call_F( key, val ); };
            if ( n == "ins" ) o.res = b2s( s->insert( k, v ));
            else if ( n == "emp" ) o.res = b2s( s->emplace( k, v ));
            else if ( n == "insf" ) o.res = b2s( s->insert_with( k, [&o, v]( int const& key, int& val ) { val = v; o.calls += call_I( key, val ); } ));
            else if ( n == "upd" )
                o.res = pair2s( s->update( k, [&o, v]( bool bNew, int const& key, int& val ) {
                    o.calls += call_U( bNew, key, bNew ? v : val, v ); val = v; }, op.c != 0 ));
            else if ( n == "era" ) o.res = b2s( s->erase( k ));
            else if ( n == "eraw" ) o.res = b2s( s->erase_with( KeyRef( k ), other_less()));
            else if ( n == "eraf" ) o.res = b2s( s->erase( k, ef ));
            else if ( n == "erafw" ) o.res = b2s( s->erase_with( KeyRef( k ), other_less(), ef ));
            else if ( n == "ext" ) { typename Map::exempt_ptr xp = s->extract( k ); finish( xp, k, o ); }
            else if ( n == "extw" ) { typename Map::exempt_ptr xp = s->extract_with( KeyRef( k ), other_less()); finish( xp, k, o ); }
            else if ( n == "xmin" ) { int key = -1; typename Map::exempt_ptr xp = s->extract_min( [&key]( int const& kk ) { key = kk; } ); finish( xp, key, o ); }
            else if ( n == "xmax" ) { int key = -1; typename Map::exempt_ptr xp = s->extract_max( [&key]( int const& kk ) { key = kk; } ); finish( xp, key, o ); }
            else if ( n == "fnd" ) o.res = b2s( s->find( k, ff ));
            else if ( n == "fndw" ) o.res = b2s( s->find_with( KeyRef( k ), other_less(), ff ));
            else if ( n == "con" ) o.res = b2s( s->contains( k ));
            else if ( n == "conw" ) o.res = b2s( s->contains( KeyRef( k ), other_less()));
            else if ( n == "size" ) o.res = n2s( s->size());
            else if ( n == "empty" ) o.res = b2s( s->empty());
            else if ( n == "clear" ) { s->clear(); o.res = "u"; }
            else return false;
            return true;
        }
    };

    // ---- pointer form: the map stores user pointers and calls the disposer for removed / replaced values -------
    struct PVal { int key, val; bool gone; PVal( int k, int v ): key( k ), val( v ), gone( false ) {} };
    struct pdisposer {
        void operator()( PVal* p ) const
        {
            ++disposed();
            if ( p->gone ) report_bad( "double dispose of " + fmt_item( p->key, p->val ));
            p->gone = true;
        }
    };

    template <typename Map, typename Env>
    struct BronsonPtrAdapter
    {
        std::unique_ptr<Map> s;
        std::vector<PVal*> pool;      // every object of the sequence; freed when the adapter dies
        explicit BronsonPtrAdapter( Seq const& ): s( new Map ) {}
        ~BronsonPtrAdapter() { for ( PVal* p : pool ) delete p; }
        static std::string ops() { return "ins,ups,era,eraw,eraf,erafw,ext,extw,xmin,xmax,fnd,fndw,con,conw,size,empty,clear"; }
        static size_t hp_need() { return 0; }
        void quiesce() { Env::quiesce(); }
        void destroy() { s.reset(); }
        PVal* mk( int k, int v ) { pool.push_back( new PVal( k, v )); return pool.back(); }

        template <typename X> void finish( X& xp, KOut& o )
        {
            if ( xp ) {
                o.res = fmt_item( xp->key, xp->val );
                int d0 = disposed(); Env::quiesce(); o.held = disposed() - d0;
            }
            else o.res = "null";
            xp.release();
        }
        bool exec( Op const& op, KOut& o )
        {
            std::string const& n = op.name;
            int k = (int) op.a, v = (int) op.b;
            auto ef = [&o]( int const& key, PVal& val ) { o.calls += call_E( key, val.val ); };
            auto ff = [&o]( int const& key, PVal& val ) { o.calls += call_F( key, val.val ); };
            if ( n == "ins" ) o.res = b2s( s->insert( k, mk( k, v )));
            else if ( n == "ups" ) o.res = pair2s( s->update( k, mk( k, v ), op.c != 0 ));
            else if ( n == "era" ) o.res = b2s( s->erase( k ));
            else if ( n == "eraw" ) o.res = b2s( s->erase_with( KeyRef( k ), other_less()));
            else if ( n == "eraf" ) o.res = b2s( s->erase( k, ef ));
            else if ( n == "erafw" ) o.res = b2s( s->erase_with( KeyRef( k ), other_less(), ef ));
            else if ( n == "ext" ) { typename Map::exempt_ptr xp = s->extract( k ); finish( xp, o ); }
            else if ( n == "extw" ) { typename Map::exempt_ptr xp = s->extract_with( KeyRef( k ), other_less()); finish( xp, o ); }
            else if ( n == "xmin" ) { typename Map::exempt_ptr xp = s->extract_min(); finish( xp, o ); }
            else if ( n == "xmax" ) { typename Map::exempt_ptr xp = s->extract_max(); finish( xp, o ); }
            else if ( n == "fnd" ) o.res = b2s( s->find( k, ff ));
            else if ( n == "fndw" ) o.res = b2s( s->find_with( KeyRef( k ), other_less(), ff ));
            else if ( n == "con" ) o.res = b2s( s->contains( k ));
            else if ( n == "conw" ) o.res = b2s( s->contains( KeyRef( k ), other_less()));
            else if ( n == "size" ) o.res = n2s( s->size());
            else if ( n == "empty" ) o.res = b2s( s->empty());
            else if ( n == "clear" ) { s->clear(); o.res = "u"; }
            else return false;
            return true;
        }
    };

    typedef cds::atomicity::item_counter cnt;
    struct t_less : cc::bronson_avltree::traits { typedef item_less less; };
    struct t_cmp_cnt : cc::bronson_avltree::traits { typedef item_cmp compare; typedef cnt item_counter; };
    struct t_mix_stat : cc::bronson_avltree::traits { typedef item_less less; typedef item_cmp compare; typedef cnt item_counter; typedef cc::bronson_avltree::stat<> stat; };
    struct t_relaxed : cc::bronson_avltree::traits { typedef item_cmp compare; typedef cnt item_counter; static bool const relaxed_insert = true; };
    struct t_sc : cc::bronson_avltree::traits { typedef item_cmp compare; typedef cnt item_counter; typedef co::v::sequential_consistent memory_model; };
    struct t_pool : cc::bronson_avltree::traits { typedef item_cmp compare; typedef cnt item_counter;
        typedef cds::sync::pool_monitor<cds::memory::vyukov_queue_pool<std::mutex>> sync_monitor; };
    struct t_lazypool : cc::bronson_avltree::traits { typedef item_less less; typedef cnt item_counter;
        typedef cds::sync::pool_monitor<cds::memory::lazy_vyukov_queue_pool<std::mutex>> sync_monitor; typedef co::v::rcu_no_check_deadlock rcu_check_deadlock; };
    template <typename B> struct with_disp : B { typedef pdisposer disposer; };

    template <typename Env, typename Tr> void reg( char const* name, bool counted, char const* traits )
    {
        typedef cc::BronsonAVLTreeMap<typename Env::gc, int, int, Tr> M;
        add_variant<Env, BronsonAdapter<M, Env>>( name, 'K', kcfg( counted, false, false, 0 ), traits );
    }
    template <typename Env, typename Tr> void regp( char const* name, bool counted, char const* traits )
    {
        typedef cc::BronsonAVLTreeMap<typename Env::gc, int, PVal*, with_disp<Tr>> M;
        add_variant<Env, BronsonPtrAdapter<M, Env>>( name, 'K', kcfg( counted, false, true, 1 ), traits );
    }

    void register_all()
    {
        reg<EnvGPB, t_less>( "BronsonAVLTreeMap_RCU_GPB_less", false, "form=container-map;family=BronsonAVLTreeMap;order=less;counter=off" );
        reg<EnvGPB, t_cmp_cnt>( "BronsonAVLTreeMap_RCU_GPB_cmp_cnt", true, "form=container-map;family=BronsonAVLTreeMap;order=compare;counter=on" );
        reg<EnvGPB, t_relaxed>( "BronsonAVLTreeMap_RCU_GPB_cmp_cnt_relaxed_insert", true, "form=container-map;family=BronsonAVLTreeMap;order=compare;counter=on;relaxed_insert=on" );
        reg<EnvGPB, t_pool>( "BronsonAVLTreeMap_RCU_GPB_cmp_cnt_pool_monitor", true, "form=container-map;family=BronsonAVLTreeMap;order=compare;counter=on;sync_monitor=pool_monitor" );
        reg<EnvGPI, t_mix_stat>( "BronsonAVLTreeMap_RCU_GPI_cmpmix_cnt_stat", true, "form=container-map;family=BronsonAVLTreeMap;order=compare+less;counter=on;stat=on" );
        reg<EnvGPI, t_lazypool>( "BronsonAVLTreeMap_RCU_GPI_less_cnt_lazy_pool_monitor", true, "form=container-map;family=BronsonAVLTreeMap;order=less;counter=on;sync_monitor=lazy_pool_monitor;rcu_check_deadlock=off" );
        reg<EnvGPT, t_sc>( "BronsonAVLTreeMap_RCU_GPT_cmp_cnt_seqcst", true, "form=container-map;family=BronsonAVLTreeMap;order=compare;counter=on;memory_model=seq_cst" );
#ifdef CDS_URCU_SIGNAL_HANDLING_ENABLED
        reg<EnvSHB, t_cmp_cnt>( "BronsonAVLTreeMap_RCU_SHB_cmp_cnt", true, "form=container-map;family=BronsonAVLTreeMap;order=compare;counter=on" );
#endif
        regp<EnvGPB, t_cmp_cnt>( "I_BronsonAVLTreeMap_ptr_RCU_GPB_cmp_cnt", true, "form=pointer-map(disposer);family=BronsonAVLTreeMap;order=compare;counter=on" );
        regp<EnvGPB, t_less>( "I_BronsonAVLTreeMap_ptr_RCU_GPB_less", false, "form=pointer-map(disposer);family=BronsonAVLTreeMap;order=less;counter=off" );
        regp<EnvGPI, t_mix_stat>( "I_BronsonAVLTreeMap_ptr_RCU_GPI_cmpmix_cnt_stat", true, "form=pointer-map(disposer);family=BronsonAVLTreeMap;order=compare+less;counter=on;stat=on" );
        regp<EnvGPT, t_pool>( "I_BronsonAVLTreeMap_ptr_RCU_GPT_cmp_cnt_pool_monitor", true, "form=pointer-map(disposer);family=BronsonAVLTreeMap;order=compare;counter=on;sync_monitor=pool_monitor" );
    }
}
C20_MAIN( register_all )
