// C20: cds::container::SplitListSet over MichaelList / LazyList / IterableList
#include "c20_keyed.h"
#include <cds/intrusive/free_list.h>
#include <cds/container/michael_list_hp.h>
#include <cds/container/michael_list_dhp.h>
#include <cds/container/michael_list_rcu.h>
#include <cds/container/michael_list_nogc.h>
#include <cds/container/lazy_list_hp.h>
#include <cds/container/lazy_list_dhp.h>
#include <cds/container/lazy_list_rcu.h>
#include <cds/container/lazy_list_nogc.h>
#include <cds/container/iterable_list_hp.h>
#include <cds/container/iterable_list_dhp.h>
#include <cds/container/split_list_set.h>
#include <cds/container/split_list_set_rcu.h>
#include <cds/container/split_list_set_nogc.h>

using namespace c20;
namespace cc = cds::container;
namespace co = cds::opt;

namespace {
    struct ml_less : cc::michael_list::traits { typedef item_less less; };
    struct ml_cmp : cc::michael_list::traits { typedef item_cmp compare; typedef cds::backoff::empty back_off; };
    struct ll_less : cc::lazy_list::traits { typedef item_less less; };
    struct ll_cmp : cc::lazy_list::traits { typedef item_cmp compare; };
    struct il_less : cc::iterable_list::traits { typedef item_less less; };
    struct il_cmp : cc::iterable_list::traits { typedef item_cmp compare; };

    template <typename Tag, typename LTr, typename H, bool Dyn = true>
    struct tr : cc::split_list::traits {
        typedef Tag ordered_list; typedef H hash; typedef LTr ordered_list_traits;
        static bool const dynamic_bucket_table = Dyn;
    };
    template <typename Tag, typename LTr, typename H, bool Dyn = true>
    struct tr_stat : tr<Tag, LTr, H, Dyn> { typedef cc::split_list::stat<> stat; typedef cds::atomicity::cache_friendly_item_counter item_counter; };
    template <typename Tag, typename LTr, typename H, typename BR>
    struct tr_br : tr<Tag, LTr, H, true> { typedef BR bit_reversal; };
    template <typename Tag, typename LTr, typename H, bool Dyn>
    struct tr_fl : tr<Tag, LTr, H, Dyn> { typedef cds::intrusive::FreeList free_list; };

    typedef caps<1, true, true, false, true> caps_gc;
    typedef caps<2, true, true, false, true> caps_it;
    typedef caps<3, false, true, false, true, false, false, true, false> caps_nogc;

    template <typename Env, typename STr, typename Caps, typename Mk>
    void reg( char const* name, bool replace, char const* traits )
    {
        typedef cc::SplitListSet<typename Env::gc, Item, STr> S;
        // SplitListSet::empty() is size() == 0; the item counter is a real one (the load factor needs it)
        add_variant<Env, SetAdapter<S, Env, Caps, Mk>>( name, 'K', kcfg( true, true, replace, 0 ), traits );
    }
    typedef cc::michael_list_tag M; typedef cc::lazy_list_tag L; typedef cc::iterable_list_tag I;

    void register_all()
    {
        reg<EnvHP, tr<M, ml_less, hash_mod<4>>, caps_gc, mk2<4, 1>>( "SplitListSet_Michael_HP_less_hashmod4_4x1", false,
            "form=container;family=SplitListSet;bucket=MichaelList;order=less;hash=mod4(colliding);counter=on;ctor=4,1;bucket_table=dynamic" );
        reg<EnvHP, tr<M, ml_cmp, hash_mix, false>, caps_gc, mk2<8, 1>>( "SplitListSet_Michael_HP_cmp_hashmix_static_8x1", false,
            "form=container;family=SplitListSet;bucket=MichaelList;order=compare;hash=mix;counter=on;ctor=8,1;bucket_table=static" );
        reg<EnvHP, tr_stat<M, ml_cmp, hash_mix>, caps_gc, mk2<2, 1>>( "SplitListSet_Michael_HP_cmp_hashmix_stat_2x1", false,
            "form=container;family=SplitListSet;bucket=MichaelList;order=compare;hash=mix;counter=cache_friendly;stat=on;ctor=2,1;bucket_table=dynamic" );
        reg<EnvHP, tr_br<M, ml_less, hash_id, cds::algo::bit_reversal::swar>, caps_gc, mk2<4, 2>>( "SplitListSet_Michael_HP_less_hashid_swar", false,
            "form=container;family=SplitListSet;bucket=MichaelList;order=less;hash=identity;counter=on;ctor=4,2;bit_reversal=swar" );
        reg<EnvHP, tr_br<M, ml_less, hash_mix, cds::algo::bit_reversal::muldiv>, caps_gc, mk2<4, 1>>( "SplitListSet_Michael_HP_less_hashmix_muldiv", false,
            "form=container;family=SplitListSet;bucket=MichaelList;order=less;hash=mix;counter=on;ctor=4,1;bit_reversal=muldiv" );
        reg<EnvHP, tr_fl<M, ml_cmp, hash_mix, true>, caps_gc, mk2<4, 1>>( "SplitListSet_Michael_HP_cmp_hashmix_freelist", false,
            "form=container;family=SplitListSet;bucket=MichaelList;order=compare;hash=mix;counter=on;ctor=4,1;free_list=FreeList" );
        reg<EnvDHP, tr<M, ml_cmp, hash_mod<4>>, caps_gc, mk2<4, 1>>( "SplitListSet_Michael_DHP_cmp_hashmod4", false,
            "form=container;family=SplitListSet;bucket=MichaelList;order=compare;hash=mod4(colliding);counter=on;ctor=4,1" );
        reg<EnvGPB, tr<M, ml_less, hash_mix>, caps_gc, mk2<4, 1>>( "SplitListSet_Michael_RCU_GPB_less_hashmix", false,
            "form=container;family=SplitListSet;bucket=MichaelList;order=less;hash=mix;counter=on;ctor=4,1" );
        reg<EnvGPI, tr<M, ml_cmp, hash_mod<4>, false>, caps_gc, mk2<16, 2>>( "SplitListSet_Michael_RCU_GPI_cmp_hashmod4_static", false,
            "form=container;family=SplitListSet;bucket=MichaelList;order=compare;hash=mod4(colliding);counter=on;ctor=16,2;bucket_table=static" );
        reg<EnvNogc, tr<M, ml_cmp, hash_mix>, caps_nogc, mk2<4, 1>>( "SplitListSet_Michael_nogc_cmp_hashmix", false,
            "form=container;family=SplitListSet;bucket=MichaelList;order=compare;hash=mix;counter=on;ctor=4,1" );

        reg<EnvHP, tr<L, ll_cmp, hash_mix>, caps_gc, mk2<4, 1>>( "SplitListSet_Lazy_HP_cmp_hashmix_4x1", false,
            "form=container;family=SplitListSet;bucket=LazyList;order=compare;hash=mix;counter=on;ctor=4,1" );
        reg<EnvDHP, tr_stat<L, ll_less, hash_mod<4>, false>, caps_gc, mk2<8, 2>>( "SplitListSet_Lazy_DHP_less_hashmod4_static_stat", false,
            "form=container;family=SplitListSet;bucket=LazyList;order=less;hash=mod4(colliding);counter=cache_friendly;stat=on;ctor=8,2;bucket_table=static" );
        reg<EnvGPB, tr<L, ll_less, hash_mix>, caps_gc, mk2<4, 1>>( "SplitListSet_Lazy_RCU_GPB_less_hashmix", false,
            "form=container;family=SplitListSet;bucket=LazyList;order=less;hash=mix;counter=on;ctor=4,1" );
        reg<EnvGPT, tr<L, ll_cmp, hash_mix>, caps_gc, mk2<2, 1>>( "SplitListSet_Lazy_RCU_GPT_cmp_hashmix", false,
            "form=container;family=SplitListSet;bucket=LazyList;order=compare;hash=mix;counter=on;ctor=2,1" );
        reg<EnvNogc, tr<L, ll_less, hash_mix>, caps_nogc, mk2<4, 1>>( "SplitListSet_Lazy_nogc_less_hashmix", false,
            "form=container;family=SplitListSet;bucket=LazyList;order=less;hash=mix;counter=on;ctor=4,1" );

        reg<EnvHP, tr<I, il_less, hash_mix>, caps_it, mk2<4, 1>>( "SplitListSet_Iterable_HP_less_hashmix_4x1", true,
            "form=container;family=SplitListSet;bucket=IterableList;order=less;hash=mix;counter=on;ctor=4,1" );
        reg<EnvDHP, tr_stat<I, il_cmp, hash_mod<4>>, caps_it, mk2<4, 1>>( "SplitListSet_Iterable_DHP_cmp_hashmod4_stat", true,
            "form=container;family=SplitListSet;bucket=IterableList;order=compare;hash=mod4(colliding);counter=cache_friendly;stat=on;ctor=4,1" );
        // multi-segment bucket tables (more than 1024 buckets): a second block of auxiliary bucket nodes gets allocated
        reg<EnvHP, tr<M, ml_less, hash_id>, caps_gc, mk2<4096, 1>>( "SplitListSet_Michael_HP_less_hashid_4096x1", false,
            "form=container;family=SplitListSet;bucket=MichaelList;order=less;hash=identity;counter=on;ctor=4096,1;bucket_table=dynamic(multi-segment)" );
        reg<EnvHP, tr<M, ml_cmp, hash_mix>, caps_gc, mk2<8192, 2>>( "SplitListSet_Michael_HP_cmp_hashmix_8192x2", false,
            "form=container;family=SplitListSet;bucket=MichaelList;order=compare;hash=mix;counter=on;ctor=8192,2;bucket_table=dynamic(multi-segment)" );
        reg<EnvGPB, tr<L, ll_less, hash_mix>, caps_gc, mk2<4096, 1>>( "SplitListSet_Lazy_RCU_GPB_less_hashmix_4096x1", false,
            "form=container;family=SplitListSet;bucket=LazyList;order=less;hash=mix;counter=on;ctor=4096,1;bucket_table=dynamic(multi-segment)" );
        reg<EnvDHP, tr<I, il_cmp, hash_id>, caps_it, mk2<8192, 2>>( "SplitListSet_Iterable_DHP_cmp_hashid_8192x2", true,
            "form=container;family=SplitListSet;bucket=IterableList;order=compare;hash=identity;counter=on;ctor=8192,2;bucket_table=dynamic(multi-segment)" );
        reg<EnvNogc, tr<M, ml_cmp, hash_id>, caps_nogc, mk2<4096, 1>>( "SplitListSet_Michael_nogc_cmp_hashid_4096x1", false,
            "form=container;family=SplitListSet;bucket=MichaelList;order=compare;hash=identity;counter=on;ctor=4096,1;bucket_table=dynamic(multi-segment)" );
    }
}
C20_MAIN( register_all )
