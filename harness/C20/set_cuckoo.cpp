// C20: cds::container::CuckooSet and CuckooMap.  The hash functors have many distinct values on purpose: the known
// sequential resize defect of CuckooSet (elements dropped when few distinct hash values exist) is property C17.
#include "c20_keyed.h"
#include <cds/container/cuckoo_set.h>
#include <cds/container/cuckoo_map.h>

using namespace c20;
namespace cc = cds::container;
namespace co = cds::opt;

namespace {
    typedef co::hash_tuple<hash_mix, hash_mix2> h2;
    struct hash_mix3 { template <typename A> size_t operator()( A const& a ) const { unsigned long long x = (unsigned) key_of( a ) + 0x1234567ull; x *= 0x94D049BB133111EBull; x ^= x >> 27; return (size_t) x; } };
    typedef co::hash_tuple<hash_mix, hash_mix2, hash_mix3> h3;

    struct s_list_unord : cc::cuckoo::traits { typedef h2 hash; typedef item_equal equal_to; typedef cc::cuckoo::list probeset_type; };
    struct s_vec_unord : cc::cuckoo::traits { typedef h2 hash; typedef item_equal equal_to; typedef cc::cuckoo::vector<4> probeset_type; };
    struct s_list_cmp : cc::cuckoo::traits { typedef h2 hash; typedef item_cmp compare; typedef cc::cuckoo::list probeset_type; };
    struct s_vec_less : cc::cuckoo::traits { typedef h2 hash; typedef item_less less; typedef cc::cuckoo::vector<4> probeset_type; };
    struct s_list_less_stat_sh : cc::cuckoo::traits { typedef h2 hash; typedef item_less less; typedef cc::cuckoo::list probeset_type; typedef cc::cuckoo::stat stat; static bool const store_hash = true; };
    struct s_vec_unord_sh : cc::cuckoo::traits { typedef h2 hash; typedef item_equal equal_to; typedef cc::cuckoo::vector<2> probeset_type; static bool const store_hash = true; };
    struct s_ref_list_cmp : cc::cuckoo::traits { typedef h2 hash; typedef item_cmp compare; typedef cc::cuckoo::list probeset_type; typedef cc::cuckoo::refinable<> mutex_policy; };
    struct s_ref_vec_unord : cc::cuckoo::traits { typedef h2 hash; typedef item_equal equal_to; typedef cc::cuckoo::vector<4> probeset_type; typedef cc::cuckoo::refinable<> mutex_policy; typedef cc::cuckoo::stat stat; };
    struct s_3hash_list_less : cc::cuckoo::traits { typedef h3 hash; typedef item_less less; typedef cc::cuckoo::list probeset_type; typedef cc::cuckoo::striping<std::recursive_mutex, 3> mutex_policy; };
    struct s_nocnt : cc::cuckoo::traits { typedef h2 hash; typedef item_less less; typedef cc::cuckoo::list probeset_type; typedef cds::atomicity::empty_item_counter item_counter; };

    //      upd ptr    with   ord    iter
    typedef caps<1, false, true, false, false> caps_ord;
    typedef caps<1, false, false, false, false> caps_unord;

    template <typename Tr, typename Caps, typename Mk> void regs( char const* name, bool counted, char const* traits )
    {
        typedef cc::CuckooSet<Item, Tr> S;
        add_variant<EnvNone, SetAdapter<S, EnvNone, Caps, Mk>>( name, 'K', kcfg( counted, true, false, 0 ), traits );
    }
    template <typename Tr, typename Caps, typename Mk> void regm( char const* name, bool counted, char const* traits )
    {
        typedef cc::CuckooMap<int, int, Tr> M;
        add_variant<EnvNone, MapAdapter<M, EnvNone, Caps, Mk>>( name, 'K', kcfg( counted, true, false, 0 ), traits );
    }

    void register_all()
    {
        regs<s_list_unord, caps_unord, mk0>( "CuckooSet_striping_list_unordered", true, "form=container;family=CuckooSet;probeset=list;order=unordered(equal_to);mutex=striping;counter=on;ctor=default" );
        regs<s_vec_unord, caps_unord, mk2<32, 4>>( "CuckooSet_striping_vector4_unordered_32x4", true, "form=container;family=CuckooSet;probeset=vector<4>;order=unordered(equal_to);mutex=striping;counter=on;ctor=32,4" );
        regs<s_list_cmp, caps_ord, mk3<4, 2, 1>>( "CuckooSet_striping_list_cmp_4x2x1", true, "form=container;family=CuckooSet;probeset=list;order=compare;mutex=striping;counter=on;ctor=4,2,1" );
        regs<s_vec_less, caps_ord, mk3<8, 4, 2>>( "CuckooSet_striping_vector4_less_8x4x2", true, "form=container;family=CuckooSet;probeset=vector<4>;order=less;mutex=striping;counter=on;ctor=8,4,2" );
        regs<s_list_less_stat_sh, caps_ord, mk3<4, 4, 0>>( "CuckooSet_striping_list_less_stat_storehash_4x4", true, "form=container;family=CuckooSet;probeset=list;order=less;mutex=striping;counter=on;stat=on;store_hash=on;ctor=4,4,0" );
        regs<s_vec_unord_sh, caps_unord, mk2<4, 2>>( "CuckooSet_striping_vector2_unordered_storehash_4x2", true, "form=container;family=CuckooSet;probeset=vector<2>;order=unordered(equal_to);mutex=striping;counter=on;store_hash=on;ctor=4,2" );
        regs<s_ref_list_cmp, caps_ord, mk3<4, 3, 2>>( "CuckooSet_refinable_list_cmp_4x3x2", true, "form=container;family=CuckooSet;probeset=list;order=compare;mutex=refinable;counter=on;ctor=4,3,2" );
        regs<s_ref_vec_unord, caps_unord, mk2<16, 4>>( "CuckooSet_refinable_vector4_unordered_stat", true, "form=container;family=CuckooSet;probeset=vector<4>;order=unordered(equal_to);mutex=refinable;counter=on;stat=on;ctor=16,4" );
        regs<s_3hash_list_less, caps_ord, mk3<4, 2, 0>>( "CuckooSet_striping_list_less_3hashes_4x2", true, "form=container;family=CuckooSet;probeset=list;order=less;mutex=striping;counter=on;hash_count=3;ctor=4,2,0" );
        regs<s_nocnt, caps_ord, mk3<4, 4, 0>>( "CuckooSet_striping_list_less_nocnt", false, "form=container;family=CuckooSet;probeset=list;order=less;mutex=striping;counter=off;ctor=4,4,0" );

        regm<s_list_unord, caps_unord, mk0>( "CuckooMap_striping_list_unordered", true, "form=container-map;family=CuckooMap;probeset=list;order=unordered(equal_to);mutex=striping;counter=on;ctor=default" );
        regm<s_vec_less, caps_ord, mk3<8, 4, 2>>( "CuckooMap_striping_vector4_less_8x4x2", true, "form=container-map;family=CuckooMap;probeset=vector<4>;order=less;mutex=striping;counter=on;ctor=8,4,2" );
        regm<s_list_less_stat_sh, caps_ord, mk3<4, 4, 0>>( "CuckooMap_striping_list_less_stat_storehash_4x4", true, "form=container-map;family=CuckooMap;probeset=list;order=less;mutex=striping;counter=on;stat=on;store_hash=on;ctor=4,4,0" );
        regm<s_ref_list_cmp, caps_ord, mk3<4, 3, 2>>( "CuckooMap_refinable_list_cmp_4x3x2", true, "form=container-map;family=CuckooMap;probeset=list;order=compare;mutex=refinable;counter=on;ctor=4,3,2" );
        regm<s_ref_vec_unord, caps_unord, mk2<16, 4>>( "CuckooMap_refinable_vector4_unordered_stat", true, "form=container-map;family=CuckooMap;probeset=vector<4>;order=unordered(equal_to);mutex=refinable;counter=on;stat=on;ctor=16,4" );
    }
}
C20_MAIN( register_all )
