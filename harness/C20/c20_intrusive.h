// Property C20 - adapter from the canonical keyed operations (ocaml/c20_main.ml) to the intrusive sets / lists of
// cds/intrusive.  The harness owns every object: one object per insert/update operation, kept in a pool until the
// adapter dies (after the container is destroyed and reclamation is quiescent), so addresses are never reused in a
// sequence.  The disposer counts its calls and reports a double disposal.
#ifndef VERIF_C20_INTRUSIVE_H
#define VERIF_C20_INTRUSIVE_H
#include "c20_keyed.h"

namespace c20 {

    template <typename Node> struct BItem : Node {      // base hook
        int key, val; bool gone;
        BItem( int k, int v ): key( k ), val( v ), gone( false ) {}
    };
    template <typename Node> struct MItem {             // member hook
        int key, val; bool gone; Node hMember;
        MItem( int k, int v ): key( k ), val( v ), gone( false ) {}
    };
    struct PItem {                                      // containers that need no hook (IterableList, FeldmanHashSet)
        int key, val; bool gone;
        PItem( int k, int v ): key( k ), val( v ), gone( false ) {}
    };
    struct idisposer {
        template <typename T> void operator()( T* p ) const
        {
            ++disposed();
            if ( p->gone ) report_bad( "double dispose of " + fmt_item( p->key, p->val ));
            p->gone = true;
        }
    };

    // capabilities of an intrusive API shape
    //   upd: 1 = update( obj, f(bNew, item, arg), allow ); 2 = update( obj, f(item, old*), allow ) + upsert; 4 = as 2 without upsert;
    //        5 = update( obj, allow ) without functor, replacing (intrusive FeldmanHashSet)
    //   erase: 0 none, 1 = bool erase (GC based), 2 = erase returns the unlinked object (no disposer)
    //   clr: 0 = clear(), 1 = clear_and_dispose( disposer )
    template <int Upd, bool Ptr, bool With, bool Ordered, bool Iter, int Erase = 1, bool Find1 = false, int Clr = 0, bool Unlink = true, bool InsF = true, bool FindF = true>
    struct icaps {
        static const int upd = Upd, erase = Erase, clr = Clr;
        static const bool ptr = Ptr, with = With, ordered = Ordered, iter = Iter, find1 = Find1, unlink = Unlink, insf = InsF, findf = FindF;
    };

    template <typename Caps>
    std::string iops_string()
    {
        std::string s = "ins,size,empty,clear,con";
        if ( Caps::insf ) s += ",insf";
        if ( Caps::findf ) s += ",fnd";
        if ( Caps::upd == 1 || Caps::upd == 4 ) s += ",upd";
        if ( Caps::upd == 2 ) s += ",upd,ups";
        if ( Caps::upd == 5 ) s += ",ups";
        if ( Caps::erase ) s += ",era,eraf";
        if ( Caps::unlink ) s += ",unl,unx";
        if ( Caps::with ) { s += ",conw"; if ( Caps::findf ) s += ",fndw"; if ( Caps::erase ) s += ",eraw,erafw"; }
        if ( Caps::ptr ) { s += ",get,ext"; if ( Caps::with ) s += ",getw,extw"; }
        if ( Caps::ordered ) s += ",xmin,xmax";
        if ( Caps::iter ) s += ",iter";
        return s;
    }

    template <typename Set, typename Env, typename Caps, typename Mk = mk0>
    struct IntrusiveAdapter
    {
        typedef typename Set::value_type T;
        typedef fmt_set F;
        typedef ptr_ops<F, Set, Env, Caps::with> P;
        std::unique_ptr<Set> s;
        std::vector<T*> pool;
        explicit IntrusiveAdapter( Seq const& q ): s( Mk::template make<Set>( q )) {}
        ~IntrusiveAdapter() { for ( T* p : pool ) delete p; }
        static std::string ops() { return iops_string<Caps>(); }
        static size_t hp_need() { return hp_need_of<Set, Env::kind>::get(); }
        void quiesce() { Env::quiesce(); }
        void destroy() { s.reset(); }
        T* mk( int k, int v ) { pool.push_back( new T( k, v )); return pool.back(); }

        // ---- update
        template <int U> bool do_upd( Op const&, KOut&, std::integral_constant<int, U> ) { return false; }
        bool do_upd( Op const& op, KOut& o, std::integral_constant<int, 1> )
        {
            if ( op.name != "upd" ) return false;
            T* p = mk( (int) op.a, (int) op.b );
            o.res = pair2s( s->update( *p, [&o]( bool bNew, T& item, T& arg ) {
                o.calls += call_U( bNew, item.key, item.val, arg.val ); item.val = arg.val; }, op.c != 0 ));
            return true;
        }
        void upd_repl( Op const& op, KOut& o )
        {
            T* p = mk( (int) op.a, (int) op.b );
            o.res = pair2s( s->update( *p, [&o]( T& item, T* old ) {
                o.calls += call_U( old == nullptr, item.key, old ? old->val : item.val, item.val ); }, op.c != 0 ));
        }
        bool do_upd( Op const& op, KOut& o, std::integral_constant<int, 2> )
        {
            if ( op.name == "upd" ) upd_repl( op, o );
            else { T* p = mk( (int) op.a, (int) op.b ); o.res = pair2s( s->upsert( *p, op.c != 0 )); }
            return true;
        }
        bool do_upd( Op const& op, KOut& o, std::integral_constant<int, 4> )
        { if ( op.name != "upd" ) return false; upd_repl( op, o ); return true; }
        bool do_upd( Op const& op, KOut& o, std::integral_constant<int, 5> )      // update( obj, allow ) without functor, replacing
        { if ( op.name != "ups" ) return false; T* p = mk( (int) op.a, (int) op.b ); o.res = pair2s( s->update( *p, op.c != 0 )); return true; }

        // ---- find
        T* locate( int k, bool_<false> ) { T* r = nullptr; s->find( k, [&r]( T& item, int const& ) { r = &item; } ); return r; }
        T* locate( int k, bool_<true> ) { T* r = nullptr; s->find( k, [&r]( T& item ) { r = &item; } ); return r; }
        bool do_fnd( int k, bool with, KOut& o, bool_<false> /*find1*/ )
        {
            if ( with ) return fnd_with( k, o, bool_<Caps::with>());
            o.res = b2s( s->find( k, [&o]( T& item, int const& ) { o.calls += call_F( item.key, item.val ); } ));
            return true;
        }
        bool do_fnd( int k, bool with, KOut& o, bool_<true> )
        {
            if ( with ) return false;
            o.res = b2s( s->find( k, [&o]( T& item ) { o.calls += call_F( item.key, item.val ); } ));
            return true;
        }
        bool fnd_with( int, KOut&, bool_<false> ) { return false; }
        bool fnd_with( int k, KOut& o, bool_<true> )
        {
            o.res = b2s( s->find_with( KeyRef( k ), other_less(), [&o]( T& item, KeyRef const& ) { o.calls += call_F( item.key, item.val ); } ));
            return true;
        }
        bool con_with( int, KOut&, bool_<false> ) { return false; }
        bool con_with( int k, KOut& o, bool_<true> ) { o.res = b2s( s->contains( KeyRef( k ), other_less())); return true; }

        // ---- erase
        template <int E> bool era( Op const&, KOut&, std::integral_constant<int, E> ) { return false; }
        bool era( Op const& op, KOut& o, std::integral_constant<int, 1> )
        {
            int k = (int) op.a;
            auto f = [&o]( T const& item ) { o.calls += call_E( item.key, item.val ); };
            if ( op.name == "era" ) o.res = b2s( s->erase( k ));
            else if ( op.name == "eraf" ) o.res = b2s( s->erase( k, f ));
            else return era_with( op, o, bool_<Caps::with>());
            return true;
        }
        bool era_with( Op const&, KOut&, bool_<false> ) { return false; }
        bool era_with( Op const& op, KOut& o, bool_<true> )
        {
            int k = (int) op.a;
            auto f = [&o]( T const& item ) { o.calls += call_E( item.key, item.val ); };
            if ( op.name == "eraw" ) o.res = b2s( s->erase_with( KeyRef( k ), other_less()));
            else o.res = b2s( s->erase_with( KeyRef( k ), other_less(), f ));
            return true;
        }
        bool era( Op const& op, KOut& o, std::integral_constant<int, 2> )      // erase hands the object back
        {
            int k = (int) op.a;
            auto f = [&o]( T const& item ) { o.calls += call_E( item.key, item.val ); };
            T* r;
            if ( op.name == "era" ) r = s->erase( k );
            else if ( op.name == "eraf" ) r = s->erase( k, f );
            else return era2_with( op, o, bool_<Caps::with>());
            o.res = b2s( r != nullptr );
            if ( r && r->key != k ) report_bad( "erase returned an object with another key" );
            return true;
        }
        bool era2_with( Op const&, KOut&, bool_<false> ) { return false; }
        bool era2_with( Op const& op, KOut& o, bool_<true> )
        {
            int k = (int) op.a;
            auto f = [&o]( T const& item ) { o.calls += call_E( item.key, item.val ); };
            T* r = op.name == "eraw" ? s->erase_with( KeyRef( k ), other_less()) : s->erase_with( KeyRef( k ), other_less(), f );
            o.res = b2s( r != nullptr );
            return true;
        }

        // ---- unlink
        bool unl( Op const&, KOut&, bool_<false> ) { return false; }
        bool unl( Op const& op, KOut& o, bool_<true> )
        {
            int k = (int) op.a;
            T* p = op.name == "unl" ? locate( k, bool_<Caps::find1>()) : nullptr;
            if ( !p ) p = mk( k, -1 );          // a foreign object with an equal key
            o.res = b2s( s->unlink( *p ));
            return true;
        }

        bool ptr( Op const&, KOut&, bool_<false> ) { return false; }
        bool ptr( Op const& op, KOut& o, bool_<true> )
        {
            bool with = op.name == "getw" || op.name == "extw";
            if ( with && !Caps::with ) return false;
            if ( op.name[0] == 'g' ) P::get( *s, (int) op.a, with, o, kind_<Env::kind>());
            else P::extract( *s, (int) op.a, with, o, kind_<Env::kind>());
            return true;
        }
        bool ord( Op const&, KOut&, bool_<false> ) { return false; }
        bool ord( Op const& op, KOut& o, bool_<true> )
        {
            if ( op.name == "xmin" ) P::xmin( *s, o, kind_<Env::kind>()); else P::xmax( *s, o, kind_<Env::kind>());
            return true;
        }
        bool iter( KOut&, bool_<false> ) { return false; }
        bool iter( KOut& o, bool_<true> )
        {
            std::vector<std::pair<int, int>> v;
            {
                iter_lock<Env, Set> l;
                for ( auto it = s->begin(); it != s->end(); ++it ) v.push_back( std::make_pair( it->key, it->val ));
            }
            o.res = list2s( v );
            return true;
        }
        void clr( std::integral_constant<int, 0> ) { s->clear(); }
        void clr( std::integral_constant<int, 1> ) { s->clear_and_dispose( idisposer()); }
        bool insf( int, int, KOut&, bool_<false> ) { return false; }
        bool insf( int k, int v, KOut& o, bool_<true> )
        {
            o.res = b2s( s->insert( *mk( k, v ), [&o]( T& item ) { o.calls += call_I( item.key, item.val ); } ));
            return true;
        }

        bool exec( Op const& op, KOut& o )
        {
            std::string const& n = op.name;
            int k = (int) op.a, v = (int) op.b;
            if ( n == "ins" ) { o.res = b2s( s->insert( *mk( k, v ))); return true; }
            if ( n == "insf" ) return insf( k, v, o, bool_<Caps::insf>());
            if ( n == "upd" || n == "ups" ) return do_upd( op, o, std::integral_constant<int, Caps::upd>());
            if ( n == "era" || n == "eraf" || n == "eraw" || n == "erafw" ) return era( op, o, std::integral_constant<int, Caps::erase>());
            if ( n == "unl" || n == "unx" ) return unl( op, o, bool_<Caps::unlink>());
            if ( n == "con" ) { o.res = b2s( s->contains( k )); return true; }
            if ( n == "conw" ) return con_with( k, o, bool_<Caps::with>());
            if ( n == "fnd" ) return Caps::findf && do_fnd( k, false, o, bool_<Caps::find1>());
            if ( n == "fndw" ) return Caps::findf && do_fnd( k, true, o, bool_<Caps::find1>());
            if ( n == "get" || n == "getw" || n == "ext" || n == "extw" ) return ptr( op, o, bool_<Caps::ptr>());
            if ( n == "xmin" || n == "xmax" ) return ord( op, o, bool_<Caps::ordered>());
            if ( n == "iter" ) return iter( o, bool_<Caps::iter>());
            if ( n == "size" ) { o.res = n2s( s->size()); return true; }
            if ( n == "empty" ) { o.res = b2s( s->empty()); return true; }
            if ( n == "clear" ) { clr( std::integral_constant<int, Caps::clr>()); o.res = "u"; return true; }
            return false;
        }
    };
} // namespace c20
#endif
