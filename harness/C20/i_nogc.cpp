// C20: intrusive containers over cds::gc::nogc (no erase): insert, update, find, contains, clear; the disposer is called by
// clear() and by the destructor
#include "c20_intrusive.h"
#include <cds/intrusive/michael_list_nogc.h>
#include <cds/intrusive/lazy_list_nogc.h>
#include <cds/intrusive/skip_list_nogc.h>
#include <cds/intrusive/michael_set_nogc.h>
#include <cds/intrusive/split_list_nogc.h>

using namespace c20;
namespace ci = cds::intrusive;
namespace co = cds::opt;

namespace {
    typedef cds::gc::nogc GC;
    typedef cds::atomicity::item_counter cnt;
    //        upd ptr    with   ord    iter  erase find1  clr unlink insf
    typedef icaps<1, false, true, false, true, 0, false, 0, false, false> caps_with;
    typedef icaps<1, false, false, false, true, 0, false, 0, false, false> caps_nowith;

    typedef BItem<ci::michael_list::node<GC>> mb;  typedef MItem<ci::michael_list::node<GC>> mm;
    struct ml_base_cmp_cnt : ci::michael_list::traits { typedef ci::michael_list::base_hook<co::gc<GC>> hook; typedef idisposer disposer; typedef item_cmp compare; typedef cnt item_counter; };
    struct ml_member_less : ci::michael_list::traits { typedef ci::michael_list::member_hook<offsetof( mm, hMember ), co::gc<GC>> hook; typedef idisposer disposer; typedef item_less less; };
    typedef BItem<ci::lazy_list::node<GC>> lb;
    struct ll_base_cmp_cnt : ci::lazy_list::traits { typedef ci::lazy_list::base_hook<co::gc<GC>> hook; typedef idisposer disposer; typedef item_cmp compare; typedef cnt item_counter; };
    typedef BItem<ci::skip_list::node<GC>> sb;
    struct sk_base_less_cnt : ci::skip_list::traits { typedef ci::skip_list::base_hook<co::gc<GC>> hook; typedef idisposer disposer; typedef item_less less; typedef cnt item_counter; };
    struct ms_tr : ci::michael_set::traits { typedef hash_mod<4> hash; };
    typedef BItem<ci::split_list::node<ci::michael_list::node<GC>>> spb;
    struct sp_list : ci::michael_list::traits { typedef ci::michael_list::base_hook<co::gc<GC>> hook; typedef idisposer disposer; typedef item_cmp compare; };
    struct sp_tr : ci::split_list::traits { typedef hash_mix hash; };

    template <typename S, typename Caps, typename Mk = mk0> void reg( char const* name, bool counted, bool ebs, char const* traits )
    {
        add_variant<EnvNogc, IntrusiveAdapter<S, EnvNogc, Caps, Mk>>( name, 'K', kcfg( counted, ebs, false, 1 ), traits );
    }

    void register_all()
    {
        reg<ci::MichaelList<GC, mb, ml_base_cmp_cnt>, caps_with>( "I_MichaelList_nogc_base_cmp_cnt", true, false, "form=intrusive;family=MichaelList;hook=base;order=compare;counter=on" );
        reg<ci::MichaelList<GC, mm, ml_member_less>, caps_with>( "I_MichaelList_nogc_member_less", false, false, "form=intrusive;family=MichaelList;hook=member;order=less;counter=off" );
        reg<ci::LazyList<GC, lb, ll_base_cmp_cnt>, caps_nowith>( "I_LazyList_nogc_base_cmp_cnt", true, false, "form=intrusive;family=LazyList;hook=base;order=compare;counter=on" );
        reg<ci::SkipListSet<GC, sb, sk_base_less_cnt>, caps_with>( "I_SkipListSet_nogc_base_less_cnt", true, false, "form=intrusive;family=SkipListSet;hook=base;order=less;counter=on" );
        reg<ci::MichaelHashSet<GC, ci::MichaelList<GC, mb, ml_base_cmp_cnt>, ms_tr>, caps_with, mk2<4, 1>>( "I_MichaelHashSet_Michael_nogc_base_cmp_hashmod4", true, true, "form=intrusive;family=MichaelHashSet;bucket=MichaelList;hook=base;order=compare;hash=mod4(colliding);counter=on;ctor=4,1" );
        reg<ci::SplitListSet<GC, ci::MichaelList<GC, spb, sp_list>, sp_tr>, caps_with, mk2<4, 1>>( "I_SplitListSet_Michael_nogc_base_cmp_hashmix", true, true, "form=intrusive;family=SplitListSet;bucket=MichaelList;hook=base;order=compare;hash=mix;counter=on;ctor=4,1" );
    }
}
C20_MAIN( register_all )
