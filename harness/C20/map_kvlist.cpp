// C20: key-value lists MichaelKVList, LazyKVList, IterableKVList used as ordered maps
#include "c20_keyed.h"
#include <cds/container/michael_kvlist_hp.h>
#include <cds/container/michael_kvlist_dhp.h>
#include <cds/container/michael_kvlist_rcu.h>
#include <cds/container/michael_kvlist_nogc.h>
#include <cds/container/lazy_kvlist_hp.h>
#include <cds/container/lazy_kvlist_dhp.h>
#include <cds/container/lazy_kvlist_rcu.h>
#include <cds/container/lazy_kvlist_nogc.h>
#include <cds/container/iterable_kvlist_hp.h>
#include <cds/container/iterable_kvlist_dhp.h>

using namespace c20;
namespace cc = cds::container;
namespace co = cds::opt;

namespace {
    typedef cds::atomicity::item_counter cnt;
    typedef cc::michael_list::make_traits<co::less<item_less>>::type m_less;
    typedef cc::michael_list::make_traits<co::compare<item_cmp>, co::item_counter<cnt>>::type m_cmp_cnt;
    typedef cc::michael_list::make_traits<co::less<item_less>, co::item_counter<cnt>, co::stat<cc::michael_list::stat<>>>::type m_less_cnt_stat;
    typedef cc::lazy_list::make_traits<co::less<item_less>>::type l_less;
    typedef cc::lazy_list::make_traits<co::compare<item_cmp>, co::item_counter<cnt>>::type l_cmp_cnt;
    typedef cc::lazy_list::make_traits<co::less<item_less>, co::item_counter<cnt>, co::stat<cc::lazy_list::stat<>>>::type l_less_cnt_stat;
    typedef cc::iterable_list::make_traits<co::less<item_less>, co::item_counter<cnt>>::type i_less;
    typedef cc::iterable_list::make_traits<co::compare<item_cmp>, co::item_counter<cnt>, co::stat<cc::iterable_list::stat<>>>::type i_cmp_stat;
    typedef cc::iterable_list::make_traits<co::compare<item_cmp>>::type i_cmp_nocnt;

    typedef caps<1, true, true, false, true> caps_gc;
    typedef caps<2, true, true, false, true> caps_it;
    typedef caps<3, false, true, false, true, false, false, true, false> caps_nogc;
    typedef caps<3, false, false, false, true, false, false, true, false> caps_nogc_lazy;

    template <template <typename, typename, typename, typename> class L, typename Env, typename Tr, typename Caps>
    void reg( char const* name, bool counted, bool ebs, bool replace, char const* traits )
    {
        typedef L<typename Env::gc, int, int, Tr> M;
        add_variant<Env, MapAdapter<M, Env, Caps>>( name, 'K', kcfg( counted, ebs, replace, 0 ), traits );
    }

    void register_all()
    {
        reg<cc::MichaelKVList, EnvHP, m_less, caps_gc>( "MichaelKVList_HP_less", false, false, false, "form=container-map;family=MichaelKVList;order=less;counter=off" );
        reg<cc::MichaelKVList, EnvHP, m_cmp_cnt, caps_gc>( "MichaelKVList_HP_cmp_cnt", true, false, false, "form=container-map;family=MichaelKVList;order=compare;counter=on" );
        reg<cc::MichaelKVList, EnvDHP, m_less_cnt_stat, caps_gc>( "MichaelKVList_DHP_less_cnt_stat", true, false, false, "form=container-map;family=MichaelKVList;order=less;counter=on;stat=on" );
        reg<cc::MichaelKVList, EnvGPB, m_cmp_cnt, caps_gc>( "MichaelKVList_RCU_GPB_cmp_cnt", true, false, false, "form=container-map;family=MichaelKVList;order=compare;counter=on" );
        reg<cc::MichaelKVList, EnvGPI, m_less, caps_gc>( "MichaelKVList_RCU_GPI_less", false, false, false, "form=container-map;family=MichaelKVList;order=less;counter=off" );
        reg<cc::MichaelKVList, EnvNogc, m_cmp_cnt, caps_nogc>( "MichaelKVList_nogc_cmp_cnt", true, false, false, "form=container-map;family=MichaelKVList;order=compare;counter=on" );

        reg<cc::LazyKVList, EnvHP, l_less, caps_gc>( "LazyKVList_HP_less", false, false, false, "form=container-map;family=LazyKVList;order=less;counter=off" );
        reg<cc::LazyKVList, EnvHP, l_cmp_cnt, caps_gc>( "LazyKVList_HP_cmp_cnt", true, false, false, "form=container-map;family=LazyKVList;order=compare;counter=on" );
        reg<cc::LazyKVList, EnvDHP, l_less_cnt_stat, caps_gc>( "LazyKVList_DHP_less_cnt_stat", true, false, false, "form=container-map;family=LazyKVList;order=less;counter=on;stat=on" );
        reg<cc::LazyKVList, EnvGPB, l_cmp_cnt, caps_gc>( "LazyKVList_RCU_GPB_cmp_cnt", true, false, false, "form=container-map;family=LazyKVList;order=compare;counter=on" );
        reg<cc::LazyKVList, EnvGPT, l_less, caps_gc>( "LazyKVList_RCU_GPT_less", false, false, false, "form=container-map;family=LazyKVList;order=less;counter=off" );
        reg<cc::LazyKVList, EnvNogc, l_cmp_cnt, caps_nogc_lazy>( "LazyKVList_nogc_cmp_cnt", true, false, false, "form=container-map;family=LazyKVList;order=compare;counter=on" );

        reg<cc::IterableKVList, EnvHP, i_less, caps_it>( "IterableKVList_HP_less", true, true, true, "form=container-map;family=IterableKVList;order=less;counter=on" );
        reg<cc::IterableKVList, EnvHP, i_cmp_nocnt, caps_it>( "IterableKVList_HP_cmp_nocnt", false, true, true, "form=container-map;family=IterableKVList;order=compare;counter=off" );
        reg<cc::IterableKVList, EnvDHP, i_cmp_stat, caps_it>( "IterableKVList_DHP_cmp_stat", true, true, true, "form=container-map;family=IterableKVList;order=compare;counter=on;stat=on" );
    }
}
C20_MAIN( register_all )
