// C20: cds::container::LazyList used as an ordered set, every reclamation scheme
#include "c20_keyed.h"
#include <cds/container/lazy_list_hp.h>
#include <cds/container/lazy_list_dhp.h>
#include <cds/container/lazy_list_rcu.h>
#include <cds/container/lazy_list_nogc.h>

using namespace c20;
namespace cc = cds::container;
namespace co = cds::opt;

namespace {
    typedef cc::lazy_list::make_traits<co::less<item_less>>::type t_less;
    typedef cc::lazy_list::make_traits<co::compare<item_cmp>>::type t_cmp;
    typedef cc::lazy_list::make_traits<co::compare<item_cmp>, co::item_counter<cds::atomicity::item_counter>>::type t_cmp_cnt;
    typedef cc::lazy_list::make_traits<co::less<item_less>, co::item_counter<cds::atomicity::item_counter>, co::stat<cc::lazy_list::stat<>>>::type t_less_cnt_stat;
    struct t_mix_sc : cc::lazy_list::traits {
        typedef item_less less; typedef item_cmp compare; typedef cds::atomicity::cache_friendly_item_counter item_counter;
        typedef co::v::sequential_consistent memory_model; typedef cds::backoff::pause back_off;
    };
    struct t_mutex : cc::lazy_list::traits {
        typedef item_cmp compare; typedef cds::atomicity::item_counter item_counter; typedef std::mutex lock_type;
    };
    // nogc: unordered variant uses equal_to
    struct t_nogc_unord : cc::lazy_list::traits {
        typedef item_equal equal_to; static const bool sort = false; typedef cds::atomicity::item_counter item_counter;
    };

    typedef caps<1, true, true, false, true> caps_gc;
    typedef caps<3, false, false, false, true, false, false, true, false> caps_nogc;

    template <typename Env, typename Tr> void reg( char const* name, bool counted, char const* traits )
    {
        typedef cc::LazyList<typename Env::gc, Item, Tr> L;
        add_variant<Env, SetAdapter<L, Env, caps_gc>>( name, 'K', kcfg( counted, false, false, 0 ), traits );
    }
    template <typename Tr> void reg_nogc( char const* name, bool counted, char const* traits )
    {
        typedef cc::LazyList<cds::gc::nogc, Item, Tr> L;
        add_variant<EnvNogc, SetAdapter<L, EnvNogc, caps_nogc>>( name, 'K', kcfg( counted, false, false, 0 ), traits );
    }

    void register_all()
    {
        reg<EnvHP, t_less>( "LazyList_HP_less", false, "form=container;family=LazyList;order=less;counter=off" );
        reg<EnvHP, t_cmp_cnt>( "LazyList_HP_cmp_cnt", true, "form=container;family=LazyList;order=compare;counter=on" );
        reg<EnvHP, t_mix_sc>( "LazyList_HP_cmpmix_cfcnt_seqcst", true, "form=container;family=LazyList;order=compare+less;counter=cache_friendly;memory_model=seq_cst;backoff=pause" );
        reg<EnvHP, t_mutex>( "LazyList_HP_cmp_cnt_mutex", true, "form=container;family=LazyList;order=compare;counter=on;lock=std::mutex" );
        reg<EnvDHP, t_cmp>( "LazyList_DHP_cmp", false, "form=container;family=LazyList;order=compare;counter=off" );
        reg<EnvDHP, t_less_cnt_stat>( "LazyList_DHP_less_cnt_stat", true, "form=container;family=LazyList;order=less;counter=on;stat=on" );
        reg<EnvGPB, t_cmp_cnt>( "LazyList_RCU_GPB_cmp_cnt", true, "form=container;family=LazyList;order=compare;counter=on" );
        reg<EnvGPI, t_less_cnt_stat>( "LazyList_RCU_GPI_less_cnt_stat", true, "form=container;family=LazyList;order=less;counter=on;stat=on" );
        reg<EnvGPT, t_less>( "LazyList_RCU_GPT_less", false, "form=container;family=LazyList;order=less;counter=off" );
#ifdef CDS_URCU_SIGNAL_HANDLING_ENABLED
        reg<EnvSHB, t_cmp_cnt>( "LazyList_RCU_SHB_cmp_cnt", true, "form=container;family=LazyList;order=compare;counter=on" );
#endif
        reg_nogc<t_cmp_cnt>( "LazyList_nogc_cmp_cnt", true, "form=container;family=LazyList;order=compare;counter=on" );
        reg_nogc<t_less>( "LazyList_nogc_less", false, "form=container;family=LazyList;order=less;counter=off" );
        reg_nogc<t_nogc_unord>( "LazyList_nogc_unordered_equal_cnt", true, "form=container;family=LazyList;order=unordered(equal_to);counter=on" );
    }
}
C20_MAIN( register_all )
