// C20: cds::container::SkipListMap (ordered: extract_min / extract_max)
#include "c20_keyed.h"
#include <cds/container/skip_list_map_hp.h>
#include <cds/container/skip_list_map_dhp.h>
#include <cds/container/skip_list_map_rcu.h>
#include <cds/container/skip_list_map_nogc.h>

using namespace c20;
namespace cc = cds::container;
namespace co = cds::opt;

namespace {
    typedef cds::atomicity::item_counter cnt;
    struct t_less : cc::skip_list::traits { typedef item_less less; };
    struct t_cmp_cnt : cc::skip_list::traits { typedef item_cmp compare; typedef cnt item_counter; };
    struct t_mix_stat : cc::skip_list::traits { typedef item_less less; typedef item_cmp compare; typedef cnt item_counter; typedef cc::skip_list::stat<> stat; };
    struct t_x32 : cc::skip_list::traits { typedef item_cmp compare; typedef cnt item_counter; typedef cc::skip_list::xorshift32 random_level_generator; };
    struct t_x24 : cc::skip_list::traits { typedef item_less less; typedef cnt item_counter; typedef cc::skip_list::xorshift24 random_level_generator; };
    struct t_x16 : cc::skip_list::traits { typedef item_cmp compare; typedef cnt item_counter; typedef cc::skip_list::xorshift16 random_level_generator; };
    struct t_t32 : cc::skip_list::traits { typedef item_less less; typedef cnt item_counter; typedef cc::skip_list::turbo32 random_level_generator; };
    struct t_t24 : cc::skip_list::traits { typedef item_cmp compare; typedef cnt item_counter; typedef cc::skip_list::turbo24 random_level_generator; };
    struct t_t16 : cc::skip_list::traits { typedef item_less less; typedef cds::atomicity::cache_friendly_item_counter item_counter; typedef cc::skip_list::turbo16 random_level_generator;
        typedef co::v::sequential_consistent memory_model; typedef cds::backoff::yield back_off; };

    typedef caps<1, true, true, true, true> caps_gc;
    typedef caps<3, false, true, false, true, false, false, true, false> caps_nogc;

    template <typename Env, typename Tr> void reg( char const* name, bool counted, char const* traits )
    {
        typedef cc::SkipListMap<typename Env::gc, int, int, Tr> S;
        add_variant<Env, MapAdapter<S, Env, caps_gc>>( name, 'K', kcfg( counted, false, false, 0 ), traits );
    }
    template <typename Tr> void reg_nogc( char const* name, bool counted, char const* traits )
    {
        typedef cc::SkipListMap<cds::gc::nogc, int, int, Tr> S;
        add_variant<EnvNogc, MapAdapter<S, EnvNogc, caps_nogc>>( name, 'K', kcfg( counted, false, false, 0 ), traits );
    }

    void register_all()
    {
        reg<EnvHP, t_less>( "SkipListMap_HP_less", false, "form=container-map;family=SkipListMap;order=less;counter=off;random=default" );
        reg<EnvHP, t_cmp_cnt>( "SkipListMap_HP_cmp_cnt", true, "form=container-map;family=SkipListMap;order=compare;counter=on;random=default" );
        reg<EnvHP, t_mix_stat>( "SkipListMap_HP_cmpmix_cnt_stat", true, "form=container-map;family=SkipListMap;order=compare+less;counter=on;stat=on" );
        reg<EnvHP, t_x32>( "SkipListMap_HP_cmp_xorshift32", true, "form=container-map;family=SkipListMap;order=compare;counter=on;random=xorshift32" );
        reg<EnvHP, t_x16>( "SkipListMap_HP_cmp_xorshift16", true, "form=container-map;family=SkipListMap;order=compare;counter=on;random=xorshift16" );
        reg<EnvHP, t_t24>( "SkipListMap_HP_cmp_turbo24", true, "form=container-map;family=SkipListMap;order=compare;counter=on;random=turbo24" );
        reg<EnvDHP, t_x24>( "SkipListMap_DHP_less_xorshift24", true, "form=container-map;family=SkipListMap;order=less;counter=on;random=xorshift24" );
        reg<EnvDHP, t_t32>( "SkipListMap_DHP_less_turbo32", true, "form=container-map;family=SkipListMap;order=less;counter=on;random=turbo32" );
        reg<EnvDHP, t_t16>( "SkipListMap_DHP_less_turbo16_seqcst", true, "form=container-map;family=SkipListMap;order=less;counter=cache_friendly;random=turbo16;memory_model=seq_cst;backoff=yield" );
        reg<EnvGPB, t_cmp_cnt>( "SkipListMap_RCU_GPB_cmp_cnt", true, "form=container-map;family=SkipListMap;order=compare;counter=on" );
        reg<EnvGPI, t_mix_stat>( "SkipListMap_RCU_GPI_cmpmix_cnt_stat", true, "form=container-map;family=SkipListMap;order=compare+less;counter=on;stat=on" );
        reg<EnvGPT, t_less>( "SkipListMap_RCU_GPT_less", false, "form=container-map;family=SkipListMap;order=less;counter=off" );
#ifdef CDS_URCU_SIGNAL_HANDLING_ENABLED
        reg<EnvSHB, t_x16>( "SkipListMap_RCU_SHB_cmp_xorshift16", true, "form=container-map;family=SkipListMap;order=compare;counter=on;random=xorshift16" );
#endif
        reg_nogc<t_cmp_cnt>( "SkipListMap_nogc_cmp_cnt", true, "form=container-map;family=SkipListMap;order=compare;counter=on" );
        reg_nogc<t_less>( "SkipListMap_nogc_less", false, "form=container-map;family=SkipListMap;order=less;counter=off" );
    }
}
C20_MAIN( register_all )
