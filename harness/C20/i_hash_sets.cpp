// C20: intrusive MichaelHashSet and SplitListSet over MichaelList / LazyList / IterableList, counting disposer
#include "c20_intrusive.h"
#include <cds/intrusive/michael_list_hp.h>
#include <cds/intrusive/michael_list_dhp.h>
#include <cds/intrusive/michael_list_rcu.h>
#include <cds/intrusive/lazy_list_hp.h>
#include <cds/intrusive/lazy_list_dhp.h>
#include <cds/intrusive/lazy_list_rcu.h>
#include <cds/intrusive/iterable_list_hp.h>
#include <cds/intrusive/iterable_list_dhp.h>
#include <cds/intrusive/michael_set.h>
#include <cds/intrusive/michael_set_rcu.h>
#include <cds/intrusive/split_list.h>
#include <cds/intrusive/split_list_rcu.h>

using namespace c20;
namespace ci = cds::intrusive;
namespace co = cds::opt;

namespace {
    typedef cds::atomicity::item_counter cnt;
    typedef icaps<1, true, true, false, true> caps_l;
    typedef icaps<2, true, true, false, true> caps_it;

    // bucket lists over an arbitrary node type (plain for MichaelHashSet, split_list::node<...> for SplitListSet)
    template <typename GC, typename Node> struct mlist {
        typedef BItem<Node> base_item; typedef MItem<Node> member_item;
        struct t_base_less : ci::michael_list::traits { typedef ci::michael_list::base_hook<co::gc<GC>> hook; typedef idisposer disposer; typedef item_less less; };
        struct t_base_cmp : ci::michael_list::traits { typedef ci::michael_list::base_hook<co::gc<GC>> hook; typedef idisposer disposer; typedef item_cmp compare; };
        struct t_member_cmp : ci::michael_list::traits {
            typedef ci::michael_list::member_hook<offsetof( member_item, hMember ), co::gc<GC>> hook; typedef idisposer disposer; typedef item_cmp compare; };
        typedef ci::MichaelList<GC, base_item, t_base_less> base_less;
        typedef ci::MichaelList<GC, base_item, t_base_cmp> base_cmp;
        typedef ci::MichaelList<GC, member_item, t_member_cmp> member_cmp;
    };
    template <typename GC, typename Node> struct llist {
        typedef BItem<Node> base_item; typedef MItem<Node> member_item;
        struct t_base_cmp : ci::lazy_list::traits { typedef ci::lazy_list::base_hook<co::gc<GC>> hook; typedef idisposer disposer; typedef item_cmp compare; };
        struct t_member_less : ci::lazy_list::traits {
            typedef ci::lazy_list::member_hook<offsetof( member_item, hMember ), co::gc<GC>> hook; typedef idisposer disposer; typedef item_less less; };
        typedef ci::LazyList<GC, base_item, t_base_cmp> base_cmp;
        typedef ci::LazyList<GC, member_item, t_member_less> member_less;
    };
    struct il_less : ci::iterable_list::traits { typedef idisposer disposer; typedef item_less less; };
    struct il_cmp_stat : ci::iterable_list::traits { typedef idisposer disposer; typedef item_cmp compare; typedef ci::iterable_list::stat<> stat; };
    struct SItem : ci::split_list::node<void> { int key, val; bool gone; SItem( int k, int v ): key( k ), val( v ), gone( false ) {} };

    template <typename H> struct ms : ci::michael_set::traits { typedef H hash; };
    template <typename H> struct ms_nocnt : ci::michael_set::traits { typedef H hash; typedef cds::atomicity::empty_item_counter item_counter; };
    template <typename H, bool Dyn = true> struct sl : ci::split_list::traits { typedef H hash; static bool const dynamic_bucket_table = Dyn; };
    template <typename H> struct sl_stat : ci::split_list::traits { typedef H hash; typedef ci::split_list::stat<> stat; typedef cds::atomicity::cache_friendly_item_counter item_counter; };

    template <typename Env, typename S, typename Caps, typename Mk> void reg( char const* name, bool counted, bool replace, char const* traits )
    {
        add_variant<Env, IntrusiveAdapter<S, Env, Caps, Mk>>( name, 'K', kcfg( counted, true, replace, 1 ), traits );
    }
    template <typename GC> struct N { typedef ci::michael_list::node<GC> m; typedef ci::lazy_list::node<GC> l;
        typedef ci::split_list::node<ci::michael_list::node<GC>> sm; typedef ci::split_list::node<ci::lazy_list::node<GC>> slz; };

    void register_all()
    {
        typedef cds::gc::HP HP; typedef cds::gc::DHP DHP; typedef EnvGPB::gc GPB; typedef EnvGPI::gc GPI;
        // ---- MichaelHashSet
        reg<EnvHP, ci::MichaelHashSet<HP, mlist<HP, N<HP>::m>::base_less, ms<hash_mod<4>>>, caps_l, mk2<4, 1>>( "I_MichaelHashSet_Michael_HP_base_less_hashmod4", true, false,
            "form=intrusive;family=MichaelHashSet;bucket=MichaelList;hook=base;order=less;hash=mod4(colliding);counter=on;ctor=4,1" );
        reg<EnvHP, ci::MichaelHashSet<HP, mlist<HP, N<HP>::m>::member_cmp, ms<hash_mix>>, caps_l, mk2<32, 2>>( "I_MichaelHashSet_Michael_HP_member_cmp_hashmix", true, false,
            "form=intrusive;family=MichaelHashSet;bucket=MichaelList;hook=member;order=compare;hash=mix;counter=on;ctor=32,2" );
        reg<EnvDHP, ci::MichaelHashSet<DHP, mlist<DHP, N<DHP>::m>::base_cmp, ms_nocnt<hash_mod<4>>>, caps_l, mk2<4, 1>>( "I_MichaelHashSet_Michael_DHP_base_cmp_nocnt", false, false,
            "form=intrusive;family=MichaelHashSet;bucket=MichaelList;hook=base;order=compare;hash=mod4(colliding);counter=off;ctor=4,1" );
        reg<EnvGPB, ci::MichaelHashSet<GPB, mlist<GPB, N<GPB>::m>::base_cmp, ms<hash_mod<4>>>, caps_l, mk2<4, 1>>( "I_MichaelHashSet_Michael_RCU_GPB_base_cmp_hashmod4", true, false,
            "form=intrusive;family=MichaelHashSet;bucket=MichaelList;hook=base;order=compare;hash=mod4(colliding);counter=on;ctor=4,1" );
        reg<EnvHP, ci::MichaelHashSet<HP, llist<HP, N<HP>::l>::base_cmp, ms<hash_mod<4>>>, caps_l, mk2<4, 1>>( "I_MichaelHashSet_Lazy_HP_base_cmp_hashmod4", true, false,
            "form=intrusive;family=MichaelHashSet;bucket=LazyList;hook=base;order=compare;hash=mod4(colliding);counter=on;ctor=4,1" );
        reg<EnvDHP, ci::MichaelHashSet<DHP, llist<DHP, N<DHP>::l>::member_less, ms<hash_mix>>, caps_l, mk2<16, 2>>( "I_MichaelHashSet_Lazy_DHP_member_less_hashmix", true, false,
            "form=intrusive;family=MichaelHashSet;bucket=LazyList;hook=member;order=less;hash=mix;counter=on;ctor=16,2" );
        reg<EnvGPI, ci::MichaelHashSet<GPI, llist<GPI, N<GPI>::l>::base_cmp, ms<hash_mix>>, caps_l, mk2<8, 1>>( "I_MichaelHashSet_Lazy_RCU_GPI_base_cmp_hashmix", true, false,
            "form=intrusive;family=MichaelHashSet;bucket=LazyList;hook=base;order=compare;hash=mix;counter=on;ctor=8,1" );
        reg<EnvHP, ci::MichaelHashSet<HP, ci::IterableList<HP, PItem, il_less>, ms<hash_mod<4>>>, caps_it, mk2<4, 1>>( "I_MichaelHashSet_Iterable_HP_less_hashmod4", true, true,
            "form=intrusive;family=MichaelHashSet;bucket=IterableList;hook=none;order=less;hash=mod4(colliding);counter=on;ctor=4,1" );
        reg<EnvDHP, ci::MichaelHashSet<DHP, ci::IterableList<DHP, PItem, il_cmp_stat>, ms<hash_mix>>, caps_it, mk2<16, 1>>( "I_MichaelHashSet_Iterable_DHP_cmp_stat_hashmix", true, true,
            "form=intrusive;family=MichaelHashSet;bucket=IterableList;hook=none;order=compare;hash=mix;counter=on;stat=on;ctor=16,1" );

        // ---- SplitListSet
        reg<EnvHP, ci::SplitListSet<HP, mlist<HP, N<HP>::sm>::base_less, sl<hash_mod<4>>>, caps_l, mk2<4, 1>>( "I_SplitListSet_Michael_HP_base_less_hashmod4", true, false,
            "form=intrusive;family=SplitListSet;bucket=MichaelList;hook=base;order=less;hash=mod4(colliding);counter=on;ctor=4,1;bucket_table=dynamic" );
        reg<EnvHP, ci::SplitListSet<HP, mlist<HP, N<HP>::sm>::member_cmp, sl<hash_mix, false>>, caps_l, mk2<8, 1>>( "I_SplitListSet_Michael_HP_member_cmp_hashmix_static", true, false,
            "form=intrusive;family=SplitListSet;bucket=MichaelList;hook=member;order=compare;hash=mix;counter=on;ctor=8,1;bucket_table=static" );
        reg<EnvDHP, ci::SplitListSet<DHP, mlist<DHP, N<DHP>::sm>::base_cmp, sl_stat<hash_mix>>, caps_l, mk2<2, 1>>( "I_SplitListSet_Michael_DHP_base_cmp_hashmix_stat", true, false,
            "form=intrusive;family=SplitListSet;bucket=MichaelList;hook=base;order=compare;hash=mix;counter=cache_friendly;stat=on;ctor=2,1" );
        reg<EnvGPB, ci::SplitListSet<GPB, mlist<GPB, N<GPB>::sm>::base_cmp, sl<hash_mix>>, caps_l, mk2<4, 1>>( "I_SplitListSet_Michael_RCU_GPB_base_cmp_hashmix", true, false,
            "form=intrusive;family=SplitListSet;bucket=MichaelList;hook=base;order=compare;hash=mix;counter=on;ctor=4,1" );
        reg<EnvHP, ci::SplitListSet<HP, llist<HP, N<HP>::slz>::base_cmp, sl<hash_mix>>, caps_l, mk2<4, 1>>( "I_SplitListSet_Lazy_HP_base_cmp_hashmix", true, false,
            "form=intrusive;family=SplitListSet;bucket=LazyList;hook=base;order=compare;hash=mix;counter=on;ctor=4,1" );
        reg<EnvGPI, ci::SplitListSet<GPI, llist<GPI, N<GPI>::slz>::member_less, sl<hash_mod<4>>>, caps_l, mk2<4, 1>>( "I_SplitListSet_Lazy_RCU_GPI_member_less_hashmod4", true, false,
            "form=intrusive;family=SplitListSet;bucket=LazyList;hook=member;order=less;hash=mod4(colliding);counter=on;ctor=4,1" );
        reg<EnvHP, ci::SplitListSet<HP, ci::IterableList<HP, SItem, il_less>, sl<hash_mix>>, caps_it, mk2<4, 1>>( "I_SplitListSet_Iterable_HP_less_hashmix", true, true,
            "form=intrusive;family=SplitListSet;bucket=IterableList;hook=split_list::node<void>;order=less;hash=mix;counter=on;ctor=4,1" );
        reg<EnvDHP, ci::SplitListSet<DHP, ci::IterableList<DHP, SItem, il_cmp_stat>, sl<hash_mod<4>>>, caps_it, mk2<4, 1>>( "I_SplitListSet_Iterable_DHP_cmp_stat_hashmod4", true, true,
            "form=intrusive;family=SplitListSet;bucket=IterableList;hook=split_list::node<void>;order=compare;hash=mod4(colliding);counter=on;stat=on;ctor=4,1" );
        // multi-segment bucket table: a second block of auxiliary bucket nodes gets allocated
        reg<EnvHP, ci::SplitListSet<HP, mlist<HP, N<HP>::sm>::base_cmp, sl<hash_id>>, caps_l, mk2<4096, 1>>( "I_SplitListSet_Michael_HP_base_cmp_hashid_4096x1", true, false,
            "form=intrusive;family=SplitListSet;bucket=MichaelList;hook=base;order=compare;hash=identity;counter=on;ctor=4096,1;bucket_table=dynamic(multi-segment)" );
        reg<EnvGPB, ci::SplitListSet<GPB, mlist<GPB, N<GPB>::sm>::base_less, sl<hash_mix>>, caps_l, mk2<8192, 2>>( "I_SplitListSet_Michael_RCU_GPB_base_less_hashmix_8192x2", true, false,
            "form=intrusive;family=SplitListSet;bucket=MichaelList;hook=base;order=less;hash=mix;counter=on;ctor=8192,2;bucket_table=dynamic(multi-segment)" );
    }
}
C20_MAIN( register_all )
