// C20: cds::container::MSQueue, MoirQueue, BasketQueue, OptimisticQueue (HP, DHP), RWQueue, FCQueue
#include "c20_queue.h"
#include <cds/container/msqueue.h>
#include <cds/container/moir_queue.h>
#include <cds/container/basket_queue.h>
#include <cds/container/optimistic_queue.h>
#include <cds/container/rwqueue.h>
#include <cds/container/fcqueue.h>
#include <list>
#include <deque>
#include <mutex>

using namespace c20;
namespace cc = cds::container;
namespace co = cds::opt;

namespace {
    typedef cds::atomicity::item_counter cnt;
    struct ms_dflt : cc::msqueue::traits {};
    struct ms_cnt : cc::msqueue::traits { typedef cnt item_counter; };
    struct ms_cnt_stat : cc::msqueue::traits { typedef cnt item_counter; typedef cc::msqueue::stat<> stat; typedef cds::backoff::yield back_off; };
    struct ms_sc : cc::msqueue::traits { typedef cds::atomicity::cache_friendly_item_counter item_counter; typedef co::v::sequential_consistent memory_model; enum { padding = 64 }; };
    struct bq_dflt : cc::basket_queue::traits {};
    struct bq_cnt_stat : cc::basket_queue::traits { typedef cnt item_counter; typedef cc::basket_queue::stat<> stat; };
    struct bq_sc : cc::basket_queue::traits { typedef cnt item_counter; typedef co::v::sequential_consistent memory_model; typedef cds::backoff::pause back_off; };
    struct oq_dflt : cc::optimistic_queue::traits {};
    struct oq_cnt_stat : cc::optimistic_queue::traits { typedef cnt item_counter; typedef cc::optimistic_queue::stat<> stat; };
    struct oq_sc : cc::optimistic_queue::traits { typedef cnt item_counter; typedef co::v::sequential_consistent memory_model; enum { padding = 32 }; };
    struct rw_dflt : cc::rwqueue::traits {};
    struct rw_cnt : cc::rwqueue::traits { typedef cnt item_counter; };
    struct rw_mutex : cc::rwqueue::traits { typedef cnt item_counter; typedef std::mutex lock_type; enum { padding = 16 }; };
    struct fc_stat : cc::fcqueue::traits { typedef cc::fcqueue::stat<> stat; };
    struct fc_elim : cc::fcqueue::traits { static constexpr const bool enable_elimination = true; };
    struct fc_mutex : cc::fcqueue::traits { typedef std::mutex lock_type; };

    template <typename Env, typename Q> void reg( char const* name, bool counted, char const* traits )
    {
        add_queue<Env, QueueAdapter<Q, Env>>( name, 'Q', qcfg( 0, -1, counted, false, 0 ), traits );
    }
    template <typename Q> void regrw( char const* name, bool counted, char const* traits )
    {
        add_queue<EnvNone, QueueAdapter<Q, EnvNone>>( name, 'Q', qcfg( 0, -1, counted, false, 0 ), traits );
    }
    template <typename Q> void regfc( char const* name, char const* traits )
    {
        // FCQueue::size() / empty() are those of the underlying std::queue
        add_queue<EnvNone, FCQueueAdapter<Q>>( name, 'Q', qcfg( 0, -1, true, false, 0 ), traits );
    }

    void register_all()
    {
        reg<EnvHP, cc::MSQueue<cds::gc::HP, int, ms_dflt>>( "MSQueue_HP", false, "form=container;family=MSQueue;counter=off" );
        reg<EnvHP, cc::MSQueue<cds::gc::HP, int, ms_cnt>>( "MSQueue_HP_cnt", true, "form=container;family=MSQueue;counter=on" );
        reg<EnvHP, cc::MSQueue<cds::gc::HP, int, ms_cnt_stat>>( "MSQueue_HP_cnt_stat", true, "form=container;family=MSQueue;counter=on;stat=on;backoff=yield" );
        reg<EnvDHP, cc::MSQueue<cds::gc::DHP, int, ms_cnt>>( "MSQueue_DHP_cnt", true, "form=container;family=MSQueue;counter=on" );
        reg<EnvDHP, cc::MSQueue<cds::gc::DHP, int, ms_sc>>( "MSQueue_DHP_cfcnt_seqcst_pad64", true, "form=container;family=MSQueue;counter=cache_friendly;memory_model=seq_cst;padding=64" );
        reg<EnvHP, cc::MoirQueue<cds::gc::HP, int, ms_dflt>>( "MoirQueue_HP", false, "form=container;family=MoirQueue;counter=off" );
        reg<EnvHP, cc::MoirQueue<cds::gc::HP, int, ms_cnt_stat>>( "MoirQueue_HP_cnt_stat", true, "form=container;family=MoirQueue;counter=on;stat=on;backoff=yield" );
        reg<EnvDHP, cc::MoirQueue<cds::gc::DHP, int, ms_sc>>( "MoirQueue_DHP_cfcnt_seqcst", true, "form=container;family=MoirQueue;counter=cache_friendly;memory_model=seq_cst;padding=64" );
        reg<EnvHP, cc::BasketQueue<cds::gc::HP, int, bq_dflt>>( "BasketQueue_HP", false, "form=container;family=BasketQueue;counter=off" );
        reg<EnvHP, cc::BasketQueue<cds::gc::HP, int, bq_cnt_stat>>( "BasketQueue_HP_cnt_stat", true, "form=container;family=BasketQueue;counter=on;stat=on" );
        reg<EnvDHP, cc::BasketQueue<cds::gc::DHP, int, bq_sc>>( "BasketQueue_DHP_cnt_seqcst", true, "form=container;family=BasketQueue;counter=on;memory_model=seq_cst;backoff=pause" );
        reg<EnvHP, cc::OptimisticQueue<cds::gc::HP, int, oq_dflt>>( "OptimisticQueue_HP", false, "form=container;family=OptimisticQueue;counter=off" );
        reg<EnvHP, cc::OptimisticQueue<cds::gc::HP, int, oq_cnt_stat>>( "OptimisticQueue_HP_cnt_stat", true, "form=container;family=OptimisticQueue;counter=on;stat=on" );
        reg<EnvDHP, cc::OptimisticQueue<cds::gc::DHP, int, oq_sc>>( "OptimisticQueue_DHP_cnt_seqcst_pad32", true, "form=container;family=OptimisticQueue;counter=on;memory_model=seq_cst;padding=32" );
        regrw<cc::RWQueue<int, rw_dflt>>( "RWQueue", false, "form=container;family=RWQueue;counter=off;lock=spin" );
        regrw<cc::RWQueue<int, rw_cnt>>( "RWQueue_cnt", true, "form=container;family=RWQueue;counter=on;lock=spin" );
        regrw<cc::RWQueue<int, rw_mutex>>( "RWQueue_cnt_mutex_pad16", true, "form=container;family=RWQueue;counter=on;lock=std::mutex;padding=16" );
        regfc<cc::FCQueue<int>>( "FCQueue_deque", "form=container;family=FCQueue;backend=std::queue<deque>" );
        regfc<cc::FCQueue<int, std::queue<int, std::list<int>>>>( "FCQueue_list", "form=container;family=FCQueue;backend=std::queue<list>" );
        regfc<cc::FCQueue<int, std::queue<int>, fc_stat>>( "FCQueue_deque_stat", "form=container;family=FCQueue;backend=std::queue<deque>;stat=on" );
        regfc<cc::FCQueue<int, std::queue<int, std::list<int>>, fc_elim>>( "FCQueue_list_elimination", "form=container;family=FCQueue;backend=std::queue<list>;elimination=on" );
        regfc<cc::FCQueue<int, std::queue<int>, fc_mutex>>( "FCQueue_deque_mutex", "form=container;family=FCQueue;backend=std::queue<deque>;lock=std::mutex" );
    }
}
C20_MAIN( register_all )
