// C20: intrusive CuckooSet and StripedSet (no garbage collector: erase / unlink hand the object back, only
// clear() / clear_and_dispose() call the disposer, the destructor does not).  The cuckoo hash functors have many
// distinct values on purpose (the known resize defect with few hash values is property C17).
#include "c20_intrusive.h"
#include <cds/intrusive/cuckoo_set.h>
#include <cds/intrusive/striped_set/boost_list.h>
#include <cds/intrusive/striped_set/boost_slist.h>
#include <cds/intrusive/striped_set/boost_set.h>
#include <cds/intrusive/striped_set/boost_avl_set.h>
#include <cds/intrusive/striped_set/boost_splay_set.h>
#include <cds/intrusive/striped_set/boost_sg_set.h>
#include <cds/intrusive/striped_set/boost_treap_set.h>
#include <cds/intrusive/striped_set/boost_unordered_set.h>
#include <cds/intrusive/striped_set.h>

using namespace c20;
namespace ci = cds::intrusive;
namespace co = cds::opt;
namespace bi = boost::intrusive;

namespace {
    typedef co::hash_tuple<hash_mix, hash_mix2> h2;
    //        upd ptr    with   ord    iter   erase find1  clr unlink
    typedef icaps<1, false, true, false, false, 2, false, 0, true> caps_ck_ord;
    typedef icaps<1, false, false, false, false, 2, false, 0, true> caps_ck_unord;
    typedef icaps<1, false, true, false, false, 2, false, 1, true> caps_st_seq;
    typedef icaps<1, false, false, false, false, 2, false, 1, true> caps_st_assoc;

    template <typename PS, unsigned HC> struct ck {
        typedef ci::cuckoo::node<PS, HC> node;
        typedef BItem<node> base_item; typedef MItem<node> member_item;
        typedef ci::cuckoo::base_hook<ci::cuckoo::probeset_type<PS>, ci::cuckoo::store_hash<HC>> bhook;
        typedef ci::cuckoo::member_hook<offsetof( member_item, hMember ), ci::cuckoo::probeset_type<PS>, ci::cuckoo::store_hash<HC>> mhook;
        struct t_base_unord : ci::cuckoo::traits { typedef bhook hook; typedef h2 hash; typedef item_equal equal_to; typedef idisposer disposer; };
        struct t_base_less : ci::cuckoo::traits { typedef bhook hook; typedef h2 hash; typedef item_less less; typedef idisposer disposer; };
        struct t_base_cmp_stat_ref : ci::cuckoo::traits { typedef bhook hook; typedef h2 hash; typedef item_cmp compare; typedef idisposer disposer;
            typedef ci::cuckoo::stat stat; typedef ci::cuckoo::refinable<> mutex_policy; };
        struct t_member_less : ci::cuckoo::traits { typedef mhook hook; typedef h2 hash; typedef item_less less; typedef idisposer disposer; };
        struct t_member_unord_ref : ci::cuckoo::traits { typedef mhook hook; typedef h2 hash; typedef item_equal equal_to; typedef idisposer disposer; typedef ci::cuckoo::refinable<> mutex_policy; };
    };

    template <typename S, typename Caps, typename Mk> void reg( char const* name, char const* traits )
    {
        add_variant<EnvNone, IntrusiveAdapter<S, EnvNone, Caps, Mk>>( name, 'K', kcfg( true, true, false, 2 ), traits );
    }
#define CK( PS, HC, item, tr ) ci::CuckooSet<ck<PS, HC>::item, ck<PS, HC>::tr>

    typedef BItem<bi::list_base_hook<>> li_b;  typedef MItem<bi::list_member_hook<>> li_m;
    typedef BItem<bi::slist_base_hook<>> sli_b;
    typedef BItem<bi::set_base_hook<>> si_b;   typedef MItem<bi::set_member_hook<>> si_m;
    typedef BItem<bi::avl_set_base_hook<>> avl_b;
    typedef BItem<bi::bs_set_base_hook<>> bs_b;
    typedef BItem<bi::unordered_set_base_hook<>> us_b;
    struct prio { template <typename T> bool operator()( T const& a, T const& b ) const { return hash_mix()( a ) < hash_mix()( b ); } };

    void register_all()
    {
        typedef ci::cuckoo::list L; typedef ci::cuckoo::vector<4> V4; typedef ci::cuckoo::vector<2> V2;
        reg<CK( L, 0, base_item, t_base_unord ), caps_ck_unord, mk0>( "I_CuckooSet_striping_list_base_unordered", "form=intrusive;family=CuckooSet;probeset=list;hook=base;order=unordered(equal_to);mutex=striping;store_hash=off;ctor=default" );
        reg<CK( V4, 0, base_item, t_base_unord ), caps_ck_unord, mk2<32, 4>>( "I_CuckooSet_striping_vector4_base_unordered_32x4", "form=intrusive;family=CuckooSet;probeset=vector<4>;hook=base;order=unordered(equal_to);mutex=striping;ctor=32,4" );
        reg<CK( L, 0, base_item, t_base_less ), caps_ck_ord, mk3<4, 2, 1>>( "I_CuckooSet_striping_list_base_less_4x2x1", "form=intrusive;family=CuckooSet;probeset=list;hook=base;order=less;mutex=striping;ctor=4,2,1" );
        reg<CK( V4, 2, base_item, t_base_less ), caps_ck_ord, mk3<8, 4, 2>>( "I_CuckooSet_striping_vector4_base_less_storehash_8x4x2", "form=intrusive;family=CuckooSet;probeset=vector<4>;hook=base;order=less;mutex=striping;store_hash=on;ctor=8,4,2" );
        reg<CK( L, 2, base_item, t_base_cmp_stat_ref ), caps_ck_ord, mk3<4, 4, 0>>( "I_CuckooSet_refinable_list_base_cmp_stat_storehash_4x4", "form=intrusive;family=CuckooSet;probeset=list;hook=base;order=compare;mutex=refinable;stat=on;store_hash=on;ctor=4,4,0" );
        reg<CK( L, 0, member_item, t_member_less ), caps_ck_ord, mk3<4, 3, 2>>( "I_CuckooSet_striping_list_member_less_4x3x2", "form=intrusive;family=CuckooSet;probeset=list;hook=member;order=less;mutex=striping;ctor=4,3,2" );
        reg<CK( V2, 0, member_item, t_member_unord_ref ), caps_ck_unord, mk2<4, 2>>( "I_CuckooSet_refinable_vector2_member_unordered_4x2", "form=intrusive;family=CuckooSet;probeset=vector<2>;hook=member;order=unordered(equal_to);mutex=refinable;ctor=4,2" );

        reg<ci::StripedSet<bi::list<li_b, bi::constant_time_size<true>>, co::hash<hash_mod<4>>, co::less<item_less>>, caps_st_seq, mk1<4>>(
            "I_StripedSet_boost_list_base_less_hashmod4", "form=intrusive;family=StripedSet;bucket=boost::intrusive::list;hook=base;order=less;hash=mod4(colliding);mutex=striping;ctor=4" );
        reg<ci::StripedSet<bi::list<li_m, bi::member_hook<li_m, bi::list_member_hook<>, &li_m::hMember>, bi::constant_time_size<true>>, co::hash<hash_mix>, co::compare<item_cmp>,
                co::mutex_policy<ci::striped_set::refinable<>>, co::resizing_policy<ci::striped_set::load_factor_resizing<2>>>, caps_st_seq, mk1<2>>(
            "I_StripedSet_boost_list_member_cmp_hashmix_refinable_lf2", "form=intrusive;family=StripedSet;bucket=boost::intrusive::list;hook=member;order=compare;hash=mix;mutex=refinable;resize=load_factor<2>;ctor=2" );
        reg<ci::StripedSet<bi::slist<sli_b, bi::constant_time_size<true>>, co::hash<hash_mix>, co::less<item_less>>, caps_st_seq, mk1<2>>(
            "I_StripedSet_boost_slist_base_less_hashmix", "form=intrusive;family=StripedSet;bucket=boost::intrusive::slist;hook=base;order=less;hash=mix;mutex=striping;ctor=2" );
        reg<ci::StripedSet<bi::set<si_b, bi::compare<item_less>>, co::hash<hash_mod<4>>>, caps_st_assoc, mk1<4>>(
            "I_StripedSet_boost_set_base_hashmod4", "form=intrusive;family=StripedSet;bucket=boost::intrusive::set;hook=base;order=less;hash=mod4(colliding);mutex=striping;ctor=4" );
        reg<ci::StripedSet<bi::set<si_m, bi::member_hook<si_m, bi::set_member_hook<>, &si_m::hMember>, bi::compare<item_less>>, co::hash<hash_mix>,
                co::mutex_policy<ci::striped_set::refinable<>>, co::resizing_policy<ci::striped_set::single_bucket_size_threshold<4>>>, caps_st_assoc, mk1<2>>(
            "I_StripedSet_boost_set_member_hashmix_refinable_sbt4", "form=intrusive;family=StripedSet;bucket=boost::intrusive::set;hook=member;order=less;hash=mix;mutex=refinable;resize=single_bucket_size_threshold<4>;ctor=2" );
        reg<ci::StripedSet<bi::avl_set<avl_b, bi::compare<item_less>>, co::hash<hash_mix>>, caps_st_assoc, mk1<2>>(
            "I_StripedSet_boost_avl_set_base_hashmix", "form=intrusive;family=StripedSet;bucket=boost::intrusive::avl_set;hook=base;order=less;hash=mix;mutex=striping;ctor=2" );
        reg<ci::StripedSet<bi::splay_set<bs_b, bi::compare<item_less>>, co::hash<hash_mix>>, caps_st_assoc, mk1<2>>(
            "I_StripedSet_boost_splay_set_base_hashmix", "form=intrusive;family=StripedSet;bucket=boost::intrusive::splay_set;hook=base;order=less;hash=mix;mutex=striping;ctor=2" );
        reg<ci::StripedSet<bi::sg_set<bs_b, bi::compare<item_less>>, co::hash<hash_mod<4>>>, caps_st_assoc, mk1<4>>(
            "I_StripedSet_boost_sg_set_base_hashmod4", "form=intrusive;family=StripedSet;bucket=boost::intrusive::sg_set;hook=base;order=less;hash=mod4(colliding);mutex=striping;ctor=4" );
        reg<ci::StripedSet<bi::treap_set<bs_b, bi::compare<item_less>, bi::priority<prio>>, co::hash<hash_mix>>, caps_st_assoc, mk1<2>>(
            "I_StripedSet_boost_treap_set_base_hashmix", "form=intrusive;family=StripedSet;bucket=boost::intrusive::treap_set;hook=base;order=less;hash=mix;mutex=striping;ctor=2" );
        reg<ci::StripedSet<bi::unordered_set<us_b, bi::hash<hash_mix2>, bi::equal<item_equal>, bi::power_2_buckets<true>, bi::incremental<true>>, co::hash<hash_mix>>, caps_st_assoc, mk1<2>>(
            "I_StripedSet_boost_unordered_set_base_hashmix", "form=intrusive;family=StripedSet;bucket=boost::intrusive::unordered_set;hook=base;order=unordered(equal_to);hash=mix;mutex=striping;ctor=2" );
    }
}
C20_MAIN( register_all )
