// C04 / C05 harness for cds::urcu::signal_buffered (shb): client programs on the REAL
//   cds::urcu::gc< signal_buffered< Buffer, Lock, Backoff > >     (cds/urcu/details/sh.h, sh_decl.h, sig_buffered.h,
//                                                                  src/urcu_sh.cpp: the signal handler)
// with REAL POSIX signals (pthread_kill( SIGUSR1 ) + the handler installed by the library with sigaction) under the
// deterministic baton scheduler (hook on), with the implementation-side monitors of C04 / C05.
//
// How the signals are made schedulable: hooks/include/khizmax_libcds_verif/sigsched.h (read its head comment).  In short:
// SIGUSR1 is blocked in every worker; a worker that has just obtained the baton at a scheduling point looks whether the
// signal is pending for it and, if so, lets the handler run right there (unblock / block), without giving up the baton,
// and then passes through the scheduler once more; "delivery + handler" is one atomic scheduler step of the target (the
// modelling assumption of LV.Model.RcuSignal, where it is a step of a delivery pseudo thread), the target can be parked
// again between the delivery and its next access, and a run is a deterministic function of (programs, schedule).
// The code of sh.h / sig_buffered.h / urcu_sh.cpp is the code of the working tree, unmodified; everything goes through
// the PUBLIC template parameters:
//   Lock    = PLock: cds::sync::spin_lock<backoff::empty> (a std::mutex held across scheduling points would deadlock
//             the baton scheduler) + director points.
//   Backoff = PBackoff: empty back-off + director points (constructed once per synchronize(), after the epoch fetch_add).
//   Buffer  = cfg[0]: 0 ABuf<VyukovMPMCCycleQueue<epoch_retired_ptr>, not counting>   every buffer operation is ONE
//                     1 ABuf<VyukovMPMCCycleQueue<epoch_retired_ptr, item_counter>>   scheduling point followed by the real
//                       queue operation without scheduling points inside (the abstract atomic FIFO of LV.Model.RcuBuf /
//                       RcuSignal; same access log as harness/C05/main.cpp variants a0 / a1)
//                     2 DBuf<VyukovMPMCCycleQueue<epoch_retired_ptr>>                 the default buffer type, queue
//                     3 DBuf<VyukovMPMCCycleQueue<epoch_retired_ptr, item_counter>>   internals scheduled
// The handler's accesses are logged as accesses of the pseudo thread n (= number of clients), the delivery thread of the
// Coq model.  pthread_kill is not an access.
//
// Client operations and client events: exactly those of harness/C04/rcu_harness.h (= LV.Model.RcuBuf.bop)
//   1 attach | 2 detach | 3 rlock | 4 runlock | 5 synchronize | 6 p retire | 7 p publish | 8 unpublish | 9 touch
//   10 p1..pk batch_retire
// cfg = [ buffer variant; capacity; delivery mode; nseg; (t p k n) * nseg ]
//   delivery mode 0: a pending signal is delivered when the schedule (segments / `sched` line / round-robin) selects the
//                    target thread.
//                 1: prompt delivery: whenever a thread goes round a waiting loop (bkOff()) while records of OTHER live
//                    threads have m_bNeedMemBar set, one schedule entry per such thread is inserted at the current
//                    position of the schedule: each of them takes exactly its delivery step and is parked again (a
//                    writer can then run a whole synchronize() while a reader stays parked between two accesses of
//                    access_lock).  The inserted entries are part of the effective schedule (replayed with mode 0).
//   Director ("run-one-thread-to-a-point-then-switch"): segment (t,p,k,n) = run thread t until it passes point p for the
//   k-th time, then n more atomic accesses of t, then the next segment; p = 0: just n accesses of t.  After the last
//   segment the `sched` line of the case is used, then round-robin.  The schedule that was effectively used is printed
//   (`effsched`) and replays the run with nseg = 0.  Points `raised` (a m_bNeedMemBar.store( true ) + pthread_kill has
//   been executed) and `flipped` (a switch_next_epoch() has been executed) are recognised in the thread's own access log
//   at its next scheduling point; `delivered` = the handler has just run on this thread.
// usage: shb_sched <casefile> [-v]      (-v: print the full access log of every case)
#include <khizmax_libcds_verif/sigsched.h>      // must come first (the program is compiled with -include of this file)
#include <cds/init.h>
#include <cds/urcu/signal_buffered.h>
#include <cds/sync/spinlock.h>
#include <cds/container/vyukov_mpmc_cycle_queue.h>
#include <cds/threading/model.h>
#include <vcase.h>
#include <chrono>
#include <cstring>
#include <map>
#include <mutex>
#include <set>
#include <unistd.h>

#ifndef CDS_URCU_SIGNAL_HANDLING_ENABLED
#   error "signal-handling RCU is not enabled on this platform"
#endif

namespace vs = khizmax_libcds_verif;
typedef cds::urcu::signal_buffered_tag shb_tag;
typedef cds::urcu::details::thread_data<shb_tag> shb_record;

// ---------------------------------------------------------------------------------------------------------------------
// director

enum Point { P_NONE = 0, P_LOCK_ENTER = 1, P_LOCKED = 2, P_SYNC_START = 3, P_WAITING = 4, P_UNLOCK = 5, P_RAISED = 6, P_FLIPPED = 7,
             P_DELIVERED = 8, P_PUSH = 9, P_PUSH_OK = 10, P_PUSH_FULL = 11, P_POP = 12, P_OP_BEGIN = 13, P_IN_SECTION = 14, P_RETIRED = 15,
             P_SYNC_RET = 16, P_LEFT_SECTION = 17, P_BK_RESET = 18, P_DISPOSED = 19, P_COUNT = 20 };
static char const* const point_name[P_COUNT] = { "none", "lock_enter", "locked", "sync_start", "waiting", "unlock", "raised", "flipped",
             "delivered", "push", "push_ok", "push_full", "pop", "op_begin", "in_section", "retired", "sync_ret", "left_section", "bk_reset", "disposed" };

struct Seg { int t, p, k, n; };

struct Director {
    static const int BIG = 400;
    std::vector<Seg> segs; size_t idx = 0; int left = 0;
    std::vector<int> tail;
    long hits[P_COUNT]; long completed = 0;

    void reset( std::vector<Seg> const& s, std::vector<int> const& t )
    {
        segs = s; idx = 0; left = 0; tail = t; completed = 0;
        for ( auto& h : hits ) h = 0;
    }
    // appends the schedule of the segments from idx on, up to and including the first one that waits for a point
    void arm( std::vector<int>& sch )
    {
        while ( idx < segs.size()) {
            Seg const& s = segs[idx];
            if ( s.p == P_NONE ) { sch.insert( sch.end(), (size_t) s.n, s.t ); ++idx; ++completed; continue; }
            left = s.k > 0 ? s.k : 1;
            sch.insert( sch.end(), (size_t) BIG, s.t );
            return;
        }
        sch.insert( sch.end(), tail.begin(), tail.end());
    }
    std::vector<int> initial() { std::vector<int> sch; arm( sch ); return sch; }

    // called by a worker that holds the baton (between two of its atomic accesses); me: the worker's id
    void hit( int p, int me )
    {
        if ( !vs::in_run() && !vs::sig_in_handler()) return;
        if ( vs::S().overrun ) return;
        ++hits[p];
        if ( idx >= segs.size()) return;
        Seg const s = segs[idx];
        if ( s.t != me || s.p != p ) return;
        if ( --left > 0 ) return;
        vs::sched_state& S = vs::S();
        std::unique_lock<std::mutex> lk( S.m );
        fix_prefix( S );
        S.schedule.insert( S.schedule.end(), (size_t) s.n, s.t );
        ++idx; ++completed;
        arm( S.schedule );
    }
    // the part of the schedule that has been used: entries [0, step); an exhausted schedule means entry i = i mod n
    static void fix_prefix( vs::sched_state& S, int n = 0 )
    {
        if ( n <= 0 ) n = S.n;      // (run_go resets S.n at the end of a run: the caller passes n then)
        if ( S.schedule.size() > S.step ) S.schedule.resize( S.step );
        else for ( size_t i = S.schedule.size(); i < S.step && n > 0; ++i ) S.schedule.push_back( (int)( i % (size_t) n ));
    }
};
static Director g_dir;
static inline void hit( int p ) { g_dir.hit( p, vs::my_tid()); }

// ---------------------------------------------------------------------------------------------------------------------
// monitors (a mutex because after a step overrun the workers run free)

struct Obj { long id = 0; int disposed = 0; bool retired = false; std::vector<std::pair<int,long>> old_readers; atomics::atomic<int> payload{ 0 }; };

struct Monitor {
    std::mutex mx;
    std::vector<int> depth; std::vector<long> gen;
    std::map<long, Obj> objs;
    long dispose_inside = 0, sync_inside = 0, touch_disposed = 0, dispose_unretired = 0, dispose_twice = 0;
    long by_client = 0, by_destruct = 0, waits = 0, raised = 0, flips = 0, delivered = 0, delivered_not_first = 0, delivered_detached = 0;
    std::string first;
    bool in_destruct = false;
    std::vector<std::string> hist;
    std::vector<shb_record*> recs;          // every thread record of the singleton of this case, in order of first sight
    std::vector<int> owner;                 // recs[i] is owned by worker owner[i] (-1: by nobody)
    long auto_deliveries = 0;

    void reset( int n )
    {
        depth.assign( n, 0 ); gen.assign( n, 0 ); objs.clear();
        dispose_inside = sync_inside = touch_disposed = dispose_unretired = dispose_twice = 0;
        by_client = by_destruct = waits = raised = flips = delivered = delivered_not_first = delivered_detached = 0;
        first.clear(); in_destruct = false; hist.clear(); recs.clear(); owner.clear(); auto_deliveries = 0;
    }
    std::vector<std::pair<int,long>> inside_now() const
    {
        std::vector<std::pair<int,long>> r;
        for ( size_t t = 0; t < depth.size(); ++t ) if ( depth[t] > 0 ) r.push_back( std::make_pair( (int) t, gen[t] ));
        return r;
    }
    bool still_inside( std::pair<int,long> const& x ) const { return depth[x.first] > 0 && gen[x.first] == x.second; }
    void note( char const* what, long a, long b )
    {
        if ( first.empty()) { char buf[160]; std::snprintf( buf, sizeof( buf ), "%s %ld %ld", what, a, b ); first = buf; }
    }
    // history line; who: worker id, 'M' main thread (Destruct)
    void h( int who_tid, char const* fmt, long a = 0, long b = 0, long c = 0 )
    {
        char who[16], buf[160];
        if ( who_tid >= 0 ) std::snprintf( who, sizeof( who ), "%d", who_tid );
        else std::snprintf( who, sizeof( who ), "M" );
        int k = std::snprintf( buf, sizeof( buf ), "%s ", who );
        std::snprintf( buf + k, sizeof( buf ) - k, fmt, a, b, c );
        hist.push_back( buf );
    }
};
static Monitor g_m;
static bool g_prompt = false;       // delivery mode 1

static void disposer( void* p )
{
    Obj* o = static_cast<Obj*>( p );
    Monitor& m = g_m;
    {
        std::lock_guard<std::mutex> lk( m.mx );
        if ( !o->retired ) { ++m.dispose_unretired; m.note( "dispose_unretired obj", o->id, 0 ); }
        for ( auto const& r : o->old_readers )
            if ( m.still_inside( r )) { ++m.dispose_inside; m.note( "dispose_inside_old_reader obj/reader", o->id, r.first ); }
        if ( ++o->disposed > 1 ) { ++m.dispose_twice; m.note( "disposed_twice obj", o->id, 0 ); }
        if ( m.in_destruct ) ++m.by_destruct; else ++m.by_client;
        m.h( vs::my_tid(), "dispose %ld", o->id );
    }
    vcase::emitf( "dispose %ld", o->id );
    if ( vs::my_tid() >= 0 ) hit( P_DISPOSED );
}

// ---------------------------------------------------------------------------------------------------------------------
// signal delivery call-backs and the log-driven points (see sigsched.h)

// the records of the singleton's thread list in list order (head first); m.mx held
static std::vector<shb_record*> list_order( Monitor& m )
{
    std::vector<shb_record*> r;
    shb_record* head = nullptr;
    for ( shb_record* a : m.recs ) {
        bool pointed = false;
        for ( shb_record* b : m.recs ) if ( b->m_list.next_ == a ) pointed = true;
        if ( !pointed ) head = a;
    }
    for ( shb_record* p = head; p && r.size() <= m.recs.size(); p = p->m_list.next_ ) r.push_back( p );
    return r;
}

static void before_delivery( int me )
{
    // is this thread's record the first record of the list whose flag is set (the one LV.Model.RcuSignal.a_deliver clears)?
    vs::passthrough_scope ps;       // reads of the monitor: not logged
    Monitor& m = g_m;
    std::lock_guard<std::mutex> lk( m.mx );
    shb_record* mine = cds::threading::Manager::isThreadAttached() ? cds::threading::getRCU<shb_tag>() : nullptr;
    long firstpos = -1, mypos = -1, mask = 0, pos = 0;
    for ( shb_record* p : list_order( m )) {
        if ( p == mine ) mypos = pos;
        if ( pos < 60 && p->m_bNeedMemBar.load( atomics::memory_order_relaxed )) { mask |= 1L << pos; if ( firstpos < 0 ) firstpos = pos; }
        ++pos;
    }
    ++m.delivered;
    int cls = mine == nullptr ? 2 : ( mypos == firstpos ? 1 : 0 );
    if ( cls == 2 ) ++m.delivered_detached; else if ( cls == 0 ) ++m.delivered_not_first;
    // class 1: the first flagged record of the list, 0: a later one (or its flag is not set), 2: the thread has no record
    // (detached); then the position of the thread's record in the list (head = 0) and the bit mask of the flagged positions
    m.h( me, "deliver %ld %ld %ld", cls, mypos, mask );
}
static void after_delivery( int me ) { g_dir.hit( P_DELIVERED, me ); }

static thread_local size_t t_log_seen = 0;      // (a worker thread lives for one case)

static void at_point()
{
    vs::sched_state& S = vs::S();
    int me = vs::my_tid();
    size_t n = S.log.size();
    int nflip = 0, nraise = 0;
    for ( size_t i = t_log_seen; i < n; ++i ) {
        char const* l = S.log[i].c_str();
        char* e; long t = std::strtol( l, &e, 10 );
        if ( t != me || *e != ' ' ) continue;
        ++e;
        if ( !std::strncmp( e, "fxor ", 5 )) ++nflip;
        else if ( !std::strncmp( e, "st o", 4 )) {
            char* e2; long oid = std::strtol( e + 4, &e2, 10 );
            if ( std::strcmp( e2, " 1 i1 i1" )) continue;
            std::lock_guard<std::mutex> lk( g_m.mx );
            for ( shb_record* r : g_m.recs ) {
                auto it = S.obj_ids.find( static_cast<void const*>( &r->m_bNeedMemBar ));
                if ( it != S.obj_ids.end() && it->second == oid ) { ++nraise; break; }
            }
        }
    }
    t_log_seen = n;
    if ( nflip || nraise ) { std::lock_guard<std::mutex> lk( g_m.mx ); g_m.flips += nflip; g_m.raised += nraise; }
    for ( int i = 0; i < nraise; ++i ) hit( P_RAISED );
    for ( int i = 0; i < nflip; ++i ) hit( P_FLIPPED );
}

// ---------------------------------------------------------------------------------------------------------------------
// template arguments of signal_buffered

struct PLock {
    cds::sync::spin_lock<cds::backoff::empty> l;
    void lock()   { hit( P_LOCK_ENTER ); l.lock(); hit( P_LOCKED ); }
    void unlock() { hit( P_UNLOCK ); l.unlock(); }
};

// delivery mode 1: the threads (other than the caller) that own a record whose flag is set take their delivery step now
static void prompt_delivery()
{
    std::vector<int> us;
    int me = vs::my_tid();
    {
        vs::passthrough_scope ps;
        std::lock_guard<std::mutex> lk( g_m.mx );
        for ( shb_record* r : list_order( g_m )) {      // in list order: every such delivery clears the first flagged record
            size_t i = 0;
            while ( g_m.recs[i] != r ) ++i;
            if ( g_m.owner[i] >= 0 && g_m.owner[i] != me && r->m_bNeedMemBar.load( atomics::memory_order_relaxed ))
                us.push_back( g_m.owner[i] );
        }
        g_m.auto_deliveries += (long) us.size();
    }
    if ( us.empty()) return;
    vs::sched_state& S = vs::S();
    std::unique_lock<std::mutex> lk( S.m );
    for ( size_t i = S.schedule.size(); i < S.step; ++i ) S.schedule.push_back( (int)( i % (size_t) S.n ));    // (exhausted schedule: entry i = i mod n)
    S.schedule.insert( S.schedule.begin() + S.step, us.begin(), us.end());
}

struct PBackoff {
    PBackoff() { hit( P_SYNC_START ); }
    void operator()()
    {
        if ( vs::in_run()) {
            { std::lock_guard<std::mutex> lk( g_m.mx ); ++g_m.waits; }
            if ( g_prompt ) prompt_delivery();
        }
        hit( P_WAITING );
    }
    void reset() { hit( P_BK_RESET ); }
};

struct counting_traits : public cds::container::vyukov_queue::traits { typedef cds::atomicity::item_counter item_counter; };
typedef cds::container::VyukovMPMCCycleQueue< cds::urcu::epoch_retired_ptr > queue_plain;
typedef cds::container::VyukovMPMCCycleQueue< cds::urcu::epoch_retired_ptr, counting_traits > queue_counting;

// every buffer operation = one scheduling point + the real queue operation without scheduling points inside
template <class Inner, bool Counting>
class ABuf
{
    Inner m_q;
    char m_push, m_pop; mutable char m_size;     // addresses that identify the three operations in the event log
    template <class F> bool step( char const* addr, F f )
    {
        vs::sched_point();
        bool ok;
        { vs::passthrough_scope ps; ok = f(); }
        if ( vs::logging()) vs::log_access( "cas", addr, 0, 0, 0, ok );
        return ok;
    }
public:
    typedef cds::urcu::epoch_retired_ptr value_type;
    ABuf( size_t nCapacity ) : m_q( nCapacity ) {}
    bool push( value_type& v )
    {
        hit( P_PUSH );
        bool ok = step( &m_push, [&] { return m_q.push( v ); } );
        hit( ok ? P_PUSH_OK : P_PUSH_FULL );
        return ok;
    }
    bool pop( value_type& v ) { hit( P_POP ); return step( &m_pop, [&] { return m_q.pop( v ); } ); }
    size_t size() const
    {
        if ( !Counting ) return m_q.size();
        vs::sched_point();
        size_t n;
        { vs::passthrough_scope ps; n = m_q.size(); }
        if ( vs::logging()) vs::log_access( "ld", &m_size, 0, 0, 0, true );
        return n;
    }
};

// the default buffer type, queue internals scheduled
template <class Inner>
class DBuf
{
    Inner m_q;
public:
    typedef cds::urcu::epoch_retired_ptr value_type;
    DBuf( size_t nCapacity ) : m_q( nCapacity ) {}
    bool push( value_type& v )
    {
        hit( P_PUSH );
        bool ok = m_q.push( v );
        hit( ok ? P_PUSH_OK : P_PUSH_FULL );
        return ok;
    }
    bool pop( value_type& v ) { hit( P_POP ); return m_q.pop( v ); }
    size_t size() const { return m_q.size(); }
};

typedef cds::urcu::gc< cds::urcu::signal_buffered< ABuf<queue_plain, false>,   PLock, PBackoff > > rcu_a0;
typedef cds::urcu::gc< cds::urcu::signal_buffered< ABuf<queue_counting, true>, PLock, PBackoff > > rcu_a1;
typedef cds::urcu::gc< cds::urcu::signal_buffered< DBuf<queue_plain>,          PLock, PBackoff > > rcu_d0;
typedef cds::urcu::gc< cds::urcu::signal_buffered< DBuf<queue_counting>,       PLock, PBackoff > > rcu_d1;

// ---------------------------------------------------------------------------------------------------------------------
// clients (operations, skipping rules and client events of harness/C04/rcu_harness.h)

template <class RCU>
struct Client {
    int tid; bool attached = false; int depth = 0;
    atomics::atomic<long>* src;

    static long real_nest()
    {
        vs::passthrough_scope ps;      // not a scheduling point, not logged
        return (long)( cds::threading::getRCU<shb_tag>()->m_nAccessControl.load( atomics::memory_order_relaxed ) & 0x7FFFFFFFu );
    }
    void do_attach()
    {
        cds::threading::Manager::attachThread();
        attached = true;
        {
            Monitor& m = g_m; std::lock_guard<std::mutex> lk( m.mx );
            shb_record* r = cds::threading::getRCU<shb_tag>();
            size_t i = 0;
            while ( i < m.recs.size() && m.recs[i] != r ) ++i;
            if ( i == m.recs.size()) { m.recs.push_back( r ); m.owner.push_back( -1 ); }
            m.owner[i] = tid;
            m.h( tid, "attach" );
        }
        vcase::emitf( "attach" );
    }
    void do_rlock()
    {
        RCU::access_lock();
        {
            Monitor& m = g_m; std::lock_guard<std::mutex> lk( m.mx );
            if ( depth++ == 0 ) ++m.gen[tid];
            m.depth[tid] = depth;
            m.h( tid, "rlock %ld", depth );
        }
        vcase::emitf( "rlock %ld %ld", depth, real_nest());
        if ( depth == 1 ) hit( P_IN_SECTION );
    }
    void do_runlock()
    {
        {
            Monitor& m = g_m; std::lock_guard<std::mutex> lk( m.mx );
            --depth; m.depth[tid] = depth;
            m.h( tid, "runlock %ld", depth );
        }
        vcase::emitf( "runlock %ld", depth );
        RCU::access_unlock();
        vcase::emitf( "runlocked %ld", real_nest());
        if ( depth == 0 ) hit( P_LEFT_SECTION );
    }
    void do_detach()
    {
        {
            Monitor& m = g_m; std::lock_guard<std::mutex> lk( m.mx );
            for ( size_t i = 0; i < m.owner.size(); ++i ) if ( m.owner[i] == tid ) m.owner[i] = -1;
        }
        cds::threading::Manager::detachThread();
        attached = false;
        { Monitor& m = g_m; std::lock_guard<std::mutex> lk( m.mx ); m.h( tid, "detach" ); }
        vcase::emitf( "detach" );
    }
    Obj& obj( long p ) { return g_m.objs.find( p )->second; }     // all objects are created before the run
    void mark_retired( long p )
    {
        {
            Monitor& m = g_m; std::lock_guard<std::mutex> lk( m.mx );
            Obj& o = obj( p );
            o.retired = true; o.old_readers = m.inside_now();
            m.h( tid, "retire %ld", p );
        }
        vcase::emitf( "retire %ld", p );
    }
    void do_sync()
    {
        Monitor& m = g_m;
        std::vector<std::pair<int,long>> old;
        { std::lock_guard<std::mutex> lk( m.mx ); old = m.inside_now(); m.h( tid, "sync_begin" ); }
        vcase::emitf( "sync_begin" );
        RCU::synchronize();
        {
            std::lock_guard<std::mutex> lk( m.mx );
            for ( auto const& r : old ) if ( m.still_inside( r )) { ++m.sync_inside; m.note( "sync_end_inside_old_reader writer/reader", tid, r.first ); }
            m.h( tid, "sync_end" );
        }
        vcase::emitf( "sync_end" );
        hit( P_SYNC_RET );
    }
    void run( std::vector<vcase::op_t> const& ops )
    {
        Monitor& m = g_m;
        for ( auto const& op : ops ) {
            hit( P_OP_BEGIN );
            switch ( op[0] ) {
            case 1: if ( !attached ) do_attach(); break;
            case 2: if ( attached && depth == 0 ) do_detach(); break;
            case 3: if ( attached && (long) depth + 1 < 2147483648L ) do_rlock(); break;
            case 4: if ( attached && depth > 0 ) do_runlock(); break;
            case 5: if ( depth == 0 ) do_sync(); break;
            case 6: if ( depth == 0 && op.size() == 2 ) {
                        mark_retired( op[1] );
                        RCU::retire_ptr( static_cast<void*>( &obj( op[1] )), disposer );
                        hit( P_RETIRED );
                    } break;
            case 7: if ( op.size() == 2 ) src->store( op[1], atomics::memory_order_release ); break;
            case 8: src->store( 0, atomics::memory_order_release ); break;
            case 9: if ( depth > 0 ) {
                      long v = src->load( atomics::memory_order_acquire );
                      if ( v != 0 ) {
                          Obj& o = obj( v );
                          (void) o.payload.load( atomics::memory_order_relaxed );   // the reader uses the object: a second scheduling point
                          {
                              std::lock_guard<std::mutex> lk( m.mx );
                              if ( o.disposed > 0 ) { ++m.touch_disposed; m.note( "touch_disposed obj/reader", v, tid ); }
                              m.h( tid, "touch %ld", v );
                          }
                          vcase::emitf( "touch %ld", v );
                      } } break;
            case 10: if ( depth == 0 && op.size() > 1 ) {
                        std::vector<cds::urcu::retired_ptr> v;
                        for ( size_t i = 1; i < op.size(); ++i ) {
                            mark_retired( op[i] );
                            v.push_back( cds::urcu::retired_ptr( static_cast<void*>( &obj( op[i] )), disposer ));
                        }
                        RCU::batch_retire( v.begin(), v.end());
                        vcase::emitf( "batch_end" );
                        hit( P_RETIRED );
                     } break;
            default: break;
            }
        }
        if ( attached ) {
            while ( depth > 0 ) do_runlock();
            do_detach();
        }
        vcase::emitf( "done" );
    }
};

// ---------------------------------------------------------------------------------------------------------------------
// watchdog: a case that makes no scheduling decision for g_stuck_s seconds is reported as `endcase stuck` and the
// process exits with status 3 (the driver restarts it on the remaining cases and counts the case as inconclusive).
// A case that has exceeded the step limit (the scheduler then lets everybody run free) and is still not over 3 s later
// sits in a waiting loop that does not terminate: it is reported as `endcase fuel` (what the step limit means) and the
// process exits with status 4 (the driver restarts it on the remaining cases).

static std::atomic<long> g_case_no( 0 );
static std::string g_case_id;
static std::mutex g_case_mx;
static int g_stuck_s = 60;

static void watchdog()
{
    long last_case = -1; size_t last_step = 0; int idle = 0, over = 0;
    for ( ;; ) {
        std::this_thread::sleep_for( std::chrono::seconds( 1 ));
        long cn = g_case_no.load(); size_t st = vs::S().step;     // racy read of a progress counter: good enough
        if ( cn == last_case && st == last_step ) ++idle; else idle = 0;
        if ( cn == last_case && vs::S().overrun && vs::S().n > 0 ) ++over; else over = 0;
        last_case = cn; last_step = st;
        if ( over >= 3 ) {
            std::string id; { std::lock_guard<std::mutex> lk( g_case_mx ); id = g_case_id; }
            std::vector<int> eff;
            {
                vs::sched_state& S = vs::S();
                std::unique_lock<std::mutex> lk( S.m );
                Director::fix_prefix( S );
                eff = S.schedule;
            }
            std::printf( "case %s\nendcase fuel\nmonitor abandoned 1\neffsched", id.c_str());
            for ( int e : eff ) std::printf( " %d", e );
            std::printf( "\n" );
            std::fflush( stdout );
            _exit( 4 );
        }
        if ( idle >= g_stuck_s ) {
            std::string id; { std::lock_guard<std::mutex> lk( g_case_mx ); id = g_case_id; }
            std::printf( "case %s\nendcase stuck\n", id.c_str());
            std::fflush( stdout );
            _exit( 3 );
        }
    }
}

// ---------------------------------------------------------------------------------------------------------------------

template <class RCU>
static void run_case( vcase::Case const& c0, bool verbose )
{
    Monitor& m = g_m;
    vcase::Case c = c0;
    int n = (int) c.threads.size();
    size_t cap = c.cfg.size() > 1 ? (size_t) c.cfg[1] : 2;
    g_prompt = c.cfg.size() > 2 && c.cfg[2] == 1;
    std::vector<Seg> segs;
    size_t nseg = c.cfg.size() > 3 ? (size_t) c.cfg[3] : 0;
    for ( size_t i = 0; i < nseg && 4 + 4 * i + 3 < c.cfg.size(); ++i ) {
        Seg s{ (int) c.cfg[4 + 4 * i], (int) c.cfg[5 + 4 * i], (int) c.cfg[6 + 4 * i], (int) c.cfg[7 + 4 * i] };
        if ( s.t < 0 || s.t >= n || s.p < 0 || s.p >= P_COUNT || s.n < 0 || s.n > 100000 ) continue;
        segs.push_back( s );
    }
    g_dir.reset( segs, c0.sched );
    c.sched = g_dir.initial();

    { std::lock_guard<std::mutex> lk( m.mx ); m.reset( n ); }
    // objects are created up front so that std::map nodes never move while the case runs
    for ( auto const& th : c.threads ) for ( auto const& op : th )
        if ( op[0] == 6 || op[0] == 7 || op[0] == 10 ) for ( size_t i = 1; i < op.size(); ++i ) { Obj& o = m.objs[op[i]]; o.id = op[i]; }
    vs::sig_reset_stats();
    vs::SIG().kernel_tid = n;
    RCU* rcu = new RCU( cap );      // Construct: sigaction( SIGUSR1, handler of the library ) + the signal unblocked in this thread
    vs::sig_block();                // blocked again: the workers created below inherit the mask
    atomics::atomic<long> src( 0 );
    vcase::run_workers( c, [&]( int t ) {
        Client<RCU> cl; cl.tid = t; cl.src = &src;
        cl.run( c.threads[t] );
    }, []( int ) { vs::sig_block(); }, nullptr, 60000 );
    bool overrun = vs::S().overrun;
    std::vector<int> eff;
    {
        vs::sched_state& S = vs::S();
        std::unique_lock<std::mutex> lk( S.m );
        Director::fix_prefix( S, n );
        eff = S.schedule;
    }
    size_t steps = vs::S().step;
    std::vector<std::string> log; if ( verbose ) log = vs::S().log;
    size_t before = 0;
    { std::lock_guard<std::mutex> lk( m.mx ); for ( auto const& o : m.objs ) before += o.second.disposed; m.in_destruct = true; }
    delete rcu;         // Destruct( true ): clear_buffer( max ) without a grace period, detach_all, delete; unscheduled
    std::lock_guard<std::mutex> lk( m.mx );
    m.in_destruct = false;
    std::printf( "case %s\n", c.id.c_str());
    for ( auto const& l : log ) { std::fputs( l.c_str(), stdout ); std::fputc( '\n', stdout ); }
    for ( auto const& l : m.hist ) std::printf( "h %s\n", l.c_str());
    std::printf( "endcase %s\n", overrun ? "fuel" : "finished" );
    long not_once = 0, retired = 0, bad = 0;
    size_t after = 0;
    for ( auto const& o : m.objs ) {
        after += o.second.disposed;
        if ( o.second.retired ) { ++retired; if ( o.second.disposed != 1 ) { ++not_once; if ( !bad ) bad = o.first; } }
    }
    std::printf( "monitor dispose_inside_old_reader %ld\n", m.dispose_inside );
    std::printf( "monitor sync_end_inside_old_reader %ld\n", m.sync_inside );
    std::printf( "monitor touch_disposed %ld\n", m.touch_disposed );
    std::printf( "monitor dispose_unretired %ld\n", m.dispose_unretired );
    std::printf( "monitor disposed_twice %ld\n", m.dispose_twice );
    std::printf( "monitor not_disposed_exactly_once %ld %ld\n", not_once, bad );
    std::printf( "monitor retired %ld disposed_at_destruct %ld\n", retired, (long)( after - before ));
    std::printf( "monitor disposed_by client %ld destruct %ld waits %ld steps %ld segs %ld %ld\n",
                 m.by_client, m.by_destruct, m.waits, (long) steps, g_dir.completed, (long) g_dir.segs.size());
    std::printf( "monitor signals raised %ld delivered %ld not_first %ld detached %ld still_pending %ld flips %ld prompt %ld\n",
                 m.raised, m.delivered, m.delivered_not_first, m.delivered_detached, vs::SIG().not_delivered, m.flips, m.auto_deliveries );
    std::printf( "monitor points" );
    for ( int p = 1; p < P_COUNT; ++p ) std::printf( " %s %ld", point_name[p], g_dir.hits[p] );
    std::printf( "\n" );
    if ( !m.first.empty()) std::printf( "monitor first %s\n", m.first.c_str());
    std::printf( "effsched" );
    for ( int e : eff ) std::printf( " %d", e );
    std::printf( "\n" );
    std::fflush( stdout );
}

int main( int argc, char** argv )
{
    if ( argc < 2 ) { std::fprintf( stderr, "usage: %s casefile [-v]\n", argv[0] ); return 2; }
    bool verbose = argc > 2 && !std::strcmp( argv[2], "-v" );
    if ( char const* e = std::getenv( "SHB_SCHED_STUCK_S" )) { int v = std::atoi( e ); if ( v > 0 ) g_stuck_s = v; }
    cds::Initialize();
    vs::sig_install( SIGUSR1 );         // signal_buffered's default signal (the constructor argument nSignal)
    vs::SIG().at_point = at_point;
    vs::SIG().before_delivery = before_delivery;
    vs::SIG().after_delivery = after_delivery;
    std::thread( watchdog ).detach();
    std::ifstream in( argv[1] );
    vcase::Case c;
    while ( vcase::read_case( in, c )) {
        { std::lock_guard<std::mutex> lk( g_case_mx ); g_case_id = c.id; }
        g_case_no.fetch_add( 1 );
        long variant = c.cfg.empty() ? 0 : c.cfg[0];
        if ( variant == 1 ) run_case<rcu_a1>( c, verbose );
        else if ( variant == 2 ) run_case<rcu_d0>( c, verbose );
        else if ( variant == 3 ) run_case<rcu_d1>( c, verbose );
        else run_case<rcu_a0>( c, verbose );
    }
    std::fflush( stdout );
    _exit( 0 );     // (the detached watchdog thread must not outlive static destruction)
}
