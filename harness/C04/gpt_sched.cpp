// C04 / C05 harness for cds::urcu::general_threaded (gpt): client programs on the REAL
//   cds::urcu::gc< general_threaded< Buffer, Lock, DisposerThread, Backoff > >
// under the deterministic baton scheduler (hook on), with the implementation-side monitors of C04 / C05.
// Monitors only: there is no step correspondence with a Coq model here.
//
// How gpt is made schedulable (everything goes through the PUBLIC template parameters of general_threaded, the code of
// cds/urcu/details/gpt.h, gp.h, base.h and cds/urcu/dispose_thread.h is the code of the working tree, unmodified):
//   Lock           = PLock: cds::sync::spin_lock<backoff::empty> (a std::mutex held across scheduling points would
//                    deadlock the baton scheduler) + director points.
//   Backoff        = PBackoff: empty back-off + director points (constructed once per flip_and_wait()).
//   DisposerThread = PDisposer<Buffer>: owns a REAL cds::urcu::dispose_thread<Buffer> and forwards start / stop /
//                    dispose to it.  dispose_thread::dispose() stores to the atomic m_pBuffer while it holds the
//                    std::mutex m_Mutex: under the hook that store is a scheduling point, a client parked there would
//                    keep m_Mutex and the next client calling dispose() would block on it while holding the baton
//                    (deadlock of the harness, not of libcds).  PDisposer therefore runs the body of dispose() inside a
//                    passthrough_scope (non-preemptible for the scheduler) and puts ONE explicit scheduling point in
//                    front of it (the window between the end of the grace period and the hand-off).
//                    The reclamation thread itself (std::thread created by dispose_thread::start) is not a worker of
//                    the scheduler: it passes straight through every scheduling point and runs freely.
//                    cfg[2] = 0: every hand-off is made synchronous (bSync forced to true): the reclamation thread then
//                    only runs while the calling client holds the baton and waits for it, and a run is a deterministic
//                    function of (programs, schedule).  cfg[2] = 1: bSync as the code asks (synchronize(): false,
//                    force_dispose(): true): the reclamation thread frees concurrently with the clients; the clients'
//                    interleaving is still decided by the schedule, the instant of each disposal is not.
//                    cfg[2] also carries the STALL mode of the buffer's pop_front() (called by the reclamation thread
//                    only; used with the free-running hand-off): cfg[2] = mode | stall << 1 | N << 3,
//                    stall = 1: after the real pop_front() the reclamation thread waits - real time, bounded: until the
//                    scheduler has taken N further decisions, or no client can take one (all finished / one of them is
//                    itself waiting for the reclamation thread), or 3 ms, whichever comes first - so that the clients'
//                    pushes can fall into the window between the pop of a cell and what dispose_buffer() does next;
//                    stall = 2: the same wait BEFORE the real pop_front() (window between free and pop).
//                    A stall only delays the reclamation thread; it never blocks for more than 3 ms per pop.
//   Buffer         = cfg[0]: 0 ABuf<VyukovMPSCCycleQueue<epoch_retired_ptr>>            (push = one atomic step)
//                            1 ABuf<VyukovMPSCCycleQueue<epoch_retired_ptr, counting>>  (push = one atomic step, size() counts)
//                            2 DBuf<VyukovMPSCCycleQueue<epoch_retired_ptr>>            (queue internals scheduled)
//                    The consumer side of the Vyukov queue (front()) SPINS while a producer sits between its claim CAS
//                    and its sequence store; a client that waits for the reclamation thread while holding the baton
//                    would then wait for ever for a parked producer.  ABuf executes a push without scheduling points
//                    inside; DBuf counts pushes in flight and PDisposer lets other workers run until that count is 0
//                    before it hands off (restriction of the explored schedules, stated in the evidence).
//
// Client operations (same numbering as harness/C04/rcu_harness.h):
//   1 attach | 2 detach | 3 rlock | 4 runlock | 5 synchronize | 6 p retire | 7 p publish | 8 unpublish | 9 touch
//   10 p1..pk batch_retire | 11 force_dispose
// cfg = [ buffer variant; capacity; handoff mode | pop stall << 1 | stall decisions << 3; nseg; (t p k n) * nseg ]
//   Director ("run-one-thread-to-a-point-then-switch"): segment (t,p,k,n) = run thread t until it passes point p for the
//   k-th time, then n more atomic accesses of t, then the next segment; p = 0: just n accesses of t.  After the last
//   segment the `sched` line of the case is used, then round-robin.  The director only rewrites the not-yet-used part of
//   the scheduler's schedule vector; the schedule that was effectively used is printed (`effsched`) and replays the run
//   with nseg = 0.
// usage: gpt_sched <casefile> [-v]      (-v: print the full access log of every case)
#include <cds/init.h>
#include <cds/urcu/general_threaded.h>
#include <cds/sync/spinlock.h>
#include <cds/container/vyukov_mpmc_cycle_queue.h>
#include <cds/threading/model.h>
#include <vcase.h>
#include <chrono>
#include <cstring>
#include <map>
#include <mutex>
#include <unistd.h>

namespace vs = khizmax_libcds_verif;

// ---------------------------------------------------------------------------------------------------------------------
// director

enum Point { P_NONE = 0, P_LOCK_ENTER = 1, P_LOCKED = 2, P_FLIP_BEGIN = 3, P_WAITING = 4, P_UNLOCK = 5, P_DISPOSE_CALL = 6,
             P_DISPOSE_RET = 7, P_PUSH = 8, P_PUSH_OK = 9, P_PUSH_FULL = 10, P_OP_BEGIN = 11, P_IN_SECTION = 12, P_RETIRED = 13,
             P_SYNC_RET = 14, P_UNLOCKED_SECTION = 15, P_COUNT = 16 };
static char const* const point_name[P_COUNT] = { "none", "lock_enter", "locked", "flip_begin", "waiting", "unlock", "dispose_call",
             "dispose_ret", "push", "push_ok", "push_full", "op_begin", "in_section", "retired", "sync_ret", "left_section" };

struct Seg { int t, p, k, n; };

struct Director {
    static const int BIG = 400;
    std::vector<Seg> segs; size_t idx = 0; int left = 0;
    std::vector<int> tail;
    long hits[P_COUNT]; long completed = 0;

    void reset( std::vector<Seg> const& s, std::vector<int> const& t )
    {
        segs = s; idx = 0; left = 0; tail = t; completed = 0;
        for ( auto& h : hits ) h = 0;
    }
    // appends the schedule of the segments from idx on, up to and including the first one that waits for a point
    void arm( std::vector<int>& sch )
    {
        while ( idx < segs.size()) {
            Seg const& s = segs[idx];
            if ( s.p == P_NONE ) { sch.insert( sch.end(), (size_t) s.n, s.t ); ++idx; ++completed; continue; }
            left = s.k > 0 ? s.k : 1;
            sch.insert( sch.end(), (size_t) BIG, s.t );
            return;
        }
        sch.insert( sch.end(), tail.begin(), tail.end());
    }
    std::vector<int> initial() { std::vector<int> sch; arm( sch ); return sch; }

    // called by a worker that holds the baton (between two of its atomic accesses)
    void hit( int p )
    {
        if ( !vs::in_run()) return;
        ++hits[p];
        if ( idx >= segs.size()) return;
        Seg const s = segs[idx];
        if ( s.t != vs::my_tid() || s.p != p ) return;
        if ( --left > 0 ) return;
        vs::sched_state& S = vs::S();
        std::unique_lock<std::mutex> lk( S.m );
        fix_prefix( S );
        S.schedule.insert( S.schedule.end(), (size_t) s.n, s.t );
        ++idx; ++completed;
        arm( S.schedule );
    }
    // the part of the schedule that has been used: entries [0, step); an exhausted schedule means entry i = i mod n
    static void fix_prefix( vs::sched_state& S, int n = 0 )
    {
        if ( n <= 0 ) n = S.n;      // (run_go resets S.n at the end of a run: the caller passes n then)
        if ( S.schedule.size() > S.step ) S.schedule.resize( S.step );
        else for ( size_t i = S.schedule.size(); i < S.step && n > 0; ++i ) S.schedule.push_back( (int)( i % (size_t) n ));
    }
};
static Director g_dir;
static inline void hit( int p ) { g_dir.hit( p ); }

// ---------------------------------------------------------------------------------------------------------------------
// monitors (thread-safe: the reclamation thread calls the disposer concurrently with the workers)

struct Obj { long id = 0; int disposed = 0; bool retired = false; std::vector<std::pair<int,long>> old_readers; atomics::atomic<int> payload{ 0 }; };

struct Monitor {
    std::mutex mx;
    std::vector<int> depth; std::vector<long> gen;
    std::map<long, Obj> objs;
    long dispose_inside = 0, sync_inside = 0, touch_disposed = 0, dispose_unretired = 0, dispose_twice = 0;
    long by_thread = 0, by_client = 0, by_destruct = 0, handoffs = 0, waits = 0;
    std::string first;
    bool in_destruct = false;
    std::vector<std::string> hist;

    void reset( int n )
    {
        depth.assign( n, 0 ); gen.assign( n, 0 ); objs.clear();
        dispose_inside = sync_inside = touch_disposed = dispose_unretired = dispose_twice = 0;
        by_thread = by_client = by_destruct = handoffs = waits = 0;
        first.clear(); in_destruct = false; hist.clear();
    }
    std::vector<std::pair<int,long>> inside_now() const
    {
        std::vector<std::pair<int,long>> r;
        for ( size_t t = 0; t < depth.size(); ++t ) if ( depth[t] > 0 ) r.push_back( std::make_pair( (int) t, gen[t] ));
        return r;
    }
    bool still_inside( std::pair<int,long> const& x ) const { return depth[x.first] > 0 && gen[x.first] == x.second; }
    void note( char const* what, long a, long b )
    {
        if ( first.empty()) { char buf[160]; std::snprintf( buf, sizeof( buf ), "%s %ld %ld", what, a, b ); first = buf; }
    }
    // history line; who: worker id, 'D' reclamation thread, 'M' main thread (Destruct)
    void h( char const* fmt, long a = 0, long b = 0, long c = 0 )
    {
        char who[16], buf[160];
        if ( vs::my_tid() >= 0 ) std::snprintf( who, sizeof( who ), "%d", vs::my_tid());
        else std::snprintf( who, sizeof( who ), "%s", in_destruct ? "M" : "D" );
        int k = std::snprintf( buf, sizeof( buf ), "%s ", who );
        std::snprintf( buf + k, sizeof( buf ) - k, fmt, a, b, c );
        hist.push_back( buf );
    }
};
static Monitor g_m;
static bool g_force_sync = true;

static void disposer( void* p )
{
    Obj* o = static_cast<Obj*>( p );
    Monitor& m = g_m;
    std::lock_guard<std::mutex> lk( m.mx );
    if ( !o->retired ) { ++m.dispose_unretired; m.note( "dispose_unretired obj", o->id, 0 ); }
    for ( auto const& r : o->old_readers )
        if ( m.still_inside( r )) { ++m.dispose_inside; m.note( "dispose_inside_old_reader obj/reader", o->id, r.first ); }
    if ( ++o->disposed > 1 ) { ++m.dispose_twice; m.note( "disposed_twice obj", o->id, 0 ); }
    if ( vs::my_tid() >= 0 ) ++m.by_client; else if ( m.in_destruct ) ++m.by_destruct; else ++m.by_thread;
    m.h( "dispose %ld", o->id );
}

// ---------------------------------------------------------------------------------------------------------------------
// template arguments of general_threaded

struct PLock {
    cds::sync::spin_lock<cds::backoff::empty> l;
    void lock()   { hit( P_LOCK_ENTER ); l.lock(); hit( P_LOCKED ); }
    void unlock() { hit( P_UNLOCK ); l.unlock(); }
};

struct PBackoff {
    PBackoff() { hit( P_FLIP_BEGIN ); }
    void operator()() { if ( vs::in_run()) { std::lock_guard<std::mutex> lk( g_m.mx ); ++g_m.waits; } hit( P_WAITING ); }
    void reset() {}
};

static std::atomic<int> g_push_inflight( 0 );

// stall mode of pop_front() (see the header comment)
static std::atomic<int>  g_stall_mode( 0 );
static std::atomic<long> g_stall_n( 0 );
static std::atomic<bool> g_run_active( false );     // between the start of the workers and the end of the scheduled run
static std::atomic<int>  g_in_handoff( 0 );         // a client is inside dispose_thread::dispose() (it holds the baton)
static std::atomic<long> g_stalls( 0 ), g_stall_full( 0 ), g_stall_timeouts( 0 );

static void stall_reclamation_thread()
{
    if ( vs::my_tid() >= 0 || !g_run_active.load()) return;     // reclamation thread only, never at Destruct
    long const n = g_stall_n.load();
    vs::sched_state& S = vs::S();
    size_t start;
    { std::unique_lock<std::mutex> lk( S.m ); start = S.step; }
    auto t0 = std::chrono::steady_clock::now();
    g_stalls.fetch_add( 1 );
    for ( ;; ) {
        if ( !g_run_active.load() || g_in_handoff.load() > 0 ) return;
        {
            std::unique_lock<std::mutex> lk( S.m );
            if ( S.n == 0 || S.nfinished == S.n || S.overrun ) return;
            if ( S.step >= start + (size_t) n ) { g_stall_full.fetch_add( 1 ); return; }
        }
        if ( std::chrono::steady_clock::now() - t0 > std::chrono::milliseconds( 3 )) { g_stall_timeouts.fetch_add( 1 ); return; }
        std::this_thread::yield();
    }
}
static inline bool stalled_pop( std::function<bool()> pop )
{
    int mode = g_stall_mode.load();
    if ( mode == 2 ) stall_reclamation_thread();
    bool r = pop();
    if ( mode == 1 ) stall_reclamation_thread();
    return r;
}

struct counting_traits : public cds::container::vyukov_queue::traits { typedef cds::atomicity::item_counter item_counter; };
typedef cds::container::VyukovMPSCCycleQueue< cds::urcu::epoch_retired_ptr > queue_plain;
typedef cds::container::VyukovMPSCCycleQueue< cds::urcu::epoch_retired_ptr, counting_traits > queue_counting;

// push = one scheduling point + the real queue operation without scheduling points inside
template <class Inner>
class ABuf
{
    Inner m_q; char m_tag;
public:
    typedef cds::urcu::epoch_retired_ptr value_type;
    ABuf( size_t nCapacity ) : m_q( nCapacity ) {}
    bool push( value_type& v )
    {
        hit( P_PUSH );
        vs::sched_point();
        bool ok;
        { vs::passthrough_scope ps; ok = m_q.push( v ); }
        if ( vs::logging()) vs::log_access( "cas", &m_tag, 0, 0, 0, ok );
        hit( ok ? P_PUSH_OK : P_PUSH_FULL );
        return ok;
    }
    value_type* front() { return m_q.front(); }
    bool pop_front()    { return stalled_pop( [this] { return m_q.pop_front(); } ); }
    size_t size() const { return m_q.size(); }
};

// the default buffer type, queue internals scheduled
template <class Inner>
class DBuf
{
    Inner m_q;
public:
    typedef cds::urcu::epoch_retired_ptr value_type;
    DBuf( size_t nCapacity ) : m_q( nCapacity ) {}
    bool push( value_type& v )
    {
        hit( P_PUSH );
        g_push_inflight.fetch_add( 1 );
        bool ok = m_q.push( v );
        g_push_inflight.fetch_sub( 1 );
        hit( ok ? P_PUSH_OK : P_PUSH_FULL );
        return ok;
    }
    value_type* front() { return m_q.front(); }
    bool pop_front()    { return stalled_pop( [this] { return m_q.pop_front(); } ); }
    size_t size() const { return m_q.size(); }
};

template <class Buffer>
class PDisposer
{
    cds::urcu::dispose_thread<Buffer> m_d;
    char m_tag;
public:
    typedef Buffer buffer_type;
    void start() { m_d.start(); }
    void stop( Buffer& buf, uint64_t nCurEpoch ) { m_d.stop( buf, nCurEpoch ); }
    void dispose( Buffer& buf, uint64_t nCurEpoch, bool bSync )
    {
        hit( P_DISPOSE_CALL );
        vs::sched_point();      // the window between the end of the grace period and the hand-off
        if ( vs::logging()) vs::log_access( "ld", &m_tag, 0, 0, 0, true );
        while ( vs::in_run() && g_push_inflight.load() > 0 )
            vs::sched_point();  // DBuf only: never wait for the reclamation thread while a producer is parked inside push
        {
            vs::passthrough_scope ps;
            { std::lock_guard<std::mutex> lk( g_m.mx ); ++g_m.handoffs; g_m.h( "handoff %ld %ld", (long) nCurEpoch, bSync ? 1 : 0 ); }
            g_in_handoff.fetch_add( 1 );
            m_d.dispose( buf, nCurEpoch, bSync || g_force_sync );
            g_in_handoff.fetch_sub( 1 );
        }
        hit( P_DISPOSE_RET );
    }
};

typedef cds::urcu::gc< cds::urcu::general_threaded< ABuf<queue_plain>,    PLock, PDisposer< ABuf<queue_plain> >,    PBackoff > > rcu_a0;
typedef cds::urcu::gc< cds::urcu::general_threaded< ABuf<queue_counting>, PLock, PDisposer< ABuf<queue_counting> >, PBackoff > > rcu_a1;
typedef cds::urcu::gc< cds::urcu::general_threaded< DBuf<queue_plain>,    PLock, PDisposer< DBuf<queue_plain> >,    PBackoff > > rcu_d0;

// ---------------------------------------------------------------------------------------------------------------------
// clients

template <class RCU>
struct Client {
    int tid; bool attached = false; int depth = 0;
    atomics::atomic<long>* src;

    void do_rlock()
    {
        RCU::access_lock();
        {
            Monitor& m = g_m; std::lock_guard<std::mutex> lk( m.mx );
            if ( depth++ == 0 ) ++m.gen[tid];
            m.depth[tid] = depth;
            m.h( "rlock %ld", depth );
        }
        vcase::emitf( "rlock %ld", depth );
        if ( depth == 1 ) hit( P_IN_SECTION );
    }
    void do_runlock()
    {
        {
            Monitor& m = g_m; std::lock_guard<std::mutex> lk( m.mx );
            --depth; m.depth[tid] = depth;
            m.h( "runlock %ld", depth );
        }
        vcase::emitf( "runlock %ld", depth );
        RCU::access_unlock();
        if ( depth == 0 ) hit( P_UNLOCKED_SECTION );
    }
    void do_detach()
    {
        cds::threading::Manager::detachThread();
        attached = false;
        vcase::emitf( "detach" );
    }
    Obj& obj( long p ) { return g_m.objs.find( p )->second; }     // all objects are created before the run
    void mark_retired( long p )
    {
        Monitor& m = g_m; std::lock_guard<std::mutex> lk( m.mx );
        Obj& o = obj( p );
        o.retired = true; o.old_readers = m.inside_now();
        m.h( "retire %ld", p );
        vcase::emitf( "retire %ld", p );
    }
    void do_sync( bool force )
    {
        Monitor& m = g_m;
        std::vector<std::pair<int,long>> old;
        { std::lock_guard<std::mutex> lk( m.mx ); old = m.inside_now(); m.h( force ? "force_begin" : "sync_begin" ); }
        vcase::emitf( "sync_begin" );
        if ( force ) RCU::force_dispose(); else RCU::synchronize();
        {
            std::lock_guard<std::mutex> lk( m.mx );
            for ( auto const& r : old ) if ( m.still_inside( r )) { ++m.sync_inside; m.note( "sync_end_inside_old_reader writer/reader", tid, r.first ); }
            m.h( "sync_end" );
        }
        vcase::emitf( "sync_end" );
        hit( P_SYNC_RET );
    }
    void run( std::vector<vcase::op_t> const& ops )
    {
        Monitor& m = g_m;
        for ( auto const& op : ops ) {
            hit( P_OP_BEGIN );
            switch ( op[0] ) {
            case 1: if ( !attached ) { cds::threading::Manager::attachThread(); attached = true; vcase::emitf( "attach" ); } break;
            case 2: if ( attached && depth == 0 ) do_detach(); break;
            case 3: if ( attached && depth < 1000 ) do_rlock(); break;
            case 4: if ( attached && depth > 0 ) do_runlock(); break;
            case 5: if ( depth == 0 ) do_sync( false ); break;
            case 11: if ( depth == 0 ) do_sync( true ); break;
            case 6: if ( depth == 0 && op.size() == 2 ) {
                        mark_retired( op[1] );
                        RCU::retire_ptr( static_cast<void*>( &obj( op[1] )), disposer );
                        hit( P_RETIRED );
                    } break;
            case 7: if ( op.size() == 2 ) src->store( op[1], atomics::memory_order_release ); break;
            case 8: src->store( 0, atomics::memory_order_release ); break;
            case 9: if ( depth > 0 ) {
                      long v = src->load( atomics::memory_order_acquire );
                      if ( v != 0 ) {
                          Obj& o = obj( v );
                          (void) o.payload.load( atomics::memory_order_relaxed );   // the reader uses the object: a second scheduling point
                          std::lock_guard<std::mutex> lk( m.mx );
                          if ( o.disposed > 0 ) { ++m.touch_disposed; m.note( "touch_disposed obj/reader", v, tid ); }
                          m.h( "touch %ld", v );
                          vcase::emitf( "touch %ld", v );
                      } } break;
            case 10: if ( depth == 0 && op.size() > 1 ) {
                        std::vector<cds::urcu::retired_ptr> v;
                        for ( size_t i = 1; i < op.size(); ++i ) {
                            mark_retired( op[i] );
                            v.push_back( cds::urcu::retired_ptr( static_cast<void*>( &obj( op[i] )), disposer ));
                        }
                        RCU::batch_retire( v.begin(), v.end());
                        hit( P_RETIRED );
                     } break;
            default: break;
            }
        }
        if ( attached ) {
            while ( depth > 0 ) do_runlock();
            do_detach();
        }
    }
};

// ---------------------------------------------------------------------------------------------------------------------
// watchdog: a case that makes no scheduling decision for g_stuck_s seconds is reported as `endcase stuck` and the
// process exits with status 3 (the driver restarts it on the remaining cases and counts the case as inconclusive)

static std::atomic<long> g_case_no( 0 );
static std::string g_case_id;
static std::mutex g_case_mx;
static int g_stuck_s = 60;

static void watchdog()
{
    long last_case = -1; size_t last_step = 0; int idle = 0;
    for ( ;; ) {
        std::this_thread::sleep_for( std::chrono::seconds( 1 ));
        long cn = g_case_no.load(); size_t st = vs::S().step;     // racy read of a progress counter: good enough
        if ( cn == last_case && st == last_step ) ++idle; else idle = 0;
        last_case = cn; last_step = st;
        if ( idle >= g_stuck_s ) {
            std::string id; { std::lock_guard<std::mutex> lk( g_case_mx ); id = g_case_id; }
            std::printf( "case %s\nendcase stuck\n", id.c_str());
            std::fflush( stdout );
            _exit( 3 );
        }
    }
}

// ---------------------------------------------------------------------------------------------------------------------

template <class RCU>
static void run_case( vcase::Case const& c0, bool verbose )
{
    Monitor& m = g_m;
    vcase::Case c = c0;
    int n = (int) c.threads.size();
    size_t cap = c.cfg.size() > 1 ? (size_t) c.cfg[1] : 2;
    long const mode = c.cfg.size() > 2 ? c.cfg[2] : 0;
    g_force_sync = ( mode & 1 ) == 0;
    g_stall_mode.store( (int)(( mode >> 1 ) & 3 )); g_stall_n.store( mode >> 3 );
    g_stalls.store( 0 ); g_stall_full.store( 0 ); g_stall_timeouts.store( 0 ); g_in_handoff.store( 0 );
    std::vector<Seg> segs;
    size_t nseg = c.cfg.size() > 3 ? (size_t) c.cfg[3] : 0;
    for ( size_t i = 0; i < nseg && 4 + 4 * i + 3 < c.cfg.size(); ++i ) {
        Seg s{ (int) c.cfg[4 + 4 * i], (int) c.cfg[5 + 4 * i], (int) c.cfg[6 + 4 * i], (int) c.cfg[7 + 4 * i] };
        if ( s.t < 0 || s.t >= n || s.p < 0 || s.p >= P_COUNT || s.n < 0 || s.n > 100000 ) continue;
        segs.push_back( s );
    }
    g_dir.reset( segs, c0.sched );
    c.sched = g_dir.initial();

    { std::lock_guard<std::mutex> lk( m.mx ); m.reset( n ); }
    // objects are created up front so that std::map nodes never move while the case runs
    for ( auto const& th : c.threads ) for ( auto const& op : th )
        if ( op[0] == 6 || op[0] == 7 || op[0] == 10 ) for ( size_t i = 1; i < op.size(); ++i ) { Obj& o = m.objs[op[i]]; o.id = op[i]; }
    g_push_inflight.store( 0 );
    RCU* rcu = new RCU( cap );
    atomics::atomic<long> src( 0 );
    g_run_active.store( true );
    vcase::run_workers( c, [&]( int t ) {
        Client<RCU> cl; cl.tid = t; cl.src = &src;
        cl.run( c.threads[t] );
    }, nullptr, nullptr, 60000 );
    g_run_active.store( false );
    bool overrun = vs::S().overrun;
    std::vector<int> eff;
    {
        vs::sched_state& S = vs::S();
        std::unique_lock<std::mutex> lk( S.m );
        Director::fix_prefix( S, n );
        eff = S.schedule;
    }
    size_t steps = vs::S().step;
    std::vector<std::string> log; if ( verbose ) log = vs::S().log;
    size_t before = 0;
    { std::lock_guard<std::mutex> lk( m.mx ); for ( auto const& o : m.objs ) before += o.second.disposed; m.in_destruct = true; }
    delete rcu;         // Destruct: stop( buffer, max epoch ) + join of the reclamation thread, unscheduled
    std::lock_guard<std::mutex> lk( m.mx );
    m.in_destruct = false;
    std::printf( "case %s\n", c.id.c_str());
    for ( auto const& l : log ) { std::fputs( l.c_str(), stdout ); std::fputc( '\n', stdout ); }
    for ( auto const& l : m.hist ) std::printf( "h %s\n", l.c_str());
    std::printf( "endcase %s\n", overrun ? "fuel" : "finished" );
    long not_once = 0, retired = 0, bad = 0;
    size_t after = 0;
    for ( auto const& o : m.objs ) {
        after += o.second.disposed;
        if ( o.second.retired ) { ++retired; if ( o.second.disposed != 1 ) { ++not_once; if ( !bad ) bad = o.first; } }
    }
    std::printf( "monitor dispose_inside_old_reader %ld\n", m.dispose_inside );
    std::printf( "monitor sync_end_inside_old_reader %ld\n", m.sync_inside );
    std::printf( "monitor touch_disposed %ld\n", m.touch_disposed );
    std::printf( "monitor dispose_unretired %ld\n", m.dispose_unretired );
    std::printf( "monitor disposed_twice %ld\n", m.dispose_twice );
    std::printf( "monitor not_disposed_exactly_once %ld %ld\n", not_once, bad );
    std::printf( "monitor retired %ld disposed_at_destruct %ld\n", retired, (long)( after - before ));
    std::printf( "monitor disposed_by thread %ld client %ld destruct %ld handoffs %ld waits %ld steps %ld segs %ld %ld\n",
                 m.by_thread, m.by_client, m.by_destruct, m.handoffs, m.waits, (long) steps, g_dir.completed, (long) g_dir.segs.size());
    std::printf( "monitor stalls %ld full %ld timeouts %ld\n", g_stalls.load(), g_stall_full.load(), g_stall_timeouts.load());
    std::printf( "monitor points" );
    for ( int p = 1; p < P_COUNT; ++p ) std::printf( " %s %ld", point_name[p], g_dir.hits[p] );
    std::printf( "\n" );
    if ( !m.first.empty()) std::printf( "monitor first %s\n", m.first.c_str());
    std::printf( "effsched" );
    for ( int e : eff ) std::printf( " %d", e );
    std::printf( "\n" );
    std::fflush( stdout );
}

int main( int argc, char** argv )
{
    if ( argc < 2 ) { std::fprintf( stderr, "usage: %s casefile [-v]\n", argv[0] ); return 2; }
    bool verbose = argc > 2 && !std::strcmp( argv[2], "-v" );
    if ( char const* e = std::getenv( "GPT_SCHED_STUCK_S" )) { int v = std::atoi( e ); if ( v > 0 ) g_stuck_s = v; }
    cds::Initialize();
    std::thread( watchdog ).detach();
    std::ifstream in( argv[1] );
    vcase::Case c;
    while ( vcase::read_case( in, c )) {
        { std::lock_guard<std::mutex> lk( g_case_mx ); g_case_id = c.id; }
        g_case_no.fetch_add( 1 );
        long variant = c.cfg.empty() ? 0 : c.cfg[0];
        if ( variant == 1 ) run_case<rcu_a1>( c, verbose );
        else if ( variant == 2 ) run_case<rcu_d0>( c, verbose );
        else run_case<rcu_a0>( c, verbose );
    }
    std::fflush( stdout );
    _exit( 0 );     // (the detached watchdog thread must not outlive static destruction)
}
