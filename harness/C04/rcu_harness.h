// Shared by harness/C04 (general_instant) and harness/C05 (general_buffered): runs client programs on a real
// cds::urcu::gc<...> object under the deterministic scheduler, prints the event log (format: ocaml/conc_main.ml)
// and the verdict of the implementation-side monitors of properties C04 / C05.
//
// Client operations (identical to LV.Model.RcuGp.op / LV.Model.RcuBuf.op):
//   1 attach | 2 detach | 3 rlock | 4 runlock | 5 sync | 6 p retire | 7 p publish | 8 unpublish
//   9 touch (inside a section: v = src; if v: read obj[v].payload; a disposed obj[v] is a violation)
//   10 p1 .. pk batch_retire
// Operations the client contract forbids (rlock when detached, runlock at depth 0, synchronize/retire inside a
// read-side section, detach inside a section) are skipped, exactly as in the model.
// The RCU object is constructed before and destructed after every case (outside the scheduled region).
#ifndef VERIF_RCU_HARNESS_H
#define VERIF_RCU_HARNESS_H
#include <cds/init.h>
#include <cds/threading/model.h>
#include <vcase.h>
#include <map>
#include <set>
#include <vector>

namespace rcuh {
    namespace vs = khizmax_libcds_verif;

    struct Obj { long id = 0; int disposed = 0; bool retired = false; std::vector<std::pair<int,long>> old_readers; atomics::atomic<int> payload{ 0 }; };

    struct Monitor {
        // read-side sections as the client sees them
        std::vector<int>  depth;
        std::vector<long> gen;          // number of outermost sections entered so far
        std::map<long, Obj> objs;
        long dispose_inside = 0, sync_inside = 0, touch_disposed = 0, dispose_unretired = 0;
        std::string first;
        bool in_destruct = false;
        std::vector<long> destruct_log;     // objects disposed while the singleton is destroyed, in order

        void reset( int n ) { depth.assign( n, 0 ); gen.assign( n, 0 ); objs.clear(); dispose_inside = sync_inside = touch_disposed = dispose_unretired = 0; first.clear(); in_destruct = false; destruct_log.clear(); }
        std::vector<std::pair<int,long>> inside_now() const
        {
            std::vector<std::pair<int,long>> r;
            for ( size_t t = 0; t < depth.size(); ++t ) if ( depth[t] > 0 ) r.push_back( std::make_pair( (int) t, gen[t] ));
            return r;
        }
        bool still_inside( std::pair<int,long> const& x ) const { return depth[x.first] > 0 && gen[x.first] == x.second; }
        void note( char const* what, long a, long b )
        {
            if ( first.empty()) { char buf[160]; std::snprintf( buf, sizeof( buf ), "%s %ld %ld", what, a, b ); first = buf; }
        }
    };
    inline Monitor& M() { static Monitor m; return m; }
    inline std::string& report_line() { static std::string s; return s; }

    inline void disposer( void* p )
    {
        Obj* o = static_cast<Obj*>( p );
        Monitor& m = M();
        if ( !o->retired ) ++m.dispose_unretired;
        for ( auto const& r : o->old_readers )
            if ( m.still_inside( r )) { ++m.dispose_inside; m.note( "dispose_inside_old_reader obj/reader", o->id, r.first ); }
        ++o->disposed;
        if ( m.in_destruct ) m.destruct_log.push_back( o->id );
        vcase::emitf( "dispose %ld", o->id );
    }

    template <class RCU>
    struct Client {
        typedef typename RCU::rcu_tag rcu_tag;
        int tid; bool attached = false; int depth = 0;
        atomics::atomic<long>* src;

        static long real_nest()
        {
            vs::passthrough_scope ps;      // not a scheduling point, not logged
            return (long)( cds::threading::getRCU<rcu_tag>()->m_nAccessControl.load( atomics::memory_order_relaxed ) & 0x7FFFFFFFu );
        }
        void do_rlock()
        {
            RCU::access_lock();
            Monitor& m = M();
            if ( depth++ == 0 ) ++m.gen[tid];
            m.depth[tid] = depth;
            vcase::emitf( "rlock %ld %ld", depth, real_nest());
        }
        void do_runlock()
        {
            Monitor& m = M();
            --depth; m.depth[tid] = depth;
            vcase::emitf( "runlock %ld", depth );
            RCU::access_unlock();
            vcase::emitf( "runlocked %ld", real_nest());
        }
        void do_detach()
        {
            cds::threading::Manager::detachThread();
            attached = false;
            vcase::emitf( "detach" );
        }
        Obj& obj( long p ) { Obj& o = M().objs[p]; o.id = p; return o; }
        void mark_retired( long p )
        {
            Obj& o = obj( p );
            o.retired = true; o.old_readers = M().inside_now();
            vcase::emitf( "retire %ld", p );
        }
        void run( std::vector<vcase::op_t> const& ops, bool allow_batch, bool emit_done = false )
        {
            Monitor& m = M();
            for ( auto const& op : ops ) {
                switch ( op[0] ) {
                case 1: if ( !attached ) { cds::threading::Manager::attachThread(); attached = true; vcase::emitf( "attach" ); } break;
                case 2: if ( attached && depth == 0 ) do_detach(); break;
                case 3: if ( attached && (long) depth + 1 < 2147483648L ) do_rlock(); break;
                case 4: if ( attached && depth > 0 ) do_runlock(); break;
                case 5: if ( depth == 0 ) {
                            auto old = m.inside_now();
                            vcase::emitf( "sync_begin" );
                            RCU::synchronize();
                            for ( auto const& r : old ) if ( m.still_inside( r )) { ++m.sync_inside; m.note( "sync_end_inside_old_reader writer/reader", tid, r.first ); }
                            vcase::emitf( "sync_end" );
                        } break;
                case 6: if ( depth == 0 && op.size() == 2 ) {
                            mark_retired( op[1] );
                            RCU::retire_ptr( static_cast<void*>( &obj( op[1] )), disposer );
                        } break;
                case 7: if ( op.size() == 2 ) { obj( op[1] ); src->store( op[1], atomics::memory_order_release ); } break;
                case 8: src->store( 0, atomics::memory_order_release ); break;
                case 9: if ( depth > 0 ) {
                          long v = src->load( atomics::memory_order_acquire );
                          if ( v != 0 ) {
                              (void) m.objs[v].payload.load( atomics::memory_order_relaxed );   // the reader uses the object: a second scheduling point
                              if ( m.objs[v].disposed > 0 ) { ++m.touch_disposed; m.note( "touch_disposed obj/reader", v, tid ); }
                              vcase::emitf( "touch %ld", v );
                          } } break;
                case 10: if ( allow_batch && depth == 0 && op.size() > 1 ) {
                            std::vector<cds::urcu::retired_ptr> v;
                            for ( size_t i = 1; i < op.size(); ++i ) {
                                mark_retired( op[i] );
                                v.push_back( cds::urcu::retired_ptr( static_cast<void*>( &obj( op[i] )), disposer ));
                            }
                            RCU::batch_retire( v.begin(), v.end());
                            vcase::emitf( "batch_end" );
                         } break;
                default: break;
                }
            }
            if ( attached ) {
                while ( depth > 0 ) do_runlock();
                do_detach();
            }
            if ( emit_done ) vcase::emitf( "done" );
        }
    };

    // run every case of the file; make_rcu(case) constructs the gc object, the returned pointer is deleted after the case
    template <class RCU, class Make>
    int run_file( char const* path, Make make_rcu, bool allow_batch, size_t max_steps = 20000, bool buffered = false, std::function<void()> report = nullptr )
    {
        std::ifstream in( path );
        vcase::Case c;
        while ( vcase::read_case( in, c )) {
            Monitor& m = M();
            int n = (int) c.threads.size();
            m.reset( n );
            // objects are created up front so that std::map nodes never move while the case runs
            for ( auto const& th : c.threads ) for ( auto const& op : th )
                if ( op[0] == 6 || op[0] == 7 || op[0] == 10 ) for ( size_t i = 1; i < op.size(); ++i ) { Obj& o = m.objs[op[i]]; o.id = op[i]; o.disposed = 0; o.retired = false; }
            RCU* rcu = make_rcu( c );
            atomics::atomic<long> src( 0 );
            vcase::run_workers( c, [&]( int t ) {
                Client<RCU> cl; cl.tid = t; cl.src = &src;
                cl.run( c.threads[t], allow_batch, buffered );
            }, nullptr, nullptr, max_steps );
            bool overrun = vs::S().overrun;
            std::vector<std::string> log = vs::S().log;
            // destruction of the singleton (clear_buffer(max) for the buffered flavours) runs unscheduled
            size_t before = 0; for ( auto const& o : m.objs ) before += o.second.disposed;
            if ( report ) report();      // object ids of the buffer operations (printed below, after endcase)
            m.in_destruct = true;
            delete rcu;
            m.in_destruct = false;
            // (after an overrun the workers ran free and were joined; the monitors of such a case are not meaningful)
            std::printf( "case %s\n", c.id.c_str());
            for ( auto const& l : log ) { std::fputs( l.c_str(), stdout ); std::fputc( '\n', stdout ); }
            if ( !overrun ) for ( long p : m.destruct_log ) std::printf( "%d ev dispose %ld\n", n, p );   // Destruct: pseudo thread n
            std::printf( "endcase %s\n", overrun ? "fuel" : "finished" );
            long not_once = 0, retired = 0, at_destruct = 0; long bad = 0;
            for ( auto const& o : m.objs ) if ( o.second.retired ) { ++retired; if ( o.second.disposed != 1 ) { ++not_once; if ( !bad ) bad = o.first; } }
            size_t after = 0; for ( auto const& o : m.objs ) after += o.second.disposed;
            at_destruct = (long)( after - before );
            std::printf( "monitor dispose_inside_old_reader %ld\n", m.dispose_inside );
            std::printf( "monitor sync_end_inside_old_reader %ld\n", m.sync_inside );
            std::printf( "monitor touch_disposed %ld\n", m.touch_disposed );
            std::printf( "monitor dispose_unretired %ld\n", m.dispose_unretired );
            std::printf( "monitor not_disposed_exactly_once %ld %ld\n", not_once, bad );
            std::printf( "monitor retired %ld disposed_at_destruct %ld\n", retired, at_destruct );
            if ( !m.first.empty()) std::printf( "monitor first %s\n", m.first.c_str());
            if ( !report_line().empty()) { std::printf( "%s\n", report_line().c_str()); report_line().clear(); }
            std::fflush( stdout );
        }
        return 0;
    }
}
#endif
