// C04 harness: client programs on the real cds::urcu::gc< general_instant< spin_lock, backoff::empty > > under the
// deterministic scheduler; event log + implementation-side monitors (see rcu_harness.h).
// usage: main <casefile>     cfg = [flips (model only: the real code always flips twice); spin fuel (model only)]
#include <cds/urcu/general_instant.h>
#include <cds/sync/spinlock.h>
#include <C04/rcu_harness.h>

typedef cds::urcu::general_instant< cds::sync::spin_lock<cds::backoff::empty>, cds::backoff::empty > impl_t;
typedef cds::urcu::gc< impl_t > rcu_t;

int main( int argc, char** argv )
{
    if ( argc < 2 ) { std::fprintf( stderr, "usage: %s casefile\n", argv[0] ); return 2; }
    cds::Initialize();
    int rc = rcuh::run_file<rcu_t>( argv[1], []( vcase::Case const& ) { return new rcu_t; }, false );
    cds::Terminate();
    return rc;
}
