// C04 (last sentence): "Pointers handed out by RCU containers (raw_ptr, exempt_ptr) stay valid until released
// outside the lock."   Monitors only - there is no Coq model / step correspondence behind this harness.
//
// Runs client programs on the REAL intrusive RCU containers under the deterministic baton scheduler (every
// instrumented atomic access is a scheduling point) and watches the container's `disposer` trait:
//      cfg[0] = kind   0 MichaelList< gc<general_instant> >     1 MichaelList< gc<general_buffered> >
//                      2 LazyList< gpb >      3 SkipListSet< gpb >      4 EllenBinTree< gpb >
//                      5 LazyList< gpi >      6 SkipListSet< gpi >      7 EllenBinTree< gpi >
//      cfg[1] = prefill mask over keys 0..7 (main thread, before the run), cfg[2..9] = tower height-1 of the prefilled keys
// Items come from a pool that is never freed (no address reuse); an item is inserted at most once.
//
// Operations (one per `;` group in the thread line):
//      1 k h    insert a fresh item with key k (skip list: tower height h+1)
//      2 k      erase(k)                11 k  erase(k, functor)  (functor uses the erased item: still not disposed)
//      3 k      find(k, functor)         9 k  contains(k)
//      4 k      GET:   { rcu_lock; rp = get(k); use *rp; }  rp.release() outside the lock
//      5 k1 k2  GET2:  { rcu_lock; rp = get(k1); rp2 = get(k2); rp = std::move(rp2) (chains combined); use *rp; }  release outside
//      12 k     GETHOLD: like GET but the raw_ptr goes into the thread's slot (move-assigned inside the lock: chains
//               accumulate) and stays there, outside the lock, while the thread continues;  13  release the slot
//      6 k      EXTRACT: xp = extract(k) into the thread's exempt_ptr slot (move-assignment releases the old content);
//               LazyList: release the old content, then { rcu_lock; xp = extract(k); } as its documentation demands
//      7        XDEREF: use *xp           8  XRELEASE: xp.release()
// Monitors (disposer = the container's disposer trait):
//      disposed_while_referenced_{rawfound,rawchain,exempt}   the disposer ran for an item that a live raw_ptr (found node
//               while its section is open / node of its reclaimed chain until release()) or exempt_ptr still refers to
//      disposed_while_reader_inside   ... for an item a reader found (find functor / get) and is still using inside its section
//      dispose_inside_section         the disposer was executed BY a thread that is inside a read-side section
//                                     (harness-level lock scope, or gc::is_locked() of the executing thread)
//      use_after_dispose_<where>      the harness (functor, raw_ptr, exempt_ptr, comparator called by a traversal) touched
//                                     an item whose disposer had already run
//      disposed_twice / disposed_never_inserted / exception_<op> / not_disposed_exactly_once (after clear(), ~container, synchronize())
// Output per case:   case <id> / <tid> ev ... / endcase finished|fuel / MON ok k=v ... | MON VIOLATION <what> item=<id> thread=<t> k=v ...
// A case that does not end within the time limit:  case <id> / endcase hang,  exit status 3.
// usage: rawptr_main <casefile> [full]        (full: print the access log too)
#include <cds/init.h>
#include <cds/urcu/general_instant.h>
#include <cds/urcu/general_buffered.h>
#include <cds/sync/spinlock.h>
#include <cds/threading/model.h>
#include <cds/intrusive/michael_list_rcu.h>
#include <cds/intrusive/lazy_list_rcu.h>
#include <cds/intrusive/skip_list_rcu.h>
#include <cds/intrusive/ellen_bintree_rcu.h>
#include <vcase.h>
#include <chrono>
#include <map>
#include <memory>
#include <string>
#include <unistd.h>

namespace vs = khizmax_libcds_verif;
namespace ci = cds::intrusive;

// std::mutex would block a worker in the kernel while it holds the scheduler's baton: libcds spin lock (instrumented)
typedef cds::urcu::gc< cds::urcu::general_instant< cds::sync::spin > > rcu_gpi;
typedef cds::urcu::gc< cds::urcu::general_buffered<
    cds::container::VyukovMPMCCycleQueue< cds::urcu::epoch_retired_ptr >, cds::sync::spin > > rcu_gpb;

static const unsigned long GOOD = 0x600D600D600D600DUL, POISON = 0xDEADDEADDEADDEADUL;
static const int NKEYS = 8;
static const int USE_STEPS = 5;
enum { R_FOUND = 0, R_CHAIN = 1, R_EXEMPT = 2 };
static char const* const REFNAME[3] = { "rawfound", "rawchain", "exempt" };

struct Info {
    int id = 0, key = 0;
    int disposed = 0, inserted = 0;
    int refs[3] = { 0, 0, 0 };
    int readers = 0;
    unsigned long payload = GOOD;
    atomics::atomic<unsigned> hot{ 0 };     // touched by readers: a scheduling point in the middle of a "use"
};

struct Mon {
    std::string first; long first_item = -1; int first_thread = -1;
    std::map<std::string, long> kinds;
    long disposed = 0, held_checks = 0, chain_len_max = 0, chain_nodes = 0, exempt = 0, rawfound = 0, rawempty = 0, disp_in_lock = 0,
         disp_other_ref = 0, combined = 0, held_slots = 0, erased = 0, ins = 0, found = 0, cmp_checks = 0;
    std::vector<Info*> items;
    void reset() { *this = Mon(); }
    void violation( std::string const& what, long item, int thread )
    {
        ++kinds[what];
        if ( first.empty()) { first = what; first_item = item; first_thread = thread; }
    }
};
static Mon& M() { static Mon m; return m; }
static int& lock_depth() { static thread_local int d = 0; return d; }
static bool& teardown() { static bool b = false; return b; }      // the container's destructor runs (single-threaded by contract)

static void use( Info const* p, char const* where )
{
    ++M().held_checks;
    if ( p->disposed > 0 || p->payload != GOOD )
        M().violation( std::string( "use_after_dispose_" ) + where, p->id, vs::my_tid());
}

template <class GC>
static void on_dispose( Info* p )
{
    Mon& m = M();
    int t = vs::my_tid();
    ++m.disposed;
    if ( p->disposed > 0 ) m.violation( "disposed_twice", p->id, t );
    ++p->disposed;
    if ( !p->inserted ) m.violation( "disposed_never_inserted", p->id, t );
    for ( int r = 0; r < 3; ++r )
        if ( p->refs[r] > 0 ) m.violation( std::string( "disposed_while_referenced_" ) + REFNAME[r], p->id, t );
    if ( p->readers > 0 ) m.violation( "disposed_while_reader_inside", p->id, t );
    bool locked;
    { vs::passthrough_scope ps; locked = GC::is_locked(); }      // not a scheduling point, not logged
    if (( lock_depth() > 0 || locked ) && !teardown()) { ++m.disp_in_lock; m.violation( "dispose_inside_section", p->id, t ); }
    for ( Info* o : m.items )
        if ( o != p && ( o->refs[0] + o->refs[1] + o->refs[2] + o->readers ) > 0 ) { ++m.disp_other_ref; break; }
    p->payload = POISON;
    vcase::emitf( "dispose %ld", p->id );
}

template <class Item, class GC> struct disp { void operator()( Item* p ) const { on_dispose<GC>( static_cast<Info*>( p )); } };

// every comparison made by a traversal looks at the items it compares: a traversal inside a read-side section must
// never reach an item whose disposer already ran
template <class Item> struct cmp {
    static Item const& chk( Item const& a ) { ++M().cmp_checks; if ( a.disposed > 0 || a.payload != GOOD ) M().violation( "use_after_dispose_cmp", a.id, vs::my_tid()); return a; }
    int operator()( Item const& a, Item const& b ) const { chk( a ); chk( b ); return a.key < b.key ? -1 : a.key > b.key ? 1 : 0; }
    int operator()( Item const& a, int b ) const { chk( a ); return a.key < b ? -1 : a.key > b ? 1 : 0; }
    int operator()( int a, Item const& b ) const { chk( b ); return a < b.key ? -1 : a > b.key ? 1 : 0; }
    int operator()( int a, int b ) const { return a < b ? -1 : a > b ? 1 : 0; }
};

// ---- deterministic tower heights -------------------------------------------------------------------------
static unsigned& next_level() { static thread_local unsigned l = 0; return l; }
template <unsigned Max> struct det_level_gen {
    static unsigned int const c_nUpperBound = Max;
    unsigned int operator()() { unsigned l = next_level(); return l < Max ? l : Max - 1; }
};

// ---- the containers ----------------------------------------------------------------------------------------
template <class GC> struct ml_kind {
    typedef GC gc;
    static const bool extract_under_lock = false;
    struct item : public ci::michael_list::node<GC>, public Info {};
    struct traits : public ci::michael_list::traits {
        typedef ci::michael_list::base_hook< cds::opt::gc<GC> > hook;
        typedef cmp<item> compare;
        typedef disp<item, GC> disposer;
    };
    typedef ci::MichaelList< GC, item, traits > cont;
    typedef typename cont::raw_ptr raw_ptr;
};
template <class GC> struct lz_kind {
    typedef GC gc;
    static const bool extract_under_lock = true;    // LazyList<RCU>::extract: "You should manually lock RCU before calling this function"
                                                    // (the other three: "RCU should NOT be locked")
    struct item : public ci::lazy_list::node<GC>, public Info {};
    struct traits : public ci::lazy_list::traits {
        typedef ci::lazy_list::base_hook< cds::opt::gc<GC> > hook;
        typedef cmp<item> compare;
        typedef disp<item, GC> disposer;
    };
    typedef ci::LazyList< GC, item, traits > cont;
    typedef typename cont::raw_ptr raw_ptr;
};
template <class GC> struct sk_kind {
    typedef GC gc;
    static const bool extract_under_lock = false;
    struct item : public ci::skip_list::node<GC>, public Info {};
    struct traits : public ci::skip_list::traits {
        typedef ci::skip_list::base_hook< cds::opt::gc<GC> > hook;
        typedef cmp<item> compare;
        typedef disp<item, GC> disposer;
        typedef det_level_gen<4> random_level_generator;
    };
    typedef ci::SkipListSet< GC, item, traits > cont;
    typedef typename cont::raw_ptr raw_ptr;
};
template <class GC> struct el_kind {
    typedef GC gc;
    static const bool extract_under_lock = false;
    struct item : public ci::ellen_bintree::node<GC>, public Info {};
    struct key_extractor { void operator()( int& k, item const& v ) const { k = v.key; } };
    struct traits : public ci::ellen_bintree::traits {
        typedef ci::ellen_bintree::base_hook< cds::opt::gc<GC> > hook;
        typedef typename el_kind::key_extractor key_extractor;
        typedef cmp<item> compare;
        typedef disp<item, GC> disposer;
    };
    typedef ci::EllenBinTree< GC, int, item, traits > cont;
    typedef item* raw_ptr;      // EllenBinTree::get returns value_type*
};

// ---- access to the reclaimed chain of a raw_ptr (private member m_Enum): explicit template instantiation is
//      exempt from access checking; the library is not edited -------------------------------------------------
template <typename Tag, typename Tag::type Mp> struct rob { friend typename Tag::type get( Tag ) { return Mp; } };
template <class RP> struct enum_tag { typedef typename RP::reclaimed_enumerator RP::* type; friend type get( enum_tag ); };
#define ROB_RAW_PTR( K ) template struct rob< enum_tag< K::cont::raw_ptr >, &K::cont::raw_ptr::m_Enum >
ROB_RAW_PTR( ml_kind<rcu_gpi> );
ROB_RAW_PTR( ml_kind<rcu_gpb> );
ROB_RAW_PTR( sk_kind<rcu_gpi> );
ROB_RAW_PTR( sk_kind<rcu_gpb> );

// raw_ptr of the container: a cds::urcu::raw_ptr object (MichaelList, SkipListSet) or a plain value_type* (LazyList, EllenBinTree)
template <class K, class RP> struct rp_ops {
    typedef typename K::item Item;
    static Info* found( RP& rp ) { return rp ? static_cast<Info*>( &*rp ) : nullptr; }
    static void chain( RP& rp, std::vector<Info*>& out )
    {
        auto& e = rp.*get( enum_tag<RP>());
        for ( auto* n = e.pReclaimedChain; n; n = n->m_pDelChain )
            out.push_back( static_cast<Info*>( static_cast<Item*>( n )));
    }
    static void release( RP& rp ) { rp.release(); }
    static void move_assign( RP& a, RP&& b ) { a = std::move( b ); }
};
template <class K, class V> struct rp_ops<K, V*> {
    static Info* found( V*& rp ) { return rp ? static_cast<Info*>( rp ) : nullptr; }
    static void chain( V*&, std::vector<Info*>& ) {}
    static void release( V*& rp ) { rp = nullptr; }
    static void move_assign( V*& a, V*&& b ) { a = b; }
};

// ---- watchdog ----------------------------------------------------------------------------------------------
struct watchdog {
    static std::atomic<long long>& deadline() { static std::atomic<long long> d( 0 ); return d; }
    static std::string& current() { static std::string s; return s; }
    static long long now() { return std::chrono::duration_cast<std::chrono::milliseconds>( std::chrono::steady_clock::now().time_since_epoch()).count(); }
    static void start()
    {
        static bool started = false;
        if ( started ) return;
        started = true;
        std::thread( [] {
            for ( ;; ) {
                std::this_thread::sleep_for( std::chrono::milliseconds( 50 ));
                long long d = deadline().load();
                if ( d != 0 && now() > d ) {
                    std::printf( "case %s\nendcase hang\nMON HANG steps=%zu overrun=%d\n", current().c_str(), vs::S().step, vs::S().overrun ? 1 : 0 );
                    std::fflush( stdout );
                    _exit( 3 );
                }
            }
        } ).detach();
    }
    static void arm( std::string const& id, int ms ) { current() = id; deadline().store( now() + ms ); }
    static void disarm() { deadline().store( 0 ); }
};

// ---- client --------------------------------------------------------------------------------------------------
template <class K>
struct Client {
    typedef typename K::cont C;
    typedef typename K::item Item;
    typedef typename K::gc GC;
    typedef typename K::raw_ptr RP;
    typedef typename C::exempt_ptr XP;
    typedef rp_ops<K, RP> P;

    // the harness' own read-side section
    struct Lock {
        typename C::rcu_lock l;
        Lock() { ++lock_depth(); }
        ~Lock() { --lock_depth(); }
    };
    struct find_functor {
        char const* where; long* n;
        template <class Q> void operator()( Item& i, Q& ) const
        {
            ++*n;
            ++i.readers;
            use( &i, where );
            for ( int r = 0; r < USE_STEPS; ++r ) {     // the reader keeps using the item over several scheduling points
                (void) i.hot.load( atomics::memory_order_relaxed );
                use( &i, where );
            }
            --i.readers;
        }
    };
    struct erase_functor {
        long* n;
        void operator()( Item const& i ) const
        {
            ++*n;
            use( &i, "erasef" );
            (void) const_cast<Item&>( i ).hot.load( atomics::memory_order_relaxed );
            use( &i, "erasef" );
        }
    };

    C& c; int tid;
    std::vector<Item*>& pool; size_t& pool_next;
    atomics::atomic<unsigned>& gap;
    XP xp; Info* xitem = nullptr;
    RP held = RP(); std::vector<Info*> held_chain; bool held_used = false;

    Client( C& c_, int t, std::vector<Item*>& p, size_t& pn, atomics::atomic<unsigned>& g ): c( c_ ), tid( t ), pool( p ), pool_next( pn ), gap( g ) {}

    // inside the caller's section: the found node is referenced (and read) only while the section is open
    void use_found( RP& rp, char const* where )
    {
        Info* it = P::found( rp );
        if ( !it ) { ++M().rawempty; return; }
        ++M().rawfound;
        ++it->refs[R_FOUND]; ++it->readers;
        use( it, where );
        for ( int r = 0; r < USE_STEPS; ++r ) {
            (void) it->hot.load( atomics::memory_order_relaxed );
            use( it, where );
        }
        --it->refs[R_FOUND]; --it->readers;
    }
    static void ref_chain( RP& rp, std::vector<Info*>& ch )
    {
        for ( Info* p : ch ) --p->refs[R_CHAIN];
        ch.clear();
        P::chain( rp, ch );
        for ( Info* p : ch ) ++p->refs[R_CHAIN];
        Mon& m = M();
        if ( (long) ch.size() > m.chain_len_max ) m.chain_len_max = (long) ch.size();
    }
    static void unref_chain( std::vector<Info*>& ch )
    {
        M().chain_nodes += (long) ch.size();
        for ( Info* p : ch ) --p->refs[R_CHAIN];
        ch.clear();
    }

    void xrelease()
    {
        if ( xitem ) { --xitem->refs[R_EXEMPT]; xitem = nullptr; }
        xp.release();
    }
    void hrelease()
    {
        unref_chain( held_chain );
        P::release( held );
        held_used = false;
    }

    long apply( vcase::op_t const& op )
    {
        long code = op[0]; int k = op.size() > 1 ? (int) op[1] : 0;
        Mon& m = M();
        switch ( code ) {
        case 1: {
            if ( pool_next >= pool.size()) return -1;
            Item* p = pool[pool_next++];
            p->key = k;
            next_level() = op.size() > 2 ? (unsigned) op[2] : 0;
            p->inserted = 1;                 // set before: the item is reachable as soon as it is linked
            bool b = c.insert( *p );
            if ( !b ) p->inserted = 0;
            else ++m.ins;
            return b;
        }
        case 2: { bool b = c.erase( k ); if ( b ) ++m.erased; return b; }
        case 11: {
            long n = 0;
            bool b = c.erase( k, erase_functor{ &n } );
            if ( b ) ++m.erased;
            if ( n != ( b ? 1 : 0 )) m.violation( "erase_functor_calls", -1, tid );
            return b;
        }
        case 3: {
            long n = 0; int key = k;
            bool b = c.find( key, find_functor{ "find", &n } );
            if ( b ) ++m.found;
            if ( n != ( b ? 1 : 0 )) m.violation( "find_functor_calls", -1, tid );
            return b;
        }
        case 9: return c.contains( k );
        case 4: {
            RP rp = RP();
            std::vector<Info*> ch;
            bool b;
            {
                Lock l;
                P::move_assign( rp, c.get( k ));
                b = P::found( rp ) != nullptr;
                ref_chain( rp, ch );
                use_found( rp, "get" );
            }
            (void) gap.load( atomics::memory_order_relaxed );      // others may run between unlock and release
            unref_chain( ch );
            P::release( rp );
            return b;
        }
        case 5: {
            int k2 = op.size() > 2 ? (int) op[2] : 0;
            RP rp = RP();
            std::vector<Info*> ch;
            bool b;
            {
                Lock l;
                P::move_assign( rp, c.get( k ));
                ref_chain( rp, ch );
                use_found( rp, "get2" );
                {
                    RP rp2 = RP();
                    P::move_assign( rp2, c.get( k2 ));
                    std::vector<Info*> ch2;
                    ref_chain( rp2, ch2 );
                    size_t n1 = ch.size(), n2 = ch2.size();
                    P::move_assign( rp, std::move( rp2 ));      // combine: rp now owns both chains
                    unref_chain( ch2 ); m.chain_nodes -= (long) n2;
                    ref_chain( rp, ch );
                    if ( ch.size() != n1 + n2 ) m.violation( "combine_lost_chain_nodes", -1, tid );
                    if ( n1 && n2 ) ++m.combined;
                }                                                   // rp2 (now empty) is destructed inside the lock
                b = P::found( rp ) != nullptr;
                use_found( rp, "get2" );
            }
            (void) gap.load( atomics::memory_order_relaxed );
            unref_chain( ch );
            P::release( rp );
            return b;
        }
        case 12: {
            bool b;
            {
                Lock l;
                size_t n1 = held_chain.size();
                RP rp2 = RP();
                P::move_assign( rp2, c.get( k ));
                std::vector<Info*> ch2;
                ref_chain( rp2, ch2 );
                size_t n2 = ch2.size();
                P::move_assign( held, std::move( rp2 ));
                unref_chain( ch2 ); m.chain_nodes -= (long) n2;
                ref_chain( held, held_chain );
                if ( held_chain.size() != n1 + n2 ) m.violation( "combine_lost_chain_nodes", -1, tid );
                if ( n1 && n2 ) ++m.combined;
                b = P::found( held ) != nullptr;
                use_found( held, "gethold" );
                held_used = true; ++m.held_slots;
            }
            return b;
        }
        case 13: hrelease(); return 0;
        case 6: {
            if ( K::extract_under_lock ) {
                xrelease();                 // the old content must be released outside the lock
                Lock l;
                xp = c.extract( k );
            }
            else {
                if ( xitem ) { --xitem->refs[R_EXEMPT]; xitem = nullptr; }
                xp = c.extract( k );        // move assignment: releases the old content (outside the lock)
            }
            if ( xp ) {
                xitem = static_cast<Info*>( &*xp );
                ++xitem->refs[R_EXEMPT];
                ++m.exempt;
                use( xitem, "exempt" );
                return 1;
            }
            return 0;
        }
        case 7:
            if ( xitem ) {
                use( xitem, "exempt" );
                (void) xitem->hot.load( atomics::memory_order_relaxed );
                use( static_cast<Info*>( &*xp ), "exempt" );
                return 1;
            }
            return 0;
        case 8: xrelease(); return 0;
        }
        return -1;
    }

    void run( std::vector<vcase::op_t> const& ops )
    {
        for ( auto const& op : ops ) {
            if ( op.empty()) continue;
            vcase::emitf( "inv %ld %ld %ld", op[0], op.size() > 1 ? op[1] : 0, op.size() > 2 ? op[2] : 0 );
            long r;
            try { r = apply( op ); }
            catch ( std::exception const& e ) { r = -2; M().violation( "exception_op" + std::to_string( op[0] ), -1, tid ); }
            vcase::emitf( "res %ld", r );
        }
        // release everything before the thread detaches
        xrelease();
        hrelease();
    }
};

template <class K>
void run_case( vcase::Case const& c, bool full )
{
    typedef typename K::cont C;
    typedef typename K::item Item;
    typedef typename K::gc GC;
    Mon& m = M();
    m.reset();
    long mask = c.cfg.size() > 1 ? c.cfg[1] : 0;
    size_t need = 0;
    for ( int k = 0; k < NKEYS; ++k ) if ( mask & ( 1L << k )) ++need;
    for ( auto const& th : c.threads ) for ( auto const& op : th ) if ( !op.empty() && op[0] == 1 ) ++need;
    std::vector<Item*> pool;
    for ( size_t i = 0; i < need; ++i ) { Item* p = new Item; p->id = (int) i; pool.push_back( p ); m.items.push_back( p ); }   // never deleted
    size_t pool_next = 0;
    atomics::atomic<unsigned> gap( 0 );

    watchdog::arm( c.id, 8000 );
    std::unique_ptr<C> cont( new C );
    for ( int k = 0; k < NKEYS; ++k )
        if ( mask & ( 1L << k )) {
            Item* p = pool[pool_next++];
            p->key = k; p->inserted = 1;
            next_level() = c.cfg.size() > size_t( 2 + k ) ? (unsigned) c.cfg[2 + k] : 0;
            if ( !cont->insert( *p )) p->inserted = 0;
        }
    teardown() = false;
    vcase::run_workers( c, [&]( int t ) {
        Client<K> cl( *cont, t, pool, pool_next, gap );
        cl.run( c.threads[t] );
    },
    [&]( int ) { cds::threading::Manager::attachThread(); },
    [&]( int ) { cds::threading::Manager::detachThread(); },
    60000 );
    bool overrun = vs::S().overrun;
    size_t steps = vs::S().step;
    std::vector<std::string> log;
    for ( auto const& l : vs::S().log ) if ( full || l.find( " ev " ) != std::string::npos ) log.push_back( l );

    // quiescent: destroy the container (retires what is left) and drain the RCU buffer
    // (clear() is the thread-safe one and is monitored like any other operation; the destructors may dispose directly,
    //  e.g. EllenBinTree::unsafe_clear frees the leaves inside an rcu_lock - nobody else can be looking by contract)
    Mon snap = m;
    cont->clear();
    teardown() = true;
    cont.reset();
    teardown() = false;
    GC::synchronize();
    long not_once = 0, bad = -1;
    for ( Info* p : m.items ) if ( p->disposed != ( p->inserted ? 1 : 0 )) { ++not_once; if ( bad < 0 ) bad = p->id; }
    watchdog::disarm();

    std::printf( "case %s\n", c.id.c_str());
    for ( auto const& l : log ) { std::fputs( l.c_str(), stdout ); std::fputc( '\n', stdout ); }
    std::printf( "endcase %s\n", overrun ? "fuel" : "finished" );
    if ( not_once ) m.violation( "not_disposed_exactly_once", bad, -1 );
    if ( m.first.empty()) std::printf( "MON ok" );
    else {
        std::printf( "MON VIOLATION %s item=%ld thread=%d kinds=", m.first.c_str(), m.first_item, m.first_thread );
        bool f = true;
        for ( auto const& kv : m.kinds ) { std::printf( "%s%s:%ld", f ? "" : ",", kv.first.c_str(), kv.second ); f = false; }
    }
    std::printf( " disposed=%ld disposed_in_run=%ld held_checks=%ld cmp_checks=%ld chain_len_max=%ld chain_nodes=%ld combined=%ld exempt=%ld rawfound=%ld rawempty=%ld"
                 " held_slots=%ld disp_in_lock=%ld disp_other_ref=%ld inserted=%ld erased=%ld found=%ld steps=%zu items=%zu\n",
                 m.disposed, snap.disposed, m.held_checks, m.cmp_checks, m.chain_len_max, m.chain_nodes, m.combined, m.exempt, m.rawfound, m.rawempty,
                 m.held_slots, m.disp_in_lock, m.disp_other_ref, m.ins, m.erased, m.found, steps, m.items.size());
    std::fflush( stdout );
}

int main( int argc, char** argv )
{
    if ( argc < 2 ) { std::fprintf( stderr, "usage: %s casefile [full]\n", argv[0] ); return 2; }
    bool full = argc > 2 && std::string( argv[2] ) == "full";
    cds::Initialize();
    {
        rcu_gpi gpi;
        rcu_gpb gpb( 4 );
        cds::threading::Manager::attachThread();
        watchdog::start();
        std::ifstream in( argv[1] );
        vcase::Case c;
        while ( vcase::read_case( in, c )) {
            long kind = c.cfg.size() > 0 ? c.cfg[0] : 0;
            switch ( kind ) {
            case 0: run_case< ml_kind<rcu_gpi> >( c, full ); break;
            case 1: run_case< ml_kind<rcu_gpb> >( c, full ); break;
            case 2: run_case< lz_kind<rcu_gpb> >( c, full ); break;
            case 3: run_case< sk_kind<rcu_gpb> >( c, full ); break;
            case 4: run_case< el_kind<rcu_gpb> >( c, full ); break;
            case 5: run_case< lz_kind<rcu_gpi> >( c, full ); break;
            case 6: run_case< sk_kind<rcu_gpi> >( c, full ); break;
            case 7: run_case< el_kind<rcu_gpi> >( c, full ); break;
            default: std::printf( "case %s\nendcase unknown-kind\n", c.id.c_str());
            }
            std::fflush( stdout );
        }
        cds::threading::Manager::detachThread();
    }
    cds::Terminate();
    return 0;
}
