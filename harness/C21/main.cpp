// C21 harness: runs client programs of get / put operations on the real cds::intrusive::FreeList,
// TaggedFreeList and CachedFreeList under the deterministic scheduler and prints the event log
// (format: ocaml/conc_main.ml), followed by the verdict of an ownership-map monitor.
//
// usage: main <casefile>
//   cfg = [variant; loop fuel (model only); nnodes; k; owner of node k+1 .. owner of node nnodes; slot of thread 0 ..]
//     variant 0 = FreeList, 1 = TaggedFreeList, 2 = CachedFreeList<FreeList,4>, 3 = CachedFreeList<TaggedFreeList,4>
//     nodes 1..k are put on the list one after the other by the set-up code (worker 0, before the scheduled
//     region, not logged); node j > k is held initially by thread owner[j]
//     slot of thread t (variants 2,3): the cache slot (hash of the std::thread::id & 3) the worker must have;
//     workers are taken from a pool of parked threads whose slot is known
//   operations:  "1" = get (result appended to the thread's held list), "2 k" = put the k-th held node
//
// Monitor (real code): owner[n] = thread that holds node n, or -1.
//   double_get : get() returned a node that somebody holds            (uniqueness)
//   bad_node   : get() returned a pointer that is not one of the nodes
//   after the run (only if it finished), the main thread, outside the scheduler, drains the list with
//   repeated get(): the set obtained must be exactly { n | owner[n] == -1 }                (no loss)
//   lost / extra / drain_dup report the differences.
// A watchdog aborts a case that does not finish in 3 s (a corrupted list can make get() spin forever):
// "monitor hang" is printed and the process exits with status 3.
#include <cds/intrusive/free_list.h>
#include <cds/intrusive/free_list_tagged.h>
#include <cds/intrusive/free_list_cached.h>
#include <vcase.h>
#include <unistd.h>
#include <algorithm>
#include <chrono>
#include <memory>
#include <set>

namespace vs = khizmax_libcds_verif;

static const size_t c_slots = 4;

// ---- pool of parked threads with known cache slot -----------------------------------------------------
struct pool_t {
    struct W {
        std::thread th;
        int slot = -1;
        bool ready = false, busy = false, has_job = false;
        std::function<void()> job;
    };
    std::mutex m;
    std::condition_variable cv;
    std::vector<std::unique_ptr<W>> ws;

    W* spawn()
    {
        W* w = new W;
        ws.emplace_back( w );
        w->th = std::thread( [this, w] {
            size_t h = std::hash<std::thread::id>()( std::this_thread::get_id()) & ( c_slots - 1 );
            std::unique_lock<std::mutex> lk( m );
            w->slot = (int) h; w->ready = true; cv.notify_all();
            for (;;) {
                cv.wait( lk, [w] { return w->has_job; } );
                std::function<void()> j = w->job; w->has_job = false;
                lk.unlock(); j(); lk.lock();
                w->busy = false; cv.notify_all();
            }
        } );
        w->th.detach();
        std::unique_lock<std::mutex> lk( m );
        cv.wait( lk, [w] { return w->ready; } );
        return w;
    }
    // a parked thread with the wanted slot (-1 = any)
    W* acquire( int slot )
    {
        {
            std::unique_lock<std::mutex> lk( m );
            for ( auto& w : ws )
                if ( !w->busy && ( slot < 0 || w->slot == slot )) { w->busy = true; return w.get(); }
        }
        for ( int i = 0; i < 4000; ++i ) {
            W* w = spawn();
            if ( slot < 0 || w->slot == slot ) { std::unique_lock<std::mutex> lk( m ); w->busy = true; return w; }
        }
        std::fprintf( stderr, "cannot find a thread for slot %d\n", slot );
        std::exit( 2 );
    }
    void start( W* w, std::function<void()> j )
    {
        std::unique_lock<std::mutex> lk( m );
        w->job = j; w->has_job = true; cv.notify_all();
    }
    void wait( W* w )
    {
        std::unique_lock<std::mutex> lk( m );
        cv.wait( lk, [w] { return !w->busy; } );
    }
};
static pool_t g_pool;

// same protocol as vcase::run_workers, on pooled threads
static void run_workers_pooled( vcase::Case const& c, std::vector<int> const& slots, std::function<void(int)> body,
                                std::function<void(int)> attach, size_t max_steps )
{
    int n = (int) c.threads.size();
    vs::run_prepare( n, c.sched, true, max_steps );
    std::vector<pool_t::W*> ws;
    for ( int t = 0; t < n; ++t ) ws.push_back( g_pool.acquire( slots[t] ));
    std::atomic<int> attach_turn( 0 );
    for ( int t = 0; t < n; ++t )
        g_pool.start( ws[t], [&, t] {
            while ( attach_turn.load() != t ) std::this_thread::yield();
            if ( attach ) attach( t );
            attach_turn.store( t + 1 );
            vs::worker_begin( t );
            body( t );
            vs::worker_end();
        } );
    vs::run_go();
    for ( int t = 0; t < n; ++t ) g_pool.wait( ws[t] );
}

// ---- watchdog ------------------------------------------------------------------------------------------
static std::atomic<long> g_case_started( 0 );     // steady-clock ms of the start of the running case, 0 = none
static long now_ms() { return (long) std::chrono::duration_cast<std::chrono::milliseconds>( std::chrono::steady_clock::now().time_since_epoch()).count(); }
static std::string g_case_id;

static void watchdog()
{
    for (;;) {
        std::this_thread::sleep_for( std::chrono::milliseconds( 200 ));
        long s = g_case_started.load();
        if ( s != 0 && now_ms() - s > 30000 ) {
            std::printf( "case %s\nendcase hang\nmonitor hang\n", g_case_id.c_str());
            std::fflush( stdout );
            _exit( 3 );
        }
    }
}

// ---- one case --------------------------------------------------------------------------------------------
template <class FL>
static void run_case( vcase::Case const& c, bool cached )
{
    typedef typename FL::node node;
    long nnodes = c.cfg.size() > 2 ? c.cfg[2] : 1;
    long k = c.cfg.size() > 3 ? c.cfg[3] : 0;
    int nthreads = (int) c.threads.size();
    std::unique_ptr<node[]> nodes( new node[nnodes + 1] );
    std::unique_ptr<FL> fl( new FL );
    std::vector<int> owner( nnodes + 1, -1 );
    std::vector<std::vector<long>> held( nthreads );
    for ( long j = k + 1; j <= nnodes; ++j ) {
        size_t idx = 4 + (size_t)( j - k - 1 );
        long o = idx < c.cfg.size() ? c.cfg[idx] : -1;
        if ( o >= 0 && o < nthreads ) { held[o].push_back( j ); owner[j] = (int) o; }
        else owner[j] = -2;     // nobody's: never touched
    }
    std::vector<int> slots( nthreads, -1 );
    if ( cached )
        for ( int t = 0; t < nthreads; ++t ) {
            size_t idx = 4 + (size_t)( nnodes - k ) + t;
            slots[t] = idx < c.cfg.size() ? (int)( c.cfg[idx] & ( c_slots - 1 )) : 0;
        }

    long double_get = 0, bad_node = 0;
    auto id_of = [&]( node* p ) -> long {
        if ( p == nullptr ) return -1;
        if ( p < nodes.get() + 1 || p > nodes.get() + nnodes ) return 0;
        return (long)( p - nodes.get());
    };

    g_case_id = c.id;
    g_case_started.store( now_ms());
    run_workers_pooled( c, slots, [&]( int t ) {
        for ( auto const& op : c.threads[t] ) {
            if ( op.empty()) continue;
            if ( op[0] == 1 ) {
                vcase::emitf( "inv_get" );
                node* p = fl->get();
                long id = id_of( p );
                if ( id == 0 ) { ++bad_node; id = -1; }
                else if ( id > 0 ) {
                    if ( owner[id] != -1 ) ++double_get;
                    owner[id] = t;
                    held[t].push_back( id );
                }
                vcase::emitf( "ret_get %ld", id );
            }
            else if ( op[0] == 2 ) {
                size_t i = op.size() > 1 ? (size_t) op[1] : 0;
                if ( i >= held[t].size()) { vcase::emitf( "skip" ); continue; }
                long id = held[t][i];
                vcase::emitf( "inv_put %ld", id );
                owner[id] = -1;
                fl->put( &nodes[id] );
                vcase::emitf( "ret_put" );
                held[t].erase( held[t].begin() + i );
            }
        }
    }, [&]( int t ) {
        if ( t == 0 )
            for ( long j = 1; j <= k; ++j ) fl->put( &nodes[j] );    // set-up: not scheduled, not logged
    }, 20000 );
    vcase::print_log( c );
    std::printf( "monitor double_get %ld bad_node %ld\n", double_get, bad_node );

    // quiescent epilogue (main thread, outside the scheduler): drain and compare with put-minus-taken
    bool finished = !vs::S().overrun;
    std::set<long> drained; long dup = 0, bad = 0;
    if ( finished ) {
        for ( long i = 0; i < nnodes + 3; ++i ) {
            node* p = fl->get();
            if ( !p ) break;
            long id = id_of( p );
            if ( id <= 0 ) { ++bad; break; }
            if ( !drained.insert( id ).second ) { ++dup; break; }
        }
        long lost = 0, extra = 0;
        for ( long j = 1; j <= nnodes; ++j ) {
            bool should = owner[j] == -1;
            bool got = drained.count( j ) != 0;
            if ( should && !got ) ++lost;
            if ( !should && got ) ++extra;
        }
        std::printf( "monitor drain lost %ld extra %ld dup %ld bad %ld size %ld\n", lost, extra, dup, bad, (long) drained.size());
    }
    else {
        // threads were abandoned inside their operations: the list is not quiescent; forget it
        std::printf( "monitor drain skipped\n" );
    }
    // no clear(): on a corrupted (cyclic) list it would not terminate; the destructor's assert is compiled out
    g_case_started.store( 0 );
    std::fflush( stdout );
}

int main( int argc, char** argv )
{
    if ( argc < 2 ) { std::fprintf( stderr, "usage: %s casefile\n", argv[0] ); return 2; }
    std::ifstream in( argv[1] );
    std::thread( watchdog ).detach();
    vcase::Case c;
    while ( vcase::read_case( in, c )) {
        long variant = c.cfg.size() > 0 ? c.cfg[0] : 0;
        switch ( variant ) {
        case 0: run_case< cds::intrusive::FreeList >( c, false ); break;
        case 1: run_case< cds::intrusive::TaggedFreeList >( c, false ); break;
        case 2: run_case< cds::intrusive::CachedFreeList< cds::intrusive::FreeList, c_slots > >( c, true ); break;
        case 3: run_case< cds::intrusive::CachedFreeList< cds::intrusive::TaggedFreeList, c_slots > >( c, true ); break;
        default: std::printf( "case %s\nendcase finished\nmonitor unknown_variant\n", c.id.c_str());
        }
    }
    std::fflush( stdout );
    _exit( 0 );     // parked pool threads are not joined
}
