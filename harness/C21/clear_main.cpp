// C21 (empty / clear) harness: client programs of get / put / empty() on the real cds::intrusive::FreeList and
// TaggedFreeList under the deterministic scheduler, then -- the workers being finished: the quiescent state the
// class comment asks for -- clear( disposer ) executed alone, logged as pseudo-thread N = number of workers.
// Prints the event log (format: ocaml/conc_main.ml; model: coq/Extract/Extract_FreeListClear.v) and monitor lines.
//
// usage: clear_main <casefile>
//   cfg = [variant; loop fuel (model only); nnodes; k; owner of node k+1 .. owner of node nnodes]   (as harness/C21/main.cpp)
//     variant 0 = FreeList, 1 = TaggedFreeList; nodes 1..k are put on the list by the set-up code (not logged);
//     node j > k is held initially by thread owner[j]
//   operations: "1" = get, "2 k" = put the k-th held node, "3" = empty()
//   events: "inv_get" "ret_get <id|-1>" "inv_put <id>" "ret_put" "inv_empty" "ret_empty <1|0>" "skip";
//           clear: "N begin" "N ev inv_clear" <accesses of clear> "N ev dispose <id>"* "N ev ret_clear"
//
// Monitors (real code, printed after "endcase"):
//   monitor double_get a bad_node b       get() returned a node somebody holds / a pointer that is no node
//   monitor clear held h disposed d twice x held_disposed y lost z empty_before e0 empty_after e1 get_after g
//        after clear(): every existing node is EITHER held by exactly one client (h of them) OR was handed to the
//        disposer exactly once (d of them): x = nodes disposed more than once, y = nodes disposed although a client
//        holds them (or that never existed for the list), z = nodes neither held nor disposed;
//        e0 = empty() just before clear (must be 1 iff d + z == 0 ... compared by the check), e1 = empty() just
//        after clear() (must be 1), g = id returned by get() after clear() (must be -1)
//   monitor clear skipped                 the scheduled part hit the step limit: not quiescent, clear() not called
// A watchdog aborts a case that does not finish in 30 s ("monitor hang", exit status 3).
#include <cds/intrusive/free_list.h>
#include <cds/intrusive/free_list_tagged.h>
#include <vcase.h>
#include <unistd.h>
#include <chrono>
#include <map>
#include <memory>

namespace vs = khizmax_libcds_verif;

static std::atomic<long> g_case_started( 0 );
static long now_ms() { return (long) std::chrono::duration_cast<std::chrono::milliseconds>( std::chrono::steady_clock::now().time_since_epoch()).count(); }
static std::string g_case_id;

static void watchdog()
{
    for (;;) {
        std::this_thread::sleep_for( std::chrono::milliseconds( 200 ));
        long s = g_case_started.load();
        if ( s != 0 && now_ms() - s > 30000 ) {
            std::printf( "case %s\nendcase hang\nmonitor hang\n", g_case_id.c_str());
            std::fflush( stdout );
            _exit( 3 );
        }
    }
}

template <class FL>
static void run_case( vcase::Case const& c )
{
    typedef typename FL::node node;
    long nnodes = c.cfg.size() > 2 ? c.cfg[2] : 1;
    long k = c.cfg.size() > 3 ? c.cfg[3] : 0;
    int nthreads = (int) c.threads.size();
    std::unique_ptr<node[]> nodes( new node[nnodes + 1] );
    std::unique_ptr<FL> fl( new FL );
    std::vector<int> owner( nnodes + 1, -1 );
    std::vector<std::vector<long>> held( nthreads );
    for ( long j = k + 1; j <= nnodes; ++j ) {
        size_t idx = 4 + (size_t)( j - k - 1 );
        long o = idx < c.cfg.size() ? c.cfg[idx] : -1;
        if ( o >= 0 && o < nthreads ) { held[o].push_back( j ); owner[j] = (int) o; }
        else owner[j] = -2;     // nobody's: never touched
    }
    long double_get = 0, bad_node = 0;
    auto id_of = [&]( node* p ) -> long {
        if ( p == nullptr ) return -1;
        if ( p < nodes.get() + 1 || p > nodes.get() + nnodes ) return 0;
        return (long)( p - nodes.get());
    };

    g_case_id = c.id;
    g_case_started.store( now_ms());
    vcase::run_workers( c, [&]( int t ) {
        for ( auto const& op : c.threads[t] ) {
            if ( op.empty()) continue;
            if ( op[0] == 1 ) {
                vcase::emitf( "inv_get" );
                node* p = fl->get();
                long id = id_of( p );
                if ( id == 0 ) { ++bad_node; id = -1; }
                else if ( id > 0 ) {
                    if ( owner[id] != -1 ) ++double_get;
                    owner[id] = t;
                    held[t].push_back( id );
                }
                vcase::emitf( "ret_get %ld", id );
            }
            else if ( op[0] == 2 ) {
                size_t i = op.size() > 1 ? (size_t) op[1] : 0;
                if ( i >= held[t].size()) { vcase::emitf( "skip" ); continue; }
                long id = held[t][i];
                vcase::emitf( "inv_put %ld", id );
                owner[id] = -1;
                fl->put( &nodes[id] );
                vcase::emitf( "ret_put" );
                held[t].erase( held[t].begin() + i );
            }
            else if ( op[0] == 3 ) {
                vcase::emitf( "inv_empty" );
                bool b = fl->empty();
                vcase::emitf( "ret_empty %ld", b ? 1L : 0L );
            }
        }
    }, [&]( int t ) {
        if ( t == 0 )
            for ( long j = 1; j <= k; ++j ) fl->put( &nodes[j] );    // set-up: not scheduled, not logged
    }, nullptr, 20000 );

    bool finished = !vs::S().overrun;
    if ( !finished ) {
        // workers were abandoned inside their operations: not quiescent, clear() must not be called
        vcase::print_log( c );
        std::printf( "monitor double_get %ld bad_node %ld\nmonitor clear skipped\n", double_get, bad_node );
        g_case_started.store( 0 );
        std::fflush( stdout );
        return;
    }

    // ---- quiescent epilogue: clear( disposer ) as a one-worker scheduled run that continues the log and the
    //      object numbering of the first run; its lines are re-attributed to pseudo-thread N
    bool empty_before = fl->empty();    // main thread, outside any run: not logged
    std::vector<std::string> log1 = vs::S().log;
    auto ids = vs::S().obj_ids; auto pids = vs::S().ptr_ids;
    int nobj = vs::S().next_obj_id, nptr = vs::S().next_ptr_id;
    std::map<long, long> disposed; long foreign = 0;
    vs::run_prepare( 1, std::vector<int>(), true, 20000 );
    vs::S().obj_ids = ids; vs::S().ptr_ids = pids; vs::S().next_obj_id = nobj; vs::S().next_ptr_id = nptr;
    {
        std::thread th( [&] {
            vs::worker_begin( 0 );
            vcase::emitf( "inv_clear" );
            fl->clear( [&]( node* p ) {
                long id = id_of( p );
                if ( id <= 0 ) ++foreign; else ++disposed[id];
                vcase::emitf( "dispose %ld", id );
            } );
            vcase::emitf( "ret_clear" );
            vs::worker_end();
        } );
        vs::run_go();
        th.join();
    }
    bool clear_overrun = vs::S().overrun;
    std::vector<std::string> log2 = vs::S().log;
    std::string pfx = std::to_string( nthreads ) + " ";
    std::printf( "case %s\n", c.id.c_str());
    for ( auto const& l : log1 ) std::printf( "%s\n", l.c_str());
    for ( auto const& l : log2 ) std::printf( "%s%s\n", pfx.c_str(), l.size() >= 2 && l[0] == '0' && l[1] == ' ' ? l.c_str() + 2 : l.c_str());
    std::printf( "endcase %s\n", clear_overrun ? "fuel" : "finished" );
    std::printf( "monitor double_get %ld bad_node %ld\n", double_get, bad_node );

    bool empty_after = fl->empty();
    long get_after = id_of( fl->get());
    long nheld = 0, ndisp = 0, twice = 0, held_disposed = foreign, lost = 0;
    for ( long j = 1; j <= nnodes; ++j ) {
        long d = disposed.count( j ) ? disposed[j] : 0;
        if ( owner[j] == -2 ) { if ( d ) ++held_disposed; continue; }
        if ( owner[j] >= 0 ) { ++nheld; if ( d ) ++held_disposed; continue; }
        if ( d == 0 ) ++lost; else { ++ndisp; if ( d > 1 ) ++twice; }
    }
    std::printf( "monitor clear held %ld disposed %ld twice %ld held_disposed %ld lost %ld empty_before %d empty_after %d get_after %ld\n",
                 nheld, ndisp, twice, held_disposed, lost, empty_before ? 1 : 0, empty_after ? 1 : 0, get_after );
    g_case_started.store( 0 );
    std::fflush( stdout );
}

int main( int argc, char** argv )
{
    if ( argc < 2 ) { std::fprintf( stderr, "usage: %s casefile\n", argv[0] ); return 2; }
    std::ifstream in( argv[1] );
    std::thread( watchdog ).detach();
    vcase::Case c;
    while ( vcase::read_case( in, c )) {
        long variant = c.cfg.size() > 0 ? c.cfg[0] : 0;
        switch ( variant ) {
        case 0: run_case< cds::intrusive::FreeList >( c ); break;
        case 1: run_case< cds::intrusive::TaggedFreeList >( c ); break;
        default: std::printf( "case %s\nendcase badcfg\n", c.id.c_str());
        }
    }
    std::fflush( stdout );
    _exit( 0 );
}
