// C16 harness: cds::intrusive::CuckooSet (cds/intrusive/cuckoo_set.h) under the deterministic scheduler.
// Variant number = ps*8 + sh*4 + pol*2 + ord   (kept in sync with checks/C16.py)
//   ps : 0 list probe set, 1 vector<2>, 2 vector<4>, 3 vector<3>
//   sh : 0 no stored hash, 1 store_hash<2>
//   pol: 0 cuckoo::striping<reentrant spin, 2>, 1 cuckoo::refinable<reentrant spin, 2, backoff::empty>
//   ord: 0 unordered probe set (equal_to), 1 ordered (less)        [+64: ordered through opt::compare]
// cfg = [variant, initial capacity, probe-set size (list only), probe-set threshold, h1 mode, h2 mode, nkeys]
// Items: every thread owns one item per key (items[t][k]); an operation of thread t with key k uses that item, so
// `unlink` is "unlink my item with key k" and succeeds iff the item found under key k is the caller's.
#include <cstring>
#include <cds/intrusive/cuckoo_set.h>
#include "c16.h"

namespace ci = cds::intrusive;
using c16::result;

struct h1_t {
    template <class I> size_t operator()( I const& i ) const { return c16::hfun( c16::hcfg().m1, i.key ); }
    size_t operator()( long k ) const { return c16::hfun( c16::hcfg().m1, k ); }
    size_t operator()( int k ) const { return c16::hfun( c16::hcfg().m1, k ); }
};
struct h2_t {
    template <class I> size_t operator()( I const& i ) const { return c16::hfun( c16::hcfg().m2, i.key ); }
    size_t operator()( long k ) const { return c16::hfun( c16::hcfg().m2, k ); }
    size_t operator()( int k ) const { return c16::hfun( c16::hcfg().m2, k ); }
};
inline long keyof( long k ) { return k; }
template <class I> inline long keyof( I const& i ) { return i.key; }
struct eq_t   { template <class A, class B> bool operator()( A const& a, B const& b ) const { return keyof( a ) == keyof( b ); } };
struct less_t { template <class A, class B> bool operator()( A const& a, B const& b ) const { return keyof( a ) < keyof( b ); } };
struct cmp_t  { template <class A, class B> int operator()( A const& a, B const& b ) const { long x = keyof( a ), y = keyof( b ); return x < y ? -1 : ( x > y ? 1 : 0 ); } };

template <class PS, unsigned SH>
struct item_t : public ci::cuckoo::node<PS, SH> { long key = 0; long val = 0; };

template <int POL> struct policy_of;
template <> struct policy_of<0> { typedef ci::cuckoo::striping< c16::rspin_t, 2, c16::keep_alloc<int> > type; };
template <> struct policy_of<1> { typedef ci::cuckoo::refinable< c16::rspin_t, 2, cds::backoff::empty, c16::keep_alloc<int> > type; };

template <class PS, unsigned SH, int POL, int ORD> struct traits_of;
template <class PS, unsigned SH, int POL>
struct traits_of<PS, SH, POL, 0> : public ci::cuckoo::traits {
    typedef ci::cuckoo::base_hook< ci::cuckoo::probeset_type<PS>, ci::cuckoo::store_hash<SH> > hook;
    typedef cds::opt::hash_tuple< h1_t, h2_t > hash;
    typedef eq_t equal_to;
    typedef typename policy_of<POL>::type mutex_policy;
};
template <class PS, unsigned SH, int POL>
struct traits_of<PS, SH, POL, 1> : public ci::cuckoo::traits {
    typedef ci::cuckoo::base_hook< ci::cuckoo::probeset_type<PS>, ci::cuckoo::store_hash<SH> > hook;
    typedef cds::opt::hash_tuple< h1_t, h2_t > hash;
    typedef less_t less;
    typedef typename policy_of<POL>::type mutex_policy;
};
template <class PS, unsigned SH, int POL>
struct traits_of<PS, SH, POL, 2> : public ci::cuckoo::traits {
    typedef ci::cuckoo::base_hook< ci::cuckoo::probeset_type<PS>, ci::cuckoo::store_hash<SH> > hook;
    typedef cds::opt::hash_tuple< h1_t, h2_t > hash;
    typedef cmp_t compare;
    typedef typename policy_of<POL>::type mutex_policy;
};

template <class PS, unsigned SH, int POL, int ORD>
struct adapter {
    typedef item_t<PS, SH> item;
    typedef ci::CuckooSet< item, traits_of<PS, SH, POL, ORD> > set_type;
    static const bool is_map = false;
    typedef typename std::conditional< ORD == 0, eq_t, less_t >::type pred_t;

    std::vector< std::vector<item> > items;     // [thread 0..7][key]
    std::unique_ptr<set_type> s;

    adapter( vcase::Case const& c )
    {
        long cap = c.cfg.size() > 1 ? c.cfg[1] : 2, ps = c.cfg.size() > 2 ? c.cfg[2] : 2, th = c.cfg.size() > 3 ? c.cfg[3] : 0;
        long nkeys = c.cfg.size() > 6 ? c.cfg[6] : 6;
        items.assign( 8, std::vector<item>( (size_t) nkeys + 2 ));
        for ( auto& v : items ) for ( size_t k = 0; k < v.size(); ++k ) v[k].key = (long) k;
        s.reset( new set_type( (size_t) cap, (unsigned) ps, (unsigned) th ));
    }
    long size() { return (long) s->size(); }
    long bucket_count() { return (long) s->bucket_count(); }

    result op( int t, long code, long k, long a, long b )
    {
        result r;
        item& it = items[t][k];
        long nf = 0, seen = -1;
        switch ( code ) {
        case 1: r.r1 = s->insert( it ); break;
        case 2: r.r1 = s->insert( it, [&]( item& x ) { ++nf; x.val = a; } ); r.r2 = nf; break;
        case 3: {
            bool bnew = false;
            std::pair<bool, bool> p = s->update( it, [&]( bool n, item& found, item& arg ) { ++nf; bnew = n; if ( found.key != arg.key ) nf += 100; }, b != 0 );
            r.r1 = p.first; r.r2 = p.second;
            if ( p.first && ( nf != 1 || bnew != p.second )) r.r2 = 50 + nf;     // functor protocol broken
            if ( !p.first && nf != 0 ) r.r2 = 50 + nf;
            break;
        }
        case 4: r.r1 = s->unlink( it ); break;
        case 5: r.r1 = s->erase( k ) != nullptr; break;
        case 6: { item* p = s->erase( k, [&]( item const& x ) { ++nf; seen = x.key; } ); r.r1 = p != nullptr; r.r2 = nf; if ( p && ( seen != k || p->key != k )) r.r2 = 50; break; }
        case 7: r.r1 = s->find( k, [&]( item& x, long const& ) { ++nf; seen = x.key; } ); r.r2 = r.r1 ? seen : 0; if ( r.r1 && nf != 1 ) r.r2 = 50 + nf; break;
        case 8: r.r1 = s->contains( k ); break;
        case 10: r.r1 = s->erase_with( k, pred_t()) != nullptr; break;
        case 11: r.r1 = s->find_with( k, pred_t(), [&]( item& x, long const& ) { ++nf; seen = x.key; } ); r.r2 = r.r1 ? seen : 0; break;
        case 12: r.r1 = s->contains( k, pred_t()); break;
        case 13: { item* p = s->erase_with( k, pred_t(), [&]( item const& x ) { ++nf; } ); r.r1 = p != nullptr; r.r2 = nf; break; }
        default: r.supported = false;
        }
        return r;
    }
};

template <unsigned SH, int POL, int ORD>
bool by_ps( long ps, vcase::Case const& c )
{
    switch ( ps ) {
    case 0: c16::run_case< adapter< ci::cuckoo::list, SH, POL, ORD > >( c ); return true;
    case 1: c16::run_case< adapter< ci::cuckoo::vector<2>, SH, POL, ORD > >( c ); return true;
    case 2: c16::run_case< adapter< ci::cuckoo::vector<4>, SH, POL, ORD > >( c ); return true;
    case 3: c16::run_case< adapter< ci::cuckoo::vector<3>, SH, POL, ORD > >( c ); return true;
    }
    return false;
}

int main( int argc, char** argv )
{
    return c16::main_loop( argc, argv, []( long v, vcase::Case const& c ) -> bool {
        bool viacmp = v >= 64; if ( viacmp ) v -= 64;
        long ord = v & 1, pol = ( v >> 1 ) & 1, sh = ( v >> 2 ) & 1, ps = v >> 3;
        if ( viacmp ) ord = 2;
        switch ( sh * 6 + pol * 3 + ord ) {
        case 0:  return by_ps<0, 0, 0>( ps, c );
        case 1:  return by_ps<0, 0, 1>( ps, c );
        case 2:  return by_ps<0, 0, 2>( ps, c );
        case 3:  return by_ps<0, 1, 0>( ps, c );
        case 4:  return by_ps<0, 1, 1>( ps, c );
        case 5:  return by_ps<0, 1, 2>( ps, c );
        case 6:  return by_ps<2, 0, 0>( ps, c );
        case 7:  return by_ps<2, 0, 1>( ps, c );
        case 8:  return by_ps<2, 0, 2>( ps, c );
        case 9:  return by_ps<2, 1, 0>( ps, c );
        case 10: return by_ps<2, 1, 1>( ps, c );
        case 11: return by_ps<2, 1, 2>( ps, c );
        }
        return false;
    } );
}
