// C16 harness, common part: case runner, hash-function table, deferred-free allocator, end-of-case monitor.
//
// Every C16 executable reads a case file (format: harness/vcase.h) and, per case, runs the thread programs on one
// real libcds container under the deterministic scheduler, then prints
//     case <id>
//     <event log>                      "<tid> <kind> o<id> <ok> ..." per atomic access, "<tid> ev inv c k a b" /
//                                      "<tid> ev ret c r1 r2" per operation (same text as the Coq models emit)
//     endcase finished|fuel
//     final size <n>                   item counter after the run (main thread, not scheduled)
//     final buckets <n>                bucket_count() after the run (larger than the initial capacity: a resize ran)
//     final key <k> <contains> <erase1> <erase2> [<value>]   per key: contains(k), erase(k), erase(k) again
//     final dup <n>                    number of keys whose second erase succeeded (key present twice)
//
// cfg = [variant, capacity, probeset size, probeset threshold / resize threshold, h1 mode, h2 mode, nkeys]
// op  = [code, k, a, b]:
//     1 insert(k[,v=a])   2 insert(k, functor)   3 update(k[, v=a], allow=b)   4 unlink(own item with key k)
//     5 erase(k)          6 erase(k, functor)    7 find(k, functor)            8 contains(k)
//     9 emplace(k[,v=a])  10 erase_with(k,pred)  11 find_with(k,pred,functor)  12 contains(k,pred)
//     13 erase_with(k,pred,functor)              14 map insert(k) (default value 0)
// ret = [code, r1, r2]: r1 = bool result (update: first), r2 = update: second / functor-call count / value found
#ifndef VERIF_C16_H
#define VERIF_C16_H
#include <vcase.h>
#include <cds/sync/spinlock.h>
#include <cds/algo/backoff_strategy.h>
#include <cstdint>
#include <cstring>
#include <memory>
#include <vector>

namespace c16 {
    namespace vs = khizmax_libcds_verif;

    // ----------------------------------------------------------------------------------------------------
    // hash-function table (the same table is LV.Model.StripingPolicy.hfun)
    inline size_t hfun( long mode, long k )
    {
        switch ( mode ) {
        case 0: return (size_t) k;
        case 1: return (size_t)( k + 1 );
        case 2: return (size_t)( 7 - k );
        case 3: return (size_t)( k >> 1 );
        case 4: return (size_t)( 3 * k + 1 );
        case 5: return (size_t)( 16 * k );
        case 6: return (size_t)( 4 * k );
        case 7: return (size_t)( 32 * k );
        default: return (size_t) k;
        }
    }
    struct hash_cfg { long m1 = 0, m2 = 1, m3 = 3; };
    inline hash_cfg& hcfg() { static hash_cfg h; return h; }

    // ----------------------------------------------------------------------------------------------------
    // allocator whose deallocate is deferred to the end of the case: an address is never reused inside a case,
    // so the canonical object ids of the event log (first appearance) are those of the model
    struct deferred { static std::vector<std::pair<void*, size_t>>& list() { static std::vector<std::pair<void*, size_t>> l; return l; } };
    inline void release_deferred()
    {
        for ( auto& p : deferred::list()) { vs::forget_range( p.first, p.second ); std::free( p.first ); }
        deferred::list().clear();
    }
    template <class T>
    struct keep_alloc {
        typedef T value_type;
        typedef T* pointer; typedef T const* const_pointer; typedef T& reference; typedef T const& const_reference;
        typedef size_t size_type; typedef std::ptrdiff_t difference_type;
        template <class U> struct rebind { typedef keep_alloc<U> other; };
        keep_alloc() noexcept {}
        template <class U> keep_alloc( keep_alloc<U> const& ) noexcept {}
        T* allocate( size_t n, void const* = nullptr ) { return static_cast<T*>( std::calloc( n ? n : 1, sizeof( T ))); }
        void deallocate( T* p, size_t n ) { deferred::list().push_back( std::make_pair( (void*) p, n * sizeof( T ))); }
        template <class U> bool operator==( keep_alloc<U> const& ) const { return true; }
        template <class U> bool operator!=( keep_alloc<U> const& ) const { return false; }
    };

    // the spinning locks every variant is instantiated with (a blocked std::mutex would stall the baton scheduler)
    typedef cds::sync::spin_lock<cds::backoff::empty>                       spin_t;
    typedef cds::sync::reentrant_spin_lock<uint32_t, cds::backoff::empty>   rspin_t;

    // ----------------------------------------------------------------------------------------------------
    inline void ev_inv( long c, long k, long a, long b )
    {
        char buf[128]; std::snprintf( buf, sizeof( buf ), "inv %ld %ld %ld %ld", c, k, a, b ); vs::emit( buf );
    }
    inline void ev_ret( long c, long r1, long r2 )
    {
        char buf[128]; std::snprintf( buf, sizeof( buf ), "ret %ld %ld %ld", c, r1, r2 ); vs::emit( buf );
    }

    struct result { long r1 = 0, r2 = 0; bool supported = true; };

    // An adapter A provides:
    //   A( vcase::Case const& )                       builds the container from cfg
    //   result op( int tid, long code, long k, long a, long b )      one client operation (tid 7 = main)
    //   long size(), long bucket_count()
    //   static bool is_map
    template <class A>
    void run_case( vcase::Case const& c )
    {
        hash_cfg& h = hcfg();
        h.m1 = c.cfg.size() > 4 ? c.cfg[4] : 0;
        h.m2 = c.cfg.size() > 5 ? c.cfg[5] : 1;
        long nkeys = c.cfg.size() > 6 ? c.cfg[6] : 6;
        {
            std::unique_ptr<A> a( new A( c ));
            vcase::run_workers( c, [&]( int t ) {
                for ( auto const& op : c.threads[t] ) {
                    if ( op.empty()) continue;
                    long code = op[0], k = op.size() > 1 ? op[1] : 0, x = op.size() > 2 ? op[2] : 0, y = op.size() > 3 ? op[3] : 0;
                    ev_inv( code, k, x, y );
                    result r = a->op( t, code, k, x, y );
                    ev_ret( code, r.r1, r.r2 );
                }
            }, nullptr, nullptr, 30000 );
            vcase::print_log( c );
            // monitor (main thread: not scheduled, not logged)
            std::printf( "final size %ld\n", a->size());
            std::printf( "final buckets %ld\n", a->bucket_count());
            long dup = 0;
            for ( long k = 0; k < nkeys; ++k ) {
                result f = a->op( 7, A::is_map ? 7 : 8, k, 0, 0 );
                result e1 = a->op( 7, 5, k, 0, 0 );
                result e2 = a->op( 7, 5, k, 0, 0 );
                if ( e2.r1 ) ++dup;
                std::printf( "final key %ld %ld %ld %ld %ld\n", k, f.r1, e1.r1, e2.r1, f.r2 );
            }
            std::printf( "final dup %ld\n", dup );
            std::printf( "final size_after %ld\n", a->size());
        }
        release_deferred();
    }

    template <class F>
    int main_loop( int argc, char** argv, F dispatch )
    {
        if ( argc < 2 ) { std::fprintf( stderr, "usage: %s casefile\n", argv[0] ); return 2; }
        std::ifstream in( argv[1] );
        vcase::Case c;
        while ( vcase::read_case( in, c )) {
            long variant = c.cfg.size() > 0 ? c.cfg[0] : 0;
            if ( !dispatch( variant, c ))
                std::printf( "case %s\nendcase unknown-variant\n", c.id.c_str());
            std::fflush( stdout );
        }
        return 0;
    }
}
#endif
