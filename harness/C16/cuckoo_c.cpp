// C16 harness: cds::container::CuckooSet / CuckooMap (cds/container/cuckoo_set.h, cuckoo_map.h).
// Variant number = map*32 + ps*8 + sh*4 + pol*2 + ord        (kept in sync with checks/C16.py)
//   map: 0 CuckooSet<vitem>, 1 CuckooMap<long, long>
//   ps : 0 list probe set, 1 vector<2>, 2 vector<4>
//   sh : 0 / 1 cuckoo::store_hash<false/true>
//   pol: 0 cuckoo::striping<reentrant spin, 2>, 1 cuckoo::refinable<reentrant spin, 2, backoff::empty>
//   ord: 0 unordered (equal_to), 1 ordered (less)
// cfg = [variant, initial capacity, probe-set size (list only), probe-set threshold, h1 mode, h2 mode, nkeys]
// Built per group: -DC16_GROUP=0 the set, =1 the map.
#include <cstring>
#include <cds/container/cuckoo_set.h>
#include <cds/container/cuckoo_map.h>
#include "c16.h"

#ifndef C16_GROUP
#   define C16_GROUP 0
#endif

namespace cc = cds::container;
using c16::result;

struct vitem {
    long key; long val;
    vitem() : key( 0 ), val( 0 ) {}
    vitem( long k ) : key( k ), val( 0 ) {}
    vitem( long k, long v ) : key( k ), val( v ) {}
};
inline long keyof( long k ) { return k; }
inline long keyof( int k ) { return k; }
inline long keyof( vitem const& i ) { return i.key; }
template <class V> inline long keyof( std::pair<long const, V> const& p ) { return p.first; }
struct h1_t { template <class A> size_t operator()( A const& a ) const { return c16::hfun( c16::hcfg().m1, keyof( a )); } };
struct h2_t { template <class A> size_t operator()( A const& a ) const { return c16::hfun( c16::hcfg().m2, keyof( a )); } };
struct eq_t   { template <class A, class B> bool operator()( A const& a, B const& b ) const { return keyof( a ) == keyof( b ); } };
struct less_t { template <class A, class B> bool operator()( A const& a, B const& b ) const { return keyof( a ) < keyof( b ); } };

template <int POL> struct policy_of;
template <> struct policy_of<0> { typedef cc::cuckoo::striping< c16::rspin_t, 2, c16::keep_alloc<int> > type; };
template <> struct policy_of<1> { typedef cc::cuckoo::refinable< c16::rspin_t, 2, cds::backoff::empty, c16::keep_alloc<int> > type; };

template <class PS, bool SH, int POL, int ORD> struct traits_of;
template <class PS, bool SH, int POL>
struct traits_of<PS, SH, POL, 0> : public cc::cuckoo::traits {
    typedef cds::opt::hash_tuple< h1_t, h2_t > hash;
    typedef eq_t equal_to;
    typedef PS probeset_type;
    static bool const store_hash = SH;
    typedef typename policy_of<POL>::type mutex_policy;
};
template <class PS, bool SH, int POL>
struct traits_of<PS, SH, POL, 1> : public cc::cuckoo::traits {
    typedef cds::opt::hash_tuple< h1_t, h2_t > hash;
    typedef less_t less;
    typedef PS probeset_type;
    static bool const store_hash = SH;
    typedef typename policy_of<POL>::type mutex_policy;
};

template <class PS, bool SH, int POL, int ORD>
struct set_adapter {
    typedef cc::CuckooSet< vitem, traits_of<PS, SH, POL, ORD> > set_type;
    static const bool is_map = false;
    typedef typename std::conditional< ORD == 0, eq_t, less_t >::type pred_t;
    std::unique_ptr<set_type> s;

    set_adapter( vcase::Case const& c )
    {
        long cap = c.cfg.size() > 1 ? c.cfg[1] : 2, ps = c.cfg.size() > 2 ? c.cfg[2] : 2, th = c.cfg.size() > 3 ? c.cfg[3] : 0;
        s.reset( new set_type( (size_t) cap, (unsigned) ps, (unsigned) th ));
    }
    long size() { return (long) s->size(); }
    long bucket_count() { return (long) s->bucket_count(); }

    result op( int, long code, long k, long a, long b )
    {
        result r; long nf = 0, seen = -1;
        switch ( code ) {
        case 1: r.r1 = s->insert( k ); break;
        case 2: r.r1 = s->insert( k, [&]( vitem& x ) { ++nf; x.val = a; } ); r.r2 = nf; break;
        case 3: {
            bool bnew = false;
            std::pair<bool, bool> p = s->update( k, [&]( bool n, vitem& found, long const& arg ) { ++nf; bnew = n; if ( found.key != arg ) nf += 100; }, b != 0 );
            r.r1 = p.first; r.r2 = p.second;
            if ( p.first && ( nf != 1 || bnew != p.second )) r.r2 = 50 + nf;
            if ( !p.first && nf != 0 ) r.r2 = 50 + nf;
            break;
        }
        case 5: r.r1 = s->erase( k ); break;
        case 6: r.r1 = s->erase( k, [&]( vitem const& x ) { ++nf; seen = x.key; } ); r.r2 = nf; if ( r.r1 && seen != k ) r.r2 = 50; break;
        case 7: r.r1 = s->find( k, [&]( vitem& x, long const& ) { ++nf; seen = x.key; } ); r.r2 = r.r1 ? seen : 0; if ( r.r1 && nf != 1 ) r.r2 = 50 + nf; break;
        case 8: r.r1 = s->contains( k ); break;
        case 9: r.r1 = s->emplace( k, a ); break;
        case 10: r.r1 = s->erase_with( k, pred_t()); break;
        case 11: r.r1 = s->find_with( k, pred_t(), [&]( vitem& x, long const& ) { ++nf; seen = x.key; } ); r.r2 = r.r1 ? seen : 0; break;
        case 12: r.r1 = s->contains( k, pred_t()); break;
        case 13: r.r1 = s->erase_with( k, pred_t(), [&]( vitem const& ) { ++nf; } ); r.r2 = nf; break;
        default: r.supported = false;
        }
        return r;
    }
};

template <class PS, bool SH, int POL, int ORD>
struct map_adapter {
    typedef cc::CuckooMap< long, long, traits_of<PS, SH, POL, ORD> > map_type;
    typedef typename map_type::value_type value_type;
    static const bool is_map = true;
    typedef typename std::conditional< ORD == 0, eq_t, less_t >::type pred_t;
    std::unique_ptr<map_type> s;

    map_adapter( vcase::Case const& c )
    {
        long cap = c.cfg.size() > 1 ? c.cfg[1] : 2, ps = c.cfg.size() > 2 ? c.cfg[2] : 2, th = c.cfg.size() > 3 ? c.cfg[3] : 0;
        s.reset( new map_type( (size_t) cap, (unsigned) ps, (unsigned) th ));
    }
    long size() { return (long) s->size(); }
    long bucket_count() { return (long) s->bucket_count(); }

    // results: find -> r1 found, r2 value
    result op( int, long code, long k, long a, long b )
    {
        result r; long nf = 0, seen = 0;
        switch ( code ) {
        case 1: r.r1 = s->insert( k, a ); break;
        case 2: r.r1 = s->insert_with( k, [&]( value_type& x ) { ++nf; x.second = a; } ); r.r2 = nf; break;
        case 3: {
            bool bnew = false;
            std::pair<bool, bool> p = s->update( k, [&]( bool n, value_type& x ) { ++nf; bnew = n; x.second = a; if ( x.first != k ) nf += 100; }, b != 0 );
            r.r1 = p.first; r.r2 = p.second;
            if ( p.first && ( nf != 1 || bnew != p.second )) r.r2 = 50 + nf;
            if ( !p.first && nf != 0 ) r.r2 = 50 + nf;
            break;
        }
        case 5: r.r1 = s->erase( k ); break;
        case 6: r.r1 = s->erase( k, [&]( value_type& x ) { ++nf; seen = x.first; } ); r.r2 = nf; if ( r.r1 && seen != k ) r.r2 = 50; break;
        case 7: r.r1 = s->find( k, [&]( value_type& x ) { ++nf; seen = x.second; } ); r.r2 = r.r1 ? seen : 0; break;
        case 8: r.r1 = s->contains( k ); break;
        case 9: r.r1 = s->emplace( k, a ); break;
        case 10: r.r1 = s->erase_with( k, pred_t()); break;
        case 11: r.r1 = s->find_with( k, pred_t(), [&]( value_type& x ) { ++nf; seen = x.second; } ); r.r2 = r.r1 ? seen : 0; break;
        case 12: r.r1 = s->contains( k, pred_t()); break;
        case 13: r.r1 = s->erase_with( k, pred_t(), [&]( value_type& ) { ++nf; } ); r.r2 = nf; break;
        case 14: r.r1 = s->insert( k ); break;
        default: r.supported = false;
        }
        return r;
    }
};

#if C16_GROUP == 0
#   define ADAPTER set_adapter
#else
#   define ADAPTER map_adapter
#endif

template <bool SH, int POL, int ORD>
bool by_ps( long ps, vcase::Case const& c )
{
    switch ( ps ) {
    case 0: c16::run_case< ADAPTER< cc::cuckoo::list, SH, POL, ORD > >( c ); return true;
    case 1: c16::run_case< ADAPTER< cc::cuckoo::vector<2>, SH, POL, ORD > >( c ); return true;
    case 2: c16::run_case< ADAPTER< cc::cuckoo::vector<4>, SH, POL, ORD > >( c ); return true;
    }
    return false;
}

int main( int argc, char** argv )
{
    return c16::main_loop( argc, argv, []( long v, vcase::Case const& c ) -> bool {
        long map = v >> 5; v &= 31;
        if ( map != C16_GROUP ) return false;
        long ord = v & 1, pol = ( v >> 1 ) & 1, sh = ( v >> 2 ) & 1, ps = v >> 3;
        switch ( sh * 4 + pol * 2 + ord ) {
        case 0: return by_ps<false, 0, 0>( ps, c );
        case 1: return by_ps<false, 0, 1>( ps, c );
        case 2: return by_ps<false, 1, 0>( ps, c );
        case 3: return by_ps<false, 1, 1>( ps, c );
        case 4: return by_ps<true, 0, 0>( ps, c );
        case 5: return by_ps<true, 0, 1>( ps, c );
        case 6: return by_ps<true, 1, 0>( ps, c );
        case 7: return by_ps<true, 1, 1>( ps, c );
        }
        return false;
    } );
}
