// C16 harness: cds::container::StripedSet / StripedMap (cds/container/striped_set.h, striped_map.h) over every bucket adapter.
// Variant number = adapter*4 + pol*2 + rp        (kept in sync with checks/C16.py)
//   set adapters (C16_GROUP 0: 0..3, 1: 4..7, 2: 8..10):
//       0 std::list  1 std::vector  2 std::set  3 std::unordered_set  4 boost::container::list  5 boost slist
//       6 boost::container::vector  7 boost stable_vector  8 boost::container::set  9 boost flat_set  10 boost::unordered_set
//   map adapters (C16_GROUP 3: 0..3, 4: 4..7):
//       0 std::list  1 std::map  2 std::unordered_map  3 boost::container::list  4 boost slist  5 boost::container::map
//       6 boost flat_map  7 boost::unordered_map
//   pol: 0 striped_set::striping<spin_lock>, 1 striped_set::refinable<reentrant spin, backoff::empty>
//   rp : 0 single_bucket_size_threshold<0>(th), 1 rational_load_factor_resizing<0>(th, 16)
// cfg = [variant, capacity, -, th, hash mode, -, nkeys]
#include <cstring>
#ifndef C16_GROUP
#   define C16_GROUP 0
#endif
#include <list>
#include <vector>
#include <set>
#include <map>
#include <unordered_set>
#include <unordered_map>
#include <boost/version.hpp>
#if C16_GROUP == 0
#   include <cds/container/striped_set/std_list.h>
#   include <cds/container/striped_set/std_vector.h>
#   include <cds/container/striped_set/std_set.h>
#   include <cds/container/striped_set/std_hash_set.h>
#elif C16_GROUP == 1
#   include <cds/container/striped_set/boost_list.h>
#   include <cds/container/striped_set/boost_slist.h>
#   include <cds/container/striped_set/boost_vector.h>
#   include <cds/container/striped_set/boost_stable_vector.h>
#elif C16_GROUP == 2
#   include <cds/container/striped_set/boost_set.h>
#   include <cds/container/striped_set/boost_flat_set.h>
#   include <boost/unordered_set.hpp>
#   include <cds/container/striped_set/boost_unordered_set.h>
#elif C16_GROUP == 3
#   include <cds/container/striped_map/std_list.h>
#   include <cds/container/striped_map/std_map.h>
#   include <cds/container/striped_map/std_hash_map.h>
#   include <cds/container/striped_map/boost_list.h>
#else
#   include <cds/container/striped_map/boost_slist.h>
#   include <cds/container/striped_map/boost_map.h>
#   include <cds/container/striped_map/boost_flat_map.h>
#   include <boost/unordered_map.hpp>
#   include <cds/container/striped_map/boost_unordered_map.h>
#endif
#if C16_GROUP <= 2
#   include <cds/container/striped_set.h>
#else
#   include <cds/container/striped_map.h>
#endif
#include "c16.h"

namespace cc = cds::container;
using c16::result;

struct vitem {
    long key; long val;
    vitem() : key( 0 ), val( 0 ) {}
    vitem( long k ) : key( k ), val( 0 ) {}
    vitem( long k, long v ) : key( k ), val( v ) {}
};
inline long keyof( long k ) { return k; }
inline long keyof( int k ) { return k; }
inline long keyof( vitem const& i ) { return i.key; }
template <class K, class V> inline long keyof( std::pair<K, V> const& p ) { return p.first; }
struct hash_t  { template <class A> size_t operator()( A const& a ) const { return c16::hfun( c16::hcfg().m1, keyof( a )); } };
struct bhash_t { template <class A> size_t operator()( A const& a ) const { return (size_t) keyof( a ) * 7 + 3; } };
struct eq_t    { template <class A, class B> bool operator()( A const& a, B const& b ) const { return keyof( a ) == keyof( b ); } };
struct less_t  { template <class A, class B> bool operator()( A const& a, B const& b ) const { return keyof( a ) < keyof( b ); } };

template <int POL> struct policy_of;
template <> struct policy_of<0> { typedef cc::striped_set::striping< c16::spin_t, c16::keep_alloc<int> > type; };
template <> struct policy_of<1> { typedef cc::striped_set::refinable< c16::rspin_t, cds::backoff::empty, c16::keep_alloc<int> > type; };
template <int RP> struct rp_of;
template <> struct rp_of<0> { typedef cc::striped_set::single_bucket_size_threshold<0> type; static type make( long th ) { return type( (size_t) th ); } };
template <> struct rp_of<1> { typedef cc::striped_set::rational_load_factor_resizing<0> type; static type make( long th ) { return type( (size_t) th, 16 ); } };

template <int AD> struct bucket_of;
#if C16_GROUP == 0
template <> struct bucket_of<0> { typedef std::list<vitem> type; static const bool with = true; };
template <> struct bucket_of<1> { typedef std::vector<vitem> type; static const bool with = true; };
template <> struct bucket_of<2> { typedef std::set<vitem, less_t> type; static const bool with = false; };
template <> struct bucket_of<3> { typedef std::unordered_set<vitem, bhash_t, eq_t> type; static const bool with = false; };
#elif C16_GROUP == 1
template <> struct bucket_of<4> { typedef boost::container::list<vitem> type; static const bool with = true; };
template <> struct bucket_of<5> { typedef boost::container::slist<vitem> type; static const bool with = true; };
template <> struct bucket_of<6> { typedef boost::container::vector<vitem> type; static const bool with = true; };
template <> struct bucket_of<7> { typedef boost::container::stable_vector<vitem> type; static const bool with = true; };
#elif C16_GROUP == 2
template <> struct bucket_of<8> { typedef boost::container::set<vitem, less_t> type; static const bool with = false; };
template <> struct bucket_of<9> { typedef boost::container::flat_set<vitem, less_t> type; static const bool with = false; };
template <> struct bucket_of<10> { typedef boost::unordered_set<vitem, bhash_t, eq_t> type; static const bool with = false; };
#elif C16_GROUP == 3
typedef std::pair<long const, long> kv_t;
template <> struct bucket_of<0> { typedef std::list<kv_t> type; static const bool with = true; };
template <> struct bucket_of<1> { typedef std::map<long, long, less_t> type; static const bool with = false; };
template <> struct bucket_of<2> { typedef std::unordered_map<long, long, bhash_t, eq_t> type; static const bool with = false; };
template <> struct bucket_of<3> { typedef boost::container::list<kv_t> type; static const bool with = true; };
#else
typedef std::pair<long const, long> kv_t;
template <> struct bucket_of<4> { typedef boost::container::slist<kv_t> type; static const bool with = true; };
template <> struct bucket_of<5> { typedef boost::container::map<long, long, less_t> type; static const bool with = false; };
template <> struct bucket_of<6> { typedef boost::container::flat_map<long, long, less_t> type; static const bool with = false; };
template <> struct bucket_of<7> { typedef boost::unordered_map<long, long, bhash_t, eq_t> type; static const bool with = false; };
#endif

#if C16_GROUP <= 2
template <int AD, int POL, int RP>
struct adapter {
    typedef cc::StripedSet< typename bucket_of<AD>::type
        , cds::opt::hash< hash_t >
        , cds::opt::less< less_t >
        , cds::opt::mutex_policy< typename policy_of<POL>::type >
        , cds::opt::resizing_policy< typename rp_of<RP>::type >
    > set_type;
    static const bool is_map = false;
    std::unique_ptr<set_type> s;

    adapter( vcase::Case const& c )
    {
        long cap = c.cfg.size() > 1 ? c.cfg[1] : 16, th = c.cfg.size() > 3 ? c.cfg[3] : 1;
        s.reset( new set_type( (size_t) cap, rp_of<RP>::make( th )));
    }
    long size() { return (long) s->size(); }
    long bucket_count() { return (long) s->bucket_count(); }

    template <bool W> typename std::enable_if<W, bool>::type with_ops( result& r, long code, long k )
    {
        long nf = 0, seen = -1;
        switch ( code ) {
        case 10: r.r1 = s->erase_with( k, less_t()); return true;
        case 11: r.r1 = s->find_with( k, less_t(), [&]( vitem& x, long const& ) { ++nf; seen = x.key; } ); r.r2 = r.r1 ? seen : 0; return true;
        case 12: r.r1 = s->contains( k, less_t()); return true;
        case 13: r.r1 = s->erase_with( k, less_t(), [&]( vitem const& ) { ++nf; } ); r.r2 = nf; return true;
        }
        return false;
    }
    template <bool W> typename std::enable_if<!W, bool>::type with_ops( result&, long, long ) { return false; }

    result op( int, long code, long k, long a, long b )
    {
        result r; long nf = 0, seen = -1;
        switch ( code ) {
        case 1: r.r1 = s->insert( k ); break;
        case 2: r.r1 = s->insert( k, [&]( vitem& x ) { ++nf; x.val = a; } ); r.r2 = nf; break;
        case 3: {
            bool bnew = false;
            std::pair<bool, bool> p = s->update( k, [&]( bool n, vitem& found, long const& arg ) { ++nf; bnew = n; if ( found.key != arg ) nf += 100; }, b != 0 );
            r.r1 = p.first; r.r2 = p.second;
            if ( p.first && ( nf != 1 || bnew != p.second )) r.r2 = 50 + nf;
            if ( !p.first && nf != 0 ) r.r2 = 50 + nf;
            break;
        }
        case 5: r.r1 = s->erase( k ); break;
        case 6: r.r1 = s->erase( k, [&]( vitem const& x ) { ++nf; seen = x.key; } ); r.r2 = nf; if ( r.r1 && seen != k ) r.r2 = 50; break;
        case 7: r.r1 = s->find( k, [&]( vitem& x, long const& ) { ++nf; seen = x.key; } ); r.r2 = r.r1 ? seen : 0; if ( r.r1 && nf != 1 ) r.r2 = 50 + nf; break;
        case 8: r.r1 = s->contains( k ); break;
        case 9: r.r1 = s->emplace( k, a ); break;
        default:
            if ( !with_ops< bucket_of<AD>::with >( r, code, k )) r.supported = false;
        }
        return r;
    }
};
#else
template <int AD, int POL, int RP>
struct adapter {
    typedef cc::StripedMap< typename bucket_of<AD>::type
        , cds::opt::hash< hash_t >
        , cds::opt::less< less_t >
        , cds::opt::mutex_policy< typename policy_of<POL>::type >
        , cds::opt::resizing_policy< typename rp_of<RP>::type >
    > map_type;
    typedef typename map_type::value_type value_type;
    static const bool is_map = true;
    std::unique_ptr<map_type> s;

    adapter( vcase::Case const& c )
    {
        long cap = c.cfg.size() > 1 ? c.cfg[1] : 16, th = c.cfg.size() > 3 ? c.cfg[3] : 1;
        s.reset( new map_type( (size_t) cap, rp_of<RP>::make( th )));
    }
    long size() { return (long) s->size(); }
    long bucket_count() { return (long) s->bucket_count(); }

    template <bool W> typename std::enable_if<W, bool>::type with_ops( result& r, long code, long k )
    {
        long nf = 0, seen = 0;
        switch ( code ) {
        case 10: r.r1 = s->erase_with( k, less_t()); return true;
        case 11: r.r1 = s->find_with( k, less_t(), [&]( value_type& x ) { ++nf; seen = x.second; } ); r.r2 = r.r1 ? seen : 0; return true;
        case 12: r.r1 = s->contains( k, less_t()); return true;
        case 13: r.r1 = s->erase_with( k, less_t(), [&]( value_type& ) { ++nf; } ); r.r2 = nf; return true;
        }
        return false;
    }
    template <bool W> typename std::enable_if<!W, bool>::type with_ops( result&, long, long ) { return false; }

    result op( int, long code, long k, long a, long b )
    {
        result r; long nf = 0, seen = 0;
        switch ( code ) {
        case 1: r.r1 = s->insert( k, a ); break;
        case 2: r.r1 = s->insert_with( k, [&]( value_type& x ) { ++nf; x.second = a; } ); r.r2 = nf; break;
        case 3: {
            bool bnew = false;
            std::pair<bool, bool> p = s->update( k, [&]( bool n, value_type& x ) { ++nf; bnew = n; x.second = a; if ( x.first != k ) nf += 100; }, b != 0 );
            r.r1 = p.first; r.r2 = p.second;
            if ( p.first && ( nf != 1 || bnew != p.second )) r.r2 = 50 + nf;
            if ( !p.first && nf != 0 ) r.r2 = 50 + nf;
            break;
        }
        case 5: r.r1 = s->erase( k ); break;
        case 6: r.r1 = s->erase( k, [&]( value_type& x ) { ++nf; seen = x.first; } ); r.r2 = nf; if ( r.r1 && seen != k ) r.r2 = 50; break;
        case 7: r.r1 = s->find( k, [&]( value_type& x ) { ++nf; seen = x.second; } ); r.r2 = r.r1 ? seen : 0; break;
        case 8: r.r1 = s->contains( k ); break;
        case 9: r.r1 = s->emplace( k, a ); break;
        case 14: r.r1 = s->insert( k ); break;
        default:
            if ( !with_ops< bucket_of<AD>::with >( r, code, k )) r.supported = false;
        }
        return r;
    }
};
#endif

template <int AD>
bool by_ad( long pol, long rp, vcase::Case const& c )
{
    switch ( pol * 2 + rp ) {
    case 0: c16::run_case< adapter<AD, 0, 0> >( c ); return true;
    case 1: c16::run_case< adapter<AD, 0, 1> >( c ); return true;
    case 2: c16::run_case< adapter<AD, 1, 0> >( c ); return true;
    case 3: c16::run_case< adapter<AD, 1, 1> >( c ); return true;
    }
    return false;
}

int main( int argc, char** argv )
{
    return c16::main_loop( argc, argv, []( long v, vcase::Case const& c ) -> bool {
        long rp = v & 1, pol = ( v >> 1 ) & 1, ad = v >> 2;
        switch ( ad ) {
#if C16_GROUP == 0 || C16_GROUP == 3
        case 0: return by_ad<0>( pol, rp, c );
        case 1: return by_ad<1>( pol, rp, c );
        case 2: return by_ad<2>( pol, rp, c );
        case 3: return by_ad<3>( pol, rp, c );
#elif C16_GROUP == 1 || C16_GROUP == 4
        case 4: return by_ad<4>( pol, rp, c );
        case 5: return by_ad<5>( pol, rp, c );
        case 6: return by_ad<6>( pol, rp, c );
        case 7: return by_ad<7>( pol, rp, c );
#else
        case 8: return by_ad<8>( pol, rp, c );
        case 9: return by_ad<9>( pol, rp, c );
        case 10: return by_ad<10>( pol, rp, c );
#endif
        }
        return false;
    } );
}
