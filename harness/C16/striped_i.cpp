// C16 harness: cds::intrusive::StripedSet (cds/intrusive/striped_set.h) over every boost::intrusive bucket adapter.
// Variant number = adapter*4 + pol*2 + rp     (kept in sync with checks/C16.py)
//   adapter: 0 list, 1 slist, 2 set, 3 avl_set, 4 sg_set, 5 splay_set, 6 treap_set, 7 unordered_set
//   pol: 0 striped_set::striping<spin_lock>, 1 striped_set::refinable<reentrant spin, backoff::empty>
//   rp : 0 single_bucket_size_threshold<0>(th), 1 rational_load_factor_resizing<0>(th, 16)
// cfg = [variant, capacity (>= 16 enforced by the container), -, th, hash mode, -, nkeys]
// Built per group: -DC16_GROUP=0 adapters 0..3, =1 adapters 4..7.
#include <cstring>
#include <boost/intrusive/list.hpp>
#include <boost/intrusive/slist.hpp>
#include <boost/intrusive/set.hpp>
#include <boost/intrusive/avl_set.hpp>
#include <boost/intrusive/sg_set.hpp>
#include <boost/intrusive/splay_set.hpp>
#include <boost/intrusive/treap_set.hpp>
#include <boost/intrusive/unordered_set.hpp>
#include <cds/intrusive/striped_set/boost_list.h>
#include <cds/intrusive/striped_set/boost_slist.h>
#include <cds/intrusive/striped_set/boost_set.h>
#include <cds/intrusive/striped_set/boost_avl_set.h>
#include <cds/intrusive/striped_set/boost_sg_set.h>
#include <cds/intrusive/striped_set/boost_splay_set.h>
#include <cds/intrusive/striped_set/boost_treap_set.h>
#include <cds/intrusive/striped_set/boost_unordered_set.h>
#include <cds/intrusive/striped_set.h>
#include "c16.h"

#ifndef C16_GROUP
#   define C16_GROUP 0
#endif

namespace ci = cds::intrusive;
namespace bi = boost::intrusive;
using c16::result;

inline long keyof( long k ) { return k; }
inline long keyof( int k ) { return k; }
template <class I> inline long keyof( I const& i ) { return i.key; }
struct hash_t { template <class A> size_t operator()( A const& a ) const { return c16::hfun( c16::hcfg().m1, keyof( a )); } };
struct bhash_t { template <class A> size_t operator()( A const& a ) const { return (size_t) keyof( a ) * 7 + 3; } };   // hash of the inner unordered_set
struct eq_t   { template <class A, class B> bool operator()( A const& a, B const& b ) const { return keyof( a ) == keyof( b ); } };
struct less_t { template <class A, class B> bool operator()( A const& a, B const& b ) const { return keyof( a ) < keyof( b ); } };
struct prio_t { template <class A, class B> bool operator()( A const& a, B const& b ) const { return keyof( b ) * 5 % 7 < keyof( a ) * 5 % 7; } };

template <class Hook> struct item_t : public Hook { long key = 0; long val = 0; };

template <int AD> struct bucket_of;
template <> struct bucket_of<0> { typedef item_t< bi::list_base_hook<> > item;  typedef bi::list< item, bi::constant_time_size<true> > type; };
template <> struct bucket_of<1> { typedef item_t< bi::slist_base_hook<> > item; typedef bi::slist< item, bi::constant_time_size<true> > type; };
template <> struct bucket_of<2> { typedef item_t< bi::set_base_hook<> > item;   typedef bi::set< item, bi::compare<less_t>, bi::constant_time_size<true> > type; };
template <> struct bucket_of<3> { typedef item_t< bi::avl_set_base_hook<> > item; typedef bi::avl_set< item, bi::compare<less_t>, bi::constant_time_size<true> > type; };
template <> struct bucket_of<4> { typedef item_t< bi::bs_set_base_hook<> > item; typedef bi::sg_set< item, bi::compare<less_t> > type; };
template <> struct bucket_of<5> { typedef item_t< bi::bs_set_base_hook<> > item; typedef bi::splay_set< item, bi::compare<less_t>, bi::constant_time_size<true> > type; };
template <> struct bucket_of<6> { typedef item_t< bi::bs_set_base_hook<> > item; typedef bi::treap_set< item, bi::compare<less_t>, bi::priority<prio_t>, bi::constant_time_size<true> > type; };
template <> struct bucket_of<7> { typedef item_t< bi::unordered_set_base_hook<> > item;
    typedef bi::unordered_set< item, bi::hash<bhash_t>, bi::equal<eq_t>, bi::power_2_buckets<true>, bi::incremental<true>, bi::constant_time_size<true> > type; };

template <int POL> struct policy_of;
template <> struct policy_of<0> { typedef ci::striped_set::striping< c16::spin_t, c16::keep_alloc<int> > type; };
template <> struct policy_of<1> { typedef ci::striped_set::refinable< c16::rspin_t, cds::backoff::empty, c16::keep_alloc<int> > type; };

template <int RP> struct rp_of;
template <> struct rp_of<0> { typedef ci::striped_set::single_bucket_size_threshold<0> type; static type make( long th ) { return type( (size_t) th ); } };
template <> struct rp_of<1> { typedef ci::striped_set::rational_load_factor_resizing<0> type; static type make( long th ) { return type( (size_t) th, 16 ); } };

template <int AD, int POL, int RP>
struct adapter {
    typedef typename bucket_of<AD>::item item;
    typedef ci::StripedSet< typename bucket_of<AD>::type
        , ci::opt::hash< hash_t >
        , ci::opt::less< less_t >
        , ci::opt::mutex_policy< typename policy_of<POL>::type >
        , ci::opt::resizing_policy< typename rp_of<RP>::type >
        , ci::opt::buffer< ci::opt::v::initialized_static_buffer< cds::any_type, 8 > >
    > set_type;
    static const bool is_map = false;

    std::vector< std::vector<item> > items;
    std::unique_ptr<set_type> s;

    adapter( vcase::Case const& c )
    {
        long cap = c.cfg.size() > 1 ? c.cfg[1] : 16, th = c.cfg.size() > 3 ? c.cfg[3] : 1;
        long nkeys = c.cfg.size() > 6 ? c.cfg[6] : 6;
        items.resize( 8 );
        for ( auto& v : items ) { v = std::vector<item>( (size_t) nkeys + 2 ); for ( size_t k = 0; k < v.size(); ++k ) v[k].key = (long) k; }
        s.reset( new set_type( (size_t) cap, rp_of<RP>::make( th )));
    }
    ~adapter()
    {
        s->clear();     // boost hooks (safe mode) must be unlinked before the items die
        s.reset();
    }
    long size() { return (long) s->size(); }
    long bucket_count() { return (long) s->bucket_count(); }

    result op( int t, long code, long k, long a, long b )
    {
        result r;
        item& it = items[t][k];
        long nf = 0, seen = -1;
        switch ( code ) {
        case 1: r.r1 = s->insert( it ); break;
        case 2: r.r1 = s->insert( it, [&]( item& x ) { ++nf; x.val = a; } ); r.r2 = nf; break;
        case 3: {
            bool bnew = false;
            std::pair<bool, bool> p = s->update( it, [&]( bool n, item& found, item& arg ) { ++nf; bnew = n; if ( found.key != arg.key ) nf += 100; }, b != 0 );
            r.r1 = p.first; r.r2 = p.second;
            if ( p.first && ( nf != 1 || bnew != p.second )) r.r2 = 50 + nf;
            if ( !p.first && nf != 0 ) r.r2 = 50 + nf;
            break;
        }
        case 4: r.r1 = s->unlink( it ); break;
        case 5: r.r1 = s->erase( k ) != nullptr; break;
        case 6: { item* p = s->erase( k, [&]( item const& x ) { ++nf; seen = x.key; } ); r.r1 = p != nullptr; r.r2 = nf; if ( p && ( seen != k || p->key != k )) r.r2 = 50; break; }
        case 7: r.r1 = s->find( k, [&]( item& x, long const& ) { ++nf; seen = x.key; } ); r.r2 = r.r1 ? seen : 0; if ( r.r1 && nf != 1 ) r.r2 = 50 + nf; break;
        case 8: r.r1 = s->contains( k ); break;
        case 10: r.r1 = s->erase_with( k, less_t()) != nullptr; break;
        case 11: r.r1 = s->find_with( k, less_t(), [&]( item& x, long const& ) { ++nf; seen = x.key; } ); r.r2 = r.r1 ? seen : 0; break;
        case 12: r.r1 = s->contains( k, less_t()); break;
        case 13: { item* p = s->erase_with( k, less_t(), [&]( item const& x ) { ++nf; } ); r.r1 = p != nullptr; r.r2 = nf; break; }
        default: r.supported = false;
        }
        return r;
    }
};

template <int AD>
bool by_ad( long pol, long rp, vcase::Case const& c )
{
    switch ( pol * 2 + rp ) {
    case 0: c16::run_case< adapter<AD, 0, 0> >( c ); return true;
    case 1: c16::run_case< adapter<AD, 0, 1> >( c ); return true;
    case 2: c16::run_case< adapter<AD, 1, 0> >( c ); return true;
    case 3: c16::run_case< adapter<AD, 1, 1> >( c ); return true;
    }
    return false;
}

int main( int argc, char** argv )
{
    return c16::main_loop( argc, argv, []( long v, vcase::Case const& c ) -> bool {
        long rp = v & 1, pol = ( v >> 1 ) & 1, ad = v >> 2;
        switch ( ad ) {
#if C16_GROUP == 0
        case 0: return by_ad<0>( pol, rp, c );
        case 1: return by_ad<1>( pol, rp, c );
        case 2: return by_ad<2>( pol, rp, c );
        case 3: return by_ad<3>( pol, rp, c );
#else
        case 4: return by_ad<4>( pol, rp, c );
        case 5: return by_ad<5>( pol, rp, c );
        case 6: return by_ad<6>( pol, rp, c );
        case 7: return by_ad<7>( pol, rp, c );
#endif
        }
        return false;
    } );
}
