// C15 step-correspondence harness for LV.Model.SkipList: cds::intrusive::SkipListSet<cds::gc::HP> with a
// deterministic level generator (max height 3), item counter on, empty statistics, no back-off.
// Prints the full event log (every atomic access) in the format of ocaml/conc_main.ml.
// cfg = [prefill mask over keys 0..3, h0..h3 (tower height - 1 of the prefilled keys)]
// op  = "1 k h" insert (tower height h+1) | "6 k" erase | "10 k" contains | "13" extract_min | "14" extract_max
// events: inv <code> <k> ; res <a> <b>     (a = success/found, b = key returned by extract_*, else 0)
#include <cds/init.h>
#include <cds/gc/hp.h>
#include <cds/intrusive/skip_list_hp.h>
#include <cds/threading/model.h>
#include <vcase.h>
#include <memory>

namespace vs = khizmax_libcds_verif;
namespace ci = cds::intrusive;

static unsigned& next_level() { static thread_local unsigned l = 0; return l; }
struct level_gen {
    static unsigned int const c_nUpperBound = 3;
    unsigned int operator()() { unsigned l = next_level(); return l < 3 ? l : 2; }
};
struct item : public ci::skip_list::node< cds::gc::HP > { int key; item( int k ): key( k ) {} };
struct cmp {
    int operator()( item const& a, item const& b ) const { return a.key < b.key ? -1 : a.key > b.key ? 1 : 0; }
    int operator()( item const& a, int b ) const { return a.key < b ? -1 : a.key > b ? 1 : 0; }
    int operator()( int a, item const& b ) const { return a < b.key ? -1 : a > b.key ? 1 : 0; }
};
struct no_disposer { void operator()( item* ) const {} };
struct traits : public ci::skip_list::traits {
    typedef ci::skip_list::base_hook< cds::opt::gc< cds::gc::HP > > hook;
    typedef cmp compare;
    typedef no_disposer disposer;
    typedef cds::atomicity::item_counter item_counter;
    typedef level_gen random_level_generator;
    typedef cds::backoff::empty back_off;
};
typedef ci::SkipListSet< cds::gc::HP, item, traits > set_type;

int main( int argc, char** argv )
{
    if ( argc < 2 ) return 2;
    cds::Initialize();
    {
        cds::gc::HP hp( 16, 8, 4096 );       // retired arrays large enough: no scan inside a case
        cds::threading::Manager::attachThread();
        std::ifstream in( argv[1] );
        vcase::Case c;
        while ( vcase::read_case( in, c )) {
            std::unique_ptr<set_type> s( new set_type );
            long mask = c.cfg.size() > 0 ? c.cfg[0] : 0;
            for ( int k = 0; k < 4; ++k )
                if ( mask & ( 1L << k )) {
                    next_level() = c.cfg.size() > size_t( 1 + k ) ? (unsigned) c.cfg[1 + k] : 0;
                    s->insert( *new item( k ));
                }
            vcase::run_workers( c, [&]( int t ) {
                for ( auto const& op : c.threads[t] ) {
                    if ( op.empty()) continue;
                    long code = op[0], k = op.size() > 1 ? op[1] : 0;
                    vcase::emitf( "inv %ld %ld", code, k );
                    long a = 0, b = 0;
                    if ( code == 1 ) { next_level() = op.size() > 2 ? (unsigned) op[2] : 0; a = s->insert( *new item( (int) k )); }
                    else if ( code == 6 ) a = s->erase( (int) k );
                    else if ( code == 10 ) a = s->contains( (int) k );
                    else if ( code == 13 ) { set_type::guarded_ptr gp( s->extract_min()); if ( gp ) { a = 1; b = gp->key; } }
                    else if ( code == 14 ) { set_type::guarded_ptr gp( s->extract_max()); if ( gp ) { a = 1; b = gp->key; } }
                    vcase::emitf( "res %ld %ld", a, b );
                }
            },
            [&]( int ) { cds::threading::Manager::attachThread(); },
            [&]( int ) { cds::threading::Manager::detachThread(); },
            60000 );
            vcase::print_log( c );
            std::printf( "monitor contents" );
            for ( auto it = s->begin(); it != s->end(); ++it ) std::printf( " %d", it->key );
            std::printf( "\n" );
            std::fflush( stdout );
            s.release();      // the set and its items are leaked: addresses are never reused inside the process
        }
        cds::threading::Manager::detachThread();
    }
    cds::Terminate();
    return 0;
}
