// Structural probe for BronsonAVLTreeMap (C18).  The library's check_consistency() returns max(hLeft,hRight)
// without adding one for the node itself, so every subtree has "height 0" and its balance test can never fire;
// this probe walks the quiescent tree itself: strict global key order, parent links, stored height exact,
// AVL balance |hL-hR| <= 1, no routing node (node without value) with fewer than two children, no node left
// shrinking/unlinked.  The root pointer is a protected member reached through an explicit instantiation.
#ifndef VERIF_C15_PROBE_BRONSON_H
#define VERIF_C15_PROBE_BRONSON_H
#include "c15.h"

namespace c15 {

    template <class Base, class Node>
    struct bronson_root_tag {
        typedef Node* Base::* type;
        friend type get( bronson_root_tag );
    };
#define C15_ROB_BRONSON_ROOT( Base, Node ) template struct c15::rob< c15::bronson_root_tag< Base, Node >, &Base::m_pRoot >

    struct bronson_walk {
        bool order = true, parents = true, heights = true, balance = true, routing = true, versions = true;
        size_t nodes = 0, valued = 0, routing_nodes = 0;
        std::string detail, shape;
    };

    // returns the real height of the subtree
    template <class Node, class ValOf>
    int bronson_walk_node( Node* n, Node* parent, bool has_lo, long lo, bool has_hi, long hi, bronson_walk& w, std::string& iter, ValOf valof, int depth )
    {
        if ( !n ) { w.shape += "."; return 0; }
        if ( depth > 4096 ) { w.order = false; return 0; }
        ++w.nodes;
        long k = (long) n->m_key;
        if ( has_lo && !( lo < k )) w.order = false;
        if ( has_hi && !( k < hi )) w.order = false;
        if ( n->m_pParent.load( atomics::memory_order_acquire ) != parent ) w.parents = false;
        unsigned ver = n->m_nVersion.load( atomics::memory_order_acquire );
        if ( ver & Node::version_flags ) w.versions = false;
        Node* l = n->m_pLeft.load( atomics::memory_order_acquire );
        Node* r = n->m_pRight.load( atomics::memory_order_acquire );
        w.shape += "(";
        int hl = bronson_walk_node( l, n, has_lo, lo, true, k, w, iter, valof, depth + 1 );
        w.shape += " " + std::to_string( k ) + ( n->m_pValue.load( atomics::memory_order_acquire ) ? "v" : "r" ) + std::to_string( n->m_nHeight.load( atomics::memory_order_acquire )) + " ";
        auto pv = n->m_pValue.load( atomics::memory_order_acquire );
        if ( pv ) { ++w.valued; add_kv( iter, k, valof( pv )); }
        else {
            ++w.routing_nodes;
            if ( !l || !r ) { w.routing = false; w.detail += "routing" + std::to_string( k ) + ","; }
        }
        int hr = bronson_walk_node( r, n, true, k, has_hi, hi, w, iter, valof, depth + 1 );
        w.shape += ")";
        int h = 1 + ( hl > hr ? hl : hr );
        int stored = n->m_nHeight.load( atomics::memory_order_acquire );
        if ( stored != h ) { w.heights = false; w.detail += "h" + std::to_string( k ) + "=" + std::to_string( stored ) + "/" + std::to_string( h ) + ","; }
        if ( hl - hr > 1 || hr - hl > 1 ) { w.balance = false; w.detail += "bal" + std::to_string( k ) + "=" + std::to_string( hl ) + ":" + std::to_string( hr ) + ","; }
        return h;
    }

    template <class Node, class ValOf>
    void bronson_probe( Node* rootHolder, monitor_out& mo, ValOf valof, bool lib_check )
    {
        bronson_walk w;
        Node* root = rootHolder->m_pRight.load( atomics::memory_order_acquire );
        int h = bronson_walk_node( root, rootHolder, false, 0, false, 0, w, mo.iter, valof, 0 );
        mo.shape = w.shape;
        add_struct( mo, "bronson_bst_order", w.order );
        add_struct( mo, "bronson_parent_links", w.parents );
        add_struct( mo, "bronson_stored_heights_exact", w.heights, w.detail );
        add_struct( mo, "bronson_avl_balance", w.balance, "height=" + std::to_string( h ) + ",nodes=" + std::to_string( w.nodes ) + ",routing=" + std::to_string( w.routing_nodes ));
        add_struct( mo, "bronson_no_removable_routing_node", w.routing );
        add_struct( mo, "bronson_versions_quiescent", w.versions );
        add_struct( mo, "bronson_check_consistency", lib_check );
    }
}
#endif
