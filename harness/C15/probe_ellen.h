// Structural probe for EllenBinTree (C18): walks the quiescent tree from the (protected) root through a derived
// class and checks the leaf-oriented search-tree invariant globally (the library's check_consistency() compares
// each node only with its two children), the sentinels, that no update descriptor is left flagged, and returns
// the leaves in order.
#ifndef VERIF_C15_PROBE_ELLEN_H
#define VERIF_C15_PROBE_ELLEN_H
#include "c15.h"

namespace c15 {

    struct ekey { int inf; long k; };      // inf: 0 = regular key, 1 = Inf1, 2 = Inf2
    inline bool elt( ekey a, ekey b ) { return a.inf != b.inf ? a.inf < b.inf : ( a.inf == 0 && a.k < b.k ); }

    // Tree: a class derived from the intrusive EllenBinTree (directly or through the container)
    template <class Tree>
    struct ellen_prober : public Tree
    {
        typedef typename Tree::tree_node     tree_node;
        typedef typename Tree::internal_node internal_node;
        typedef typename Tree::leaf_node     leaf_node;
        typedef typename Tree::update_desc   update_desc;

        struct walk_state {
            bool order = true, two = true, clean = true, sentinels = true;
            std::vector<leaf_node*> leaves;
            size_t internals = 0, depth = 0;
            std::string shape;
        };

        static ekey key_of_flags( tree_node* n )
        {
            unsigned f = n->infinite_key();
            ekey e; e.k = 0;
            e.inf = ( f & tree_node::key_infinite2 ) ? 2 : ( f & tree_node::key_infinite1 ) ? 1 : 0;
            return e;
        }

        template <class LeafKey>
        void walk( tree_node* n, bool has_lo, ekey lo, bool has_hi, ekey hi, size_t d, walk_state& st, LeafKey leafkey )
        {
            if ( !n ) { st.two = false; return; }
            if ( d > st.depth ) st.depth = d;
            if ( d > 4096 ) { st.order = false; return; }
            if ( n->is_leaf()) {
                leaf_node* l = static_cast<leaf_node*>( n );
                ekey k = key_of_flags( n );
                if ( k.inf == 0 ) k.k = leafkey( l );
                if ( has_lo && elt( k, lo )) st.order = false;       // need lo <= k
                if ( has_hi && !elt( k, hi )) st.order = false;      // need k < hi
                st.leaves.push_back( l );
                st.shape += k.inf ? ( k.inf == 1 ? "Linf1" : "Linf2" ) : "L" + std::to_string( k.k );
                return;
            }
            internal_node* in = static_cast<internal_node*>( n );
            ++st.internals;
            ekey k = key_of_flags( n );
            if ( k.inf == 0 ) k.k = (long) in->m_Key;
            if ( in->m_pUpdate.load( atomics::memory_order_acquire ).bits() != update_desc::Clean ) st.clean = false;
            if ( has_lo && elt( k, lo )) st.order = false;
            if ( has_hi && elt( hi, k )) st.order = false;
            st.shape += ( k.inf ? ( k.inf == 1 ? "Iinf1" : "Iinf2" ) : "I" + std::to_string( k.k )) + "(";
            walk( in->m_pLeft.load( atomics::memory_order_acquire ), has_lo, lo, true, k, d + 1, st, leafkey );
            st.shape += ",";
            walk( in->m_pRight.load( atomics::memory_order_acquire ), true, k, has_hi, hi, d + 1, st, leafkey );
            st.shape += ")";
        }

        // leafkey( leaf_node* ) -> long, leafval( leaf_node* ) -> long
        template <class LeafKey, class LeafVal>
        void probe( monitor_out& mo, LeafKey leafkey, LeafVal leafval )
        {
            walk_state st;
            ekey none; none.inf = 0; none.k = 0;
            walk( &this->m_Root, false, none, false, none, 0, st, leafkey );
            size_t n = st.leaves.size();
            if ( n < 2 || st.leaves[n - 1] != &this->m_LeafInf2 || st.leaves[n - 2] != &this->m_LeafInf1 ) st.sentinels = false;
            bool sorted = true;
            for ( size_t i = 0; i + 2 < n; ++i ) {
                if ( key_of_flags( st.leaves[i] ).inf != 0 ) { st.sentinels = false; continue; }
                add_kv( mo.iter, leafkey( st.leaves[i] ), leafval( st.leaves[i] ));
                if ( i > 0 && !( leafkey( st.leaves[i - 1] ) < leafkey( st.leaves[i] ))) sorted = false;
            }
            mo.shape = st.shape;
            add_struct( mo, "ellen_bst_order", st.order && sorted );
            add_struct( mo, "ellen_internal_two_children", st.two && st.internals + 1 == n, "internals=" + std::to_string( st.internals ) + ",leaves=" + std::to_string( n ) + ",depth=" + std::to_string( st.depth ));
            add_struct( mo, "ellen_sentinels", st.sentinels );
            add_struct( mo, "ellen_updates_clean", st.clean );
            add_struct( mo, "ellen_check_consistency", this->check_consistency());
        }
    };
}
#endif
