// C15 step-correspondence harness for LV.Model.Ellen: cds::intrusive::EllenBinTree<cds::gc::HP> (base hook, int keys),
// item counter on, empty statistics, no back-off.  Prints the full event log (every atomic access) in the format of
// ocaml/conc_main.ml.
// cfg = [prefill mask over keys 0..3]   (prefilled by the main thread in increasing key order)
// op  = "1 k" insert | "6 k" erase | "10 k" contains
// events: inv <code> <k> ; res <a> 0     (a = success/found)
#include <cds/init.h>
#include <cds/gc/hp.h>
#include <cds/intrusive/ellen_bintree_hp.h>
#include <cds/threading/model.h>
#include <vcase.h>
#include <memory>

namespace vs = khizmax_libcds_verif;
namespace ci = cds::intrusive;

struct item : public ci::ellen_bintree::node< cds::gc::HP > { int key; item( int k ): key( k ) {} };
struct cmp {
    int operator()( item const& a, item const& b ) const { return a.key < b.key ? -1 : a.key > b.key ? 1 : 0; }
    int operator()( item const& a, int b ) const { return a.key < b ? -1 : a.key > b ? 1 : 0; }
    int operator()( int a, item const& b ) const { return a < b.key ? -1 : a > b.key ? 1 : 0; }
    int operator()( int a, int b ) const { return a < b ? -1 : a > b ? 1 : 0; }
};
struct key_ex { void operator()( int& k, item const& v ) const { k = v.key; } };
struct no_disposer { void operator()( item* ) const {} };
// internal nodes and update descriptors are never recycled: an address is never reused inside the process (the
// default allocator would hand the block of a deleted, never linked internal node out again, depending on what else
// the process allocated in between)
template <typename T> struct leaky_alloc {
    typedef T value_type;
    leaky_alloc() {}
    template <typename U> leaky_alloc( leaky_alloc<U> const& ) {}
    template <typename U> struct rebind { typedef leaky_alloc<U> other; };
    T* allocate( std::size_t n ) { return static_cast<T*>( ::operator new( n * sizeof( T ))); }
    void deallocate( T*, std::size_t ) {}
    template <typename U> bool operator==( leaky_alloc<U> const& ) const { return true; }
    template <typename U> bool operator!=( leaky_alloc<U> const& ) const { return false; }
};
struct traits : public ci::ellen_bintree::traits {
    typedef ci::ellen_bintree::base_hook< cds::opt::gc< cds::gc::HP > > hook;
    typedef key_ex key_extractor;
    typedef cmp compare;
    typedef no_disposer disposer;
    typedef cds::atomicity::item_counter item_counter;
    typedef cds::backoff::empty back_off;
    typedef leaky_alloc<int> node_allocator;
    typedef leaky_alloc<int> update_desc_allocator;
};
typedef ci::EllenBinTree< cds::gc::HP, int, item, traits > set_type;

int main( int argc, char** argv )
{
    if ( argc < 2 ) return 2;
    cds::Initialize();
    {
        cds::gc::HP hp( 16, 8, 4096 );       // retired arrays large enough: no scan inside a case
        cds::threading::Manager::attachThread();
        std::ifstream in( argv[1] );
        vcase::Case c;
        while ( vcase::read_case( in, c )) {
            std::unique_ptr<set_type> s( new set_type );
            long mask = c.cfg.size() > 0 ? c.cfg[0] : 0;
            for ( int k = 0; k < 4; ++k )
                if ( mask & ( 1L << k ))
                    s->insert( *new item( k ));
            vcase::run_workers( c, [&]( int t ) {
                for ( auto const& op : c.threads[t] ) {
                    if ( op.empty()) continue;
                    long code = op[0], k = op.size() > 1 ? op[1] : 0;
                    vcase::emitf( "inv %ld %ld", code, k );
                    long a = 0, b = 0;
                    if ( code == 1 ) a = s->insert( *new item( (int) k ));
                    else if ( code == 6 ) a = s->erase( (int) k );
                    else if ( code == 10 ) a = s->contains( (int) k );
                    vcase::emitf( "res %ld %ld", a, b );
                }
            },
            [&]( int ) { cds::threading::Manager::attachThread(); },
            [&]( int ) { cds::threading::Manager::detachThread(); },
            60000 );
            vcase::print_log( c );
            std::printf( "monitor contents" );
            for ( int k = 0; k < 8; ++k ) if ( s->contains( k )) std::printf( " %d", k );
            std::printf( "\n" );
            std::fflush( stdout );
            s.release();      // the tree and its nodes are leaked: addresses are never reused inside the process
        }
        cds::threading::Manager::detachThread();
    }
    cds::Terminate();
    return 0;
}
