// Structural probe for the skip lists (C18: "every skip-list level is an ordered sub-list of the level below").
// The head tower is a private member of cds::intrusive::SkipListSet; it is reached through an explicit
// template instantiation (which is exempt from access checking), not by editing the library.
#ifndef VERIF_C15_PROBE_SKIP_H
#define VERIF_C15_PROBE_SKIP_H
#include "c15.h"
#include <map>
#include <set>

namespace c15 {

    template <class IB>
    struct skip_head_tag {
        typedef cds::intrusive::skip_list::details::head_node< typename IB::node_type > IB::* type;
        friend type get( skip_head_tag );
    };
#define C15_ROB_SKIP_HEAD( IB ) template struct c15::rob< c15::skip_head_tag< IB >, &IB::m_Head >

    // INode = cds::intrusive::skip_list::node<gc>; keyof( INode* ) -> long
    template <class INode, class KeyOf>
    void check_towers( INode* head, unsigned maxh, KeyOf keyof, monitor_out& mo )
    {
        std::vector< std::vector<INode*> > lv( maxh );
        bool marks = false, heights_ok = true, cyc = false;
        for ( unsigned L = 0; L < maxh; ++L ) {
            auto p = head->next( L ).load( atomics::memory_order_acquire );
            size_t guard = 0;
            while ( p.ptr()) {
                if ( p.bits()) marks = true;
                INode* n = p.ptr();
                if ( n->height() <= L ) { heights_ok = false; break; }
                lv[L].push_back( n );
                p = n->next( L ).load( atomics::memory_order_acquire );
                if ( ++guard > 10000 ) { cyc = true; break; }
            }
            if ( p.bits()) marks = true;
        }
        bool sorted = true, sub = true, full = true;
        std::string heights;
        for ( unsigned L = 0; L < maxh; ++L ) {
            for ( size_t i = 1; i < lv[L].size(); ++i )
                if ( !( keyof( lv[L][i - 1] ) < keyof( lv[L][i] ))) sorted = false;
            if ( L > 0 ) {
                // lv[L] must be a subsequence of lv[L-1]
                size_t j = 0;
                for ( size_t i = 0; i < lv[L].size(); ++i ) {
                    while ( j < lv[L - 1].size() && lv[L - 1][j] != lv[L][i] ) ++j;
                    if ( j == lv[L - 1].size()) { sub = false; break; }
                    ++j;
                }
                // completeness (stronger than the property): every node of height > L is linked at level L
                size_t cnt = 0;
                for ( auto n : lv[0] ) if ( n->height() > L ) ++cnt;
                if ( cnt != lv[L].size()) full = false;
            }
        }
        for ( auto n : lv[0] ) heights += std::to_string( keyof( n )) + "h" + std::to_string( n->height()) + ",";
        add_struct( mo, "skip_level0_sorted_nodup", sorted && !cyc );
        add_struct( mo, "skip_levels_are_sublists", sub && heights_ok && !cyc );
        add_struct( mo, "skip_no_marked_reachable", !marks );
        add_struct( mo, "skip_towers_complete", full, heights );
        mo.shape = heights;
    }
}
#endif
