// C15 / C18 harness: ordered sets and maps of libcds under the deterministic scheduler.  See c15.h for the
// case format and the output.  Built once per group of variants (-DC15_GROUP=<g>), the groups compile in parallel:
//   0  cds::container::SkipListSet   variants  0 HP   1 DHP   2 RCU general_instant   3 RCU general_buffered
//   1  cds::container::SkipListMap   variants 10 HP  11 DHP  12 RCU gpi  13 RCU gpb
//   2  cds::container::EllenBinTreeSet        20 HP  21 DHP  22 RCU gpi  23 RCU gpb
//   3  cds::container::EllenBinTreeMap        30 HP  31 DHP  32 RCU gpi  33 RCU gpb
//   4  cds::container::BronsonAVLTreeMap<RCU, int, bval>    (value variant)
//                                             40 gpi + injecting_monitor   41 gpi + pool_monitor
//                                             42 gpb + injecting_monitor   43 gpb + pool_monitor
//   5  cds::container::BronsonAVLTreeMap<RCU, int, bval*>   (pointer variant)   50..53 as above
//   6  cds::intrusive::SkipListSet            60 HP  61 RCU gpi        (unlink available)
//   7  cds::intrusive::EllenBinTree           70 HP  71 RCU gpi        (unlink available)
// usage: main <casefile>
#ifndef C15_GROUP
#   define C15_GROUP 0
#endif

#include "c15.h"

#if C15_GROUP == 0
#   include <cds/container/skip_list_set_hp.h>
#   include <cds/container/skip_list_set_dhp.h>
#   include <cds/container/skip_list_set_rcu.h>
#   include "probe_skip.h"
#elif C15_GROUP == 1
#   include <cds/container/skip_list_map_hp.h>
#   include <cds/container/skip_list_map_dhp.h>
#   include <cds/container/skip_list_map_rcu.h>
#   include "probe_skip.h"
#elif C15_GROUP == 2
#   include <cds/container/ellen_bintree_set_hp.h>
#   include <cds/container/ellen_bintree_set_dhp.h>
#   include <cds/container/ellen_bintree_set_rcu.h>
#   include "probe_ellen.h"
#elif C15_GROUP == 3
#   include <cds/container/ellen_bintree_map_hp.h>
#   include <cds/container/ellen_bintree_map_dhp.h>
#   include <cds/container/ellen_bintree_map_rcu.h>
#   include "probe_ellen.h"
#elif C15_GROUP == 4 || C15_GROUP == 5
#   include <cds/container/bronson_avltree_map_rcu.h>
#   include <cds/sync/injecting_monitor.h>
#   include <cds/sync/pool_monitor.h>
#   include <cds/memory/vyukov_queue_pool.h>
#   include "probe_bronson.h"
#elif C15_GROUP == 6
#   include <cds/intrusive/skip_list_hp.h>
#   include <cds/intrusive/skip_list_rcu.h>
#   include "probe_skip.h"
#elif C15_GROUP == 7
#   include <cds/intrusive/ellen_bintree_hp.h>
#   include <cds/intrusive/ellen_bintree_rcu.h>
#   include "probe_ellen.h"
#endif

namespace cc = cds::container;
namespace ci = cds::intrusive;
using namespace c15;

template <class GC, bool RCU> struct rcu_guard { rcu_guard() {} };
template <class GC> struct rcu_guard<GC, true> { typename GC::scoped_lock l; };

// =========================================================================================================
#if C15_GROUP == 0 || C15_GROUP == 1
static const unsigned SKIP_MAXH = 8;

#if C15_GROUP == 0
struct sl_traits : public cc::skip_list::traits {
    typedef item_cmp compare;
    typedef cds::atomicity::item_counter item_counter;
    typedef det_level_gen<SKIP_MAXH> random_level_generator;
};
template <class GC> struct sl_types {
    typedef cc::SkipListSet< GC, item, sl_traits > cont;
    typedef cc::details::make_skip_list_set< GC, item, sl_traits > maker;
    static long key_of( typename maker::node_type const& n ) { return n.m_Value.key; }
    static long val_of( typename maker::node_type const& n ) { return n.m_Value.val; }
    template <class It> static long it_key( It& it ) { return it->key; }
    template <class It> static long it_val( It& it ) { return it->val; }
};
#else
struct sl_traits : public cc::skip_list::traits {
    typedef int_cmp compare;
    typedef cds::atomicity::item_counter item_counter;
    typedef det_level_gen<SKIP_MAXH> random_level_generator;
};
template <class GC> struct sl_types {
    typedef cc::SkipListMap< GC, int, int, sl_traits > cont;
    typedef cc::details::make_skip_list_map< GC, int, int, sl_traits > maker;
    static long key_of( typename maker::node_type const& n ) { return n.m_Value.first; }
    static long val_of( typename maker::node_type const& n ) { return n.m_Value.second; }
    template <class It> static long it_key( It& it ) { return it->first; }
    template <class It> static long it_val( It& it ) { return it->second; }
};
#endif

typedef sl_types<cds::gc::HP>::maker::type  ib_hp;
typedef sl_types<cds::gc::DHP>::maker::type ib_dhp;
typedef sl_types<rcu_gpi>::maker::type      ib_gpi;
typedef sl_types<rcu_gpb>::maker::type      ib_gpb;
C15_ROB_SKIP_HEAD( ib_hp );
C15_ROB_SKIP_HEAD( ib_dhp );
C15_ROB_SKIP_HEAD( ib_gpi );
C15_ROB_SKIP_HEAD( ib_gpb );

template <class GC, bool RCU>
struct skip_adapter
#if C15_GROUP == 0
    : public set_ops< typename sl_types<GC>::cont, typename std::conditional< RCU, rcu_ptr_ops< typename sl_types<GC>::cont >, hp_ptr_ops< typename sl_types<GC>::cont > >::type >
#else
    : public map_ops< typename sl_types<GC>::cont, typename std::conditional< RCU, rcu_mptr_ops< typename sl_types<GC>::cont >, hp_mptr_ops< typename sl_types<GC>::cont > >::type >
#endif
{
    typedef sl_types<GC> T;
    typedef typename T::cont cont;
    typedef typename T::maker::type IB;
    typedef typename T::maker::node_type cnode;
    typedef typename IB::node_type inode;
    struct probe : public cont {
        inode* head() { IB& ib = *this; return ( ib.*get( skip_head_tag<IB>())).head(); }
    } s;

    R apply( long code, long k, long v )
    {
#if C15_GROUP == 0
        return this->apply_set( s, code, k, v );
#else
        return this->apply_map( s, code, k, v );
#endif
    }
    void monitor( monitor_out& mo )
    {
        {
            rcu_guard<GC, RCU> g;
            for ( auto it = s.begin(); it != s.end(); ++it )
                add_kv( mo.iter, T::it_key( it ), T::it_val( it ));
        }
        mo.size = (long) s.size();
        mo.empty = s.empty() ? 1 : 0;
        check_towers( s.head(), SKIP_MAXH, []( inode* n ) { return T::key_of( *static_cast<cnode*>( n )); }, mo );
    }
};
#endif

// =========================================================================================================
#if C15_GROUP == 2 || C15_GROUP == 3
struct set_leaf_key { template <class L> long operator()( L* l ) const { return l->m_Value.key; } };
struct set_leaf_val { template <class L> long operator()( L* l ) const { return l->m_Value.val; } };
struct map_leaf_key { template <class L> long operator()( L* l ) const { return l->m_Value.first; } };
struct map_leaf_val { template <class L> long operator()( L* l ) const { return l->m_Value.second; } };

#if C15_GROUP == 2
struct el_traits : public cc::ellen_bintree::traits {
    typedef item_key_extractor key_extractor;
    typedef item_cmp compare;
    typedef cds::atomicity::item_counter item_counter;
};
template <class GC> struct el_types { typedef cc::EllenBinTreeSet< GC, int, item, el_traits > cont; };
#else
struct el_traits : public cc::ellen_bintree::traits {
    typedef int_cmp compare;
    typedef cds::atomicity::item_counter item_counter;
};
template <class GC> struct el_types { typedef cc::EllenBinTreeMap< GC, int, int, el_traits > cont; };
#endif

template <class GC, bool RCU>
struct ellen_adapter
#if C15_GROUP == 2
    : public set_ops< typename el_types<GC>::cont, typename std::conditional< RCU, rcu_ptr_ops< typename el_types<GC>::cont >, hp_ptr_ops< typename el_types<GC>::cont > >::type >
#else
    : public map_ops< typename el_types<GC>::cont, typename std::conditional< RCU, rcu_mptr_ops< typename el_types<GC>::cont >, hp_mptr_ops< typename el_types<GC>::cont > >::type >
#endif
{
    typedef typename el_types<GC>::cont cont;
    ellen_prober<cont> s;
    R apply( long code, long k, long v )
    {
#if C15_GROUP == 2
        return this->apply_set( static_cast<cont&>( s ), code, k, v );
#else
        return this->apply_map( static_cast<cont&>( s ), code, k, v );
#endif
    }
    void monitor( monitor_out& mo )
    {
        mo.size = (long) s.size();
        mo.empty = s.empty() ? 1 : 0;
#if C15_GROUP == 2
        s.probe( mo, set_leaf_key(), set_leaf_val());
#else
        s.probe( mo, map_leaf_key(), map_leaf_val());
#endif
    }
};
#endif

// =========================================================================================================
#if C15_GROUP == 4 || C15_GROUP == 5
struct bval { int v; bval(): v( 0 ) {} bval( int x ): v( x ) {} };
typedef cds::sync::injecting_monitor< cds::sync::spin > mon_inj;
typedef cds::sync::pool_monitor< cds::memory::vyukov_queue_pool< cds::sync::spin > > mon_pool;
template <class Mon> struct br_traits : public cc::bronson_avltree::traits {
    typedef int_cmp compare;
    typedef cds::atomicity::item_counter item_counter;
    typedef Mon sync_monitor;
};
struct bval_of { long operator()( bval* p ) const { return p->v; } };

#if C15_GROUP == 4
template <class GC, class Mon> struct br_types {
    typedef cc::BronsonAVLTreeMap< GC, int, bval, br_traits<Mon> > cont;
    typedef typename cc::bronson_avltree::details::make_map< GC, int, bval, br_traits<Mon> >::type base;
    typedef cc::bronson_avltree::node< int, bval*, Mon > node;
};
#else
template <class GC, class Mon> struct br_types {
    typedef cc::BronsonAVLTreeMap< GC, int, bval*, br_traits<Mon> > cont;
    typedef cont base;
    typedef cc::bronson_avltree::node< int, bval*, Mon > node;
};
#endif
typedef br_types< rcu_gpi, mon_inj >  brt_0;
typedef br_types< rcu_gpi, mon_pool > brt_1;
typedef br_types< rcu_gpb, mon_inj >  brt_2;
typedef br_types< rcu_gpb, mon_pool > brt_3;
C15_ROB_BRONSON_ROOT( brt_0::base, brt_0::node );
C15_ROB_BRONSON_ROOT( brt_1::base, brt_1::node );
C15_ROB_BRONSON_ROOT( brt_2::base, brt_2::node );
C15_ROB_BRONSON_ROOT( brt_3::base, brt_3::node );

template <class BT>
struct bronson_adapter
{
    typedef typename BT::cont cont;
    typedef typename BT::base base;
    typedef typename BT::node node;
    cont s;
    long fbad = 0;

    R apply( long code, long k, long v )
    {
        int ik = (int) k, iv = (int) v;
        switch ( code ) {
#if C15_GROUP == 4
        case 1: return R( s.insert( ik, bval( iv )));
        case 2: {
            int n = 0;
            bool b = s.insert_with( ik, [&]( int const& key, bval& i ) { ++n; if ( key != ik ) ++fbad; i.v = iv; } );
            if ( n != ( b ? 1 : 0 )) ++fbad;
            return R( b );
        }
        case 3: case 4: {
            int n = 0; bool nw = false;
            std::pair<bool, bool> p = s.update( ik, [&]( bool bNew, int const& key, bval& i ) { ++n; nw = bNew; if ( key != ik ) ++fbad; i.v = iv; }, code == 4 );
            if ( n != ( p.first ? 1 : 0 ) || ( p.first && nw != p.second )) ++fbad;
            return R( p.first, p.second );
        }
        case 5: return R( s.emplace( ik, iv ));
#else
        case 1: case 2: case 5: {
            bval* p = new bval( iv );
            bool b = s.insert( ik, p );
            if ( !b ) delete p;
            return R( b );
        }
        case 3: case 4: {
            bval* p = new bval( iv );
            std::pair<bool, bool> r = s.update( ik, p, code == 4 );
            if ( !r.first ) delete p;
            return R( r.first, r.second );
        }
#endif
        case 6: case 9: return R( s.erase( ik ));
        case 7: {
            int n = 0;
            bool b = s.erase( ik, [&]( int const& key, bval& ) { ++n; if ( key != ik ) ++fbad; } );
            if ( n != ( b ? 1 : 0 )) ++fbad;
            return R( b );
        }
        case 8: { typename cont::exempt_ptr ep( s.extract( ik )); return ep ? R( 1, ik, ep->v ) : R(); }
        case 10: return R( s.contains( ik ));
        case 11: case 12: {
            int n = 0; long val = 0;
            bool b = s.find( ik, [&]( int const& key, bval& i ) { ++n; val = i.v; if ( key != ik ) ++fbad; } );
            if ( n != ( b ? 1 : 0 )) ++fbad;
            return R( b, val );
        }
        case 13: case 14: {
            int n = 0; long key = -1;
            auto f = [&]( int const& kk ) { ++n; key = kk; };
            typename cont::exempt_ptr ep( code == 13 ? s.extract_min( f ) : s.extract_max( f ));
            if ( n != ( ep ? 1 : 0 )) ++fbad;
            return ep ? R( 1, key, ep->v ) : R();
        }
        }
        return R( -1 );
    }
    void monitor( monitor_out& mo )
    {
        mo.size = (long) s.size();
        mo.empty = s.empty() ? 1 : 0;
        base& b = (base&) s;     // C-style cast: the value variant derives privately from the pointer variant
        node* rootHolder = b.*get( bronson_root_tag< base, node >());
        bronson_probe( rootHolder, mo, bval_of(), s.check_consistency());
    }
};
#endif

// =========================================================================================================
#if C15_GROUP == 6 || C15_GROUP == 7
// intrusive containers: items are allocated by the harness and never freed (the disposer only counts); an item is
// inserted at most once.  unlink(k) uses the calling thread's own latest item with key k (or a fresh one).
template <class Item> struct count_disposer {
    static long& calls() { static long n = 0; return n; }
    void operator()( Item* ) const { ++calls(); }
};

#if C15_GROUP == 6
static const unsigned SKIP_MAXH = 8;
template <class GC> struct iitem : public ci::skip_list::node<GC> {
    int key; int val;
    iitem( int k, int v ): key( k ), val( v ) {}
};
template <class GC> struct icmp {
    int operator()( iitem<GC> const& a, iitem<GC> const& b ) const { return a.key < b.key ? -1 : a.key > b.key ? 1 : 0; }
    int operator()( iitem<GC> const& a, int b ) const { return a.key < b ? -1 : a.key > b ? 1 : 0; }
    int operator()( int a, iitem<GC> const& b ) const { return a < b.key ? -1 : a > b.key ? 1 : 0; }
};
template <class GC> struct itraits : public ci::skip_list::traits {
    typedef ci::skip_list::base_hook< cds::opt::gc<GC> > hook;
    typedef icmp<GC> compare;
    typedef count_disposer< iitem<GC> > disposer;
    typedef cds::atomicity::item_counter item_counter;
    typedef det_level_gen<SKIP_MAXH> random_level_generator;
};
template <class GC> struct itypes { typedef ci::SkipListSet< GC, iitem<GC>, itraits<GC> > cont; };
typedef itypes<cds::gc::HP>::cont icont_hp;
typedef itypes<rcu_gpi>::cont     icont_gpi;
C15_ROB_SKIP_HEAD( icont_hp );
C15_ROB_SKIP_HEAD( icont_gpi );
#else
template <class GC> struct iitem : public ci::ellen_bintree::node<GC> {
    int key; int val;
    iitem( int k, int v ): key( k ), val( v ) {}
};
template <class GC> struct icmp {
    int operator()( iitem<GC> const& a, iitem<GC> const& b ) const { return a.key < b.key ? -1 : a.key > b.key ? 1 : 0; }
    int operator()( iitem<GC> const& a, int b ) const { return a.key < b ? -1 : a.key > b ? 1 : 0; }
    int operator()( int a, iitem<GC> const& b ) const { return a < b.key ? -1 : a > b.key ? 1 : 0; }
    int operator()( int a, int b ) const { return a < b ? -1 : a > b ? 1 : 0; }
};
template <class GC> struct ikey_extractor { void operator()( int& k, iitem<GC> const& v ) const { k = v.key; } };
template <class GC> struct itraits : public ci::ellen_bintree::traits {
    typedef ci::ellen_bintree::base_hook< cds::opt::gc<GC> > hook;
    typedef ikey_extractor<GC> key_extractor;
    typedef icmp<GC> compare;
    typedef count_disposer< iitem<GC> > disposer;
    typedef cds::atomicity::item_counter item_counter;
};
template <class GC> struct itypes { typedef ci::EllenBinTree< GC, int, iitem<GC>, itraits<GC> > cont; };
template <class GC> struct ileaf_key { template <class L> long operator()( L* l ) const { return static_cast< iitem<GC>* >( l )->key; } };
template <class GC> struct ileaf_val { template <class L> long operator()( L* l ) const { return static_cast< iitem<GC>* >( l )->val; } };
#endif

template <class Set> struct ihp_ops {
    static R wrap( typename Set::guarded_ptr gp ) { return gp ? R( 1, gp->key, gp->val ) : R(); }
    static R extract( Set& s, int k ) { return wrap( s.extract( k )); }
    static R extract_min( Set& s ) { return wrap( s.extract_min()); }
    static R extract_max( Set& s ) { return wrap( s.extract_max()); }
    static R get( Set& s, int k ) { typename Set::guarded_ptr gp( s.get( k )); return gp ? R( 1, gp->val ) : R(); }
};
template <class Set> struct ircu_ops {
    static R wrap( typename Set::exempt_ptr ep ) { return ep ? R( 1, ep->key, ep->val ) : R(); }
    static R extract( Set& s, int k ) { return wrap( s.extract( k )); }
    static R extract_min( Set& s ) { return wrap( s.extract_min()); }
    static R extract_max( Set& s ) { return wrap( s.extract_max()); }
    static R get( Set& s, int k )
    {
        typename Set::rcu_lock l;
        auto rp = s.get( k );
        return rp ? R( 1, rp->val ) : R();
    }
};

template <class GC, bool RCU>
struct intrusive_adapter
{
    typedef typename itypes<GC>::cont cont;
    typedef iitem<GC> Item;
    typedef typename std::conditional< RCU, ircu_ops<cont>, ihp_ops<cont> >::type P;
#if C15_GROUP == 6
    struct probe : public cont {
        typename cont::node_type* head() { cont& ib = *this; return ( ib.*get( skip_head_tag<cont>())).head(); }
    } s;
#else
    ellen_prober<cont> s;
#endif
    long fbad = 0;
    // per thread (index 8 = main): key -> (own latest item, inserted successfully)
    std::pair<Item*, bool> own[9][NKEYS];

    intrusive_adapter() { for ( auto& a : own ) for ( auto& p : a ) p = std::make_pair( (Item*) nullptr, false ); }

    R apply( long code, long k, long v )
    {
        int ik = (int) k, iv = (int) v;
        int t = vs::my_tid(); if ( t < 0 || t > 7 ) t = 8;
        cont& c = s;
        switch ( code ) {
        case 1: case 5: {
            Item* p = new Item( ik, iv );
            bool b = c.insert( *p );
            if ( ik < NKEYS ) own[t][ik] = std::make_pair( p, b );
            return R( b );
        }
        case 2: {
            Item* p = new Item( ik, iv ); int n = 0;
            bool b = c.insert( *p, [&]( Item& i ) { ++n; if ( &i != p ) ++fbad; } );
            if ( n != ( b ? 1 : 0 )) ++fbad;
            if ( ik < NKEYS ) own[t][ik] = std::make_pair( p, b );
            return R( b );
        }
        case 3: case 4: {
            Item* p = new Item( ik, iv ); int n = 0; bool nw = false;
            std::pair<bool, bool> r = c.update( *p, [&]( bool bNew, Item& i, Item& val ) {
                ++n; nw = bNew; if ( i.key != ik || &val != p || ( bNew && &i != p )) ++fbad; i.val = iv; }, code == 4 );
            if ( n != ( r.first ? 1 : 0 ) || ( r.first && nw != r.second )) ++fbad;
            if ( ik < NKEYS ) own[t][ik] = std::make_pair( p, r.first && r.second );
            return R( r.first, r.second );
        }
        case 6: return R( c.erase( ik ));
        case 7: {
            int n = 0;
            bool b = c.erase( ik, [&]( Item const& i ) { ++n; if ( i.key != ik ) ++fbad; } );
            if ( n != ( b ? 1 : 0 )) ++fbad;
            return R( b );
        }
        case 8: return P::extract( c, ik );
        case 9: {
            Item* p = ik < NKEYS ? own[t][ik].first : nullptr;
            bool was = p && own[t][ik].second;
            if ( !p ) p = new Item( ik, iv );
            bool b = c.unlink( *p );
            if ( b && ik < NKEYS ) own[t][ik].second = false;
            return R( b, was );
        }
        case 10: return R( c.contains( ik ));
        case 11: {
            int n = 0; long val = 0;
            bool b = c.find( ik, [&]( Item& i, int const& ) { ++n; val = i.val; if ( i.key != ik ) ++fbad; } );
            if ( n != ( b ? 1 : 0 )) ++fbad;
            return R( b, val );
        }
        case 12: return P::get( c, ik );
        case 13: return P::extract_min( c );
        case 14: return P::extract_max( c );
        }
        return R( -1 );
    }
    void monitor( monitor_out& mo )
    {
        cont& c = s;
        mo.size = (long) c.size();
        mo.empty = c.empty() ? 1 : 0;
#if C15_GROUP == 6
        {
            rcu_guard<GC, RCU> g;
            for ( auto it = c.begin(); it != c.end(); ++it )
                add_kv( mo.iter, it->key, it->val );
        }
        typedef typename cont::node_type inode;
        check_towers( s.head(), SKIP_MAXH, []( inode* n ) { return (long) static_cast<Item*>( n )->key; }, mo );
#else
        s.probe( mo, ileaf_key<GC>(), ileaf_val<GC>());
#endif
    }
};
#endif

// =========================================================================================================
int main( int argc, char** argv )
{
    if ( argc < 2 ) { std::fprintf( stderr, "usage: %s casefile\n", argv[0] ); return 2; }
    cds::Initialize();
    {
        cds::gc::HP hp( 40, 8, 16 );
        cds::gc::DHP dhp( 16 );
        rcu_gpi gpi;
        rcu_gpb gpb( 4 );
        cds::threading::Manager::attachThread();
        std::ifstream in( argv[1] );
        vcase::Case c;
        while ( vcase::read_case( in, c )) {
            long variant = c.cfg.size() > 0 ? c.cfg[0] : 0;
            switch ( variant ) {
#if C15_GROUP == 0 || C15_GROUP == 1
            case C15_GROUP * 10 + 0: run_variant< skip_adapter< cds::gc::HP, false > >( c ); break;
            case C15_GROUP * 10 + 1: run_variant< skip_adapter< cds::gc::DHP, false > >( c ); break;
            case C15_GROUP * 10 + 2: run_variant< skip_adapter< rcu_gpi, true > >( c ); break;
            case C15_GROUP * 10 + 3: run_variant< skip_adapter< rcu_gpb, true > >( c ); break;
#endif
#if C15_GROUP == 2 || C15_GROUP == 3
            case C15_GROUP * 10 + 0: run_variant< ellen_adapter< cds::gc::HP, false > >( c ); break;
            case C15_GROUP * 10 + 1: run_variant< ellen_adapter< cds::gc::DHP, false > >( c ); break;
            case C15_GROUP * 10 + 2: run_variant< ellen_adapter< rcu_gpi, true > >( c ); break;
            case C15_GROUP * 10 + 3: run_variant< ellen_adapter< rcu_gpb, true > >( c ); break;
#endif
#if C15_GROUP == 4 || C15_GROUP == 5
            case C15_GROUP * 10 + 0: run_variant< bronson_adapter< brt_0 > >( c ); break;
            case C15_GROUP * 10 + 1: run_variant< bronson_adapter< brt_1 > >( c ); break;
            case C15_GROUP * 10 + 2: run_variant< bronson_adapter< brt_2 > >( c ); break;
            case C15_GROUP * 10 + 3: run_variant< bronson_adapter< brt_3 > >( c ); break;
#endif
#if C15_GROUP == 6 || C15_GROUP == 7
            case C15_GROUP * 10 + 0: run_variant< intrusive_adapter< cds::gc::HP, false > >( c ); break;
            case C15_GROUP * 10 + 1: run_variant< intrusive_adapter< rcu_gpi, true > >( c ); break;
#endif
            default:
                std::printf( "case %s\nendcase unknown-variant\n", c.id.c_str());
            }
            std::fflush( stdout );
        }
        cds::threading::Manager::detachThread();
    }
    cds::Terminate();
    return 0;
}
