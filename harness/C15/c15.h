// C15 / C18 harness, common part.
//
// Runs client programs on the real libcds ordered sets and maps (skip lists, EllenBinTree, BronsonAVLTreeMap)
// under the deterministic scheduler (hooks/include/khizmax_libcds_verif) and prints, per case,
//     case <id>
//     <tid> ev inv <code> <k> <v>          operation invoked   (client-visible events only: the atomic accesses
//     <tid> ev res <a> <b> <c>             operation returned   are scheduling points but are not printed)
//     endcase finished|fuel
//     monitor prefill <k>:<ok> ...          what the main thread inserted before the run (sequential)
//     monitor final <k>:<found>:<val> ...   sequential sweep by the main thread after the run (find of every key)
//     monitor iter <k>:<v> ...              traversal of the quiescent structure (iterators / leaf walk)
//     monitor size <n> empty <b>
//     monitor struct <name> <ok> <detail>   structural checks at the quiescent point (C18): towers, consistency
//     monitor functor_bad <n>               functor contract violations seen by the harness
//
// Operation codes (op = "code k v h"; h = tower height - 1 for skip lists, ignored elsewhere):
//      1 insert          2 insert with functor    3 update (no insert)   4 upsert (update, insert allowed)
//      5 emplace         6 erase                  7 erase with functor   8 extract(k)
//      9 unlink (intrusive containers; others: erase)                   10 contains
//     11 find with functor                       12 get                 13 extract_min      14 extract_max
// Results:  bool ops: res b 0 0;  update: res ok inserted 0;  find_f/get: res found val 0;
//           extract*: res found key val.
// cfg = [variant, prefill mask over keys 0..7, h0..h7 (tower height - 1 of the prefilled keys), sequential-mode flag,
//        pre-erase mask: prefilled keys erased again by the main thread before the run (leaves re-usable empty nodes
//        in IterableList, marked leftovers elsewhere)]
#ifndef VERIF_C15_H
#define VERIF_C15_H

#include <cds/init.h>
#include <cds/gc/hp.h>
#include <cds/gc/dhp.h>
#include <cds/urcu/general_instant.h>
#include <cds/urcu/general_buffered.h>
#include <cds/sync/spinlock.h>
#include <cds/threading/model.h>
#include <vcase.h>
#include <chrono>
#include <memory>
#include <string>
#include <unistd.h>
#include <utility>
#include <vector>

namespace c15 {
    namespace vs = khizmax_libcds_verif;

    // The RCU implementations take their global lock as a template argument; std::mutex would block a worker
    // inside the kernel while it holds the scheduler's baton, so a libcds spin lock (instrumented atomics) is used.
    typedef cds::urcu::gc< cds::urcu::general_instant< cds::sync::spin > > rcu_gpi;
    typedef cds::urcu::gc< cds::urcu::general_buffered<
        cds::container::VyukovMPMCCycleQueue< cds::urcu::epoch_retired_ptr >, cds::sync::spin > > rcu_gpb;

    static const int NKEYS = 8;

    struct R { long a, b, c; R( long x = 0, long y = 0, long z = 0 ): a( x ), b( y ), c( z ) {} };

    // --- deterministic tower heights: the harness sets the height of the next node built by this thread ---
    struct level_feed {
        static unsigned& next() { static thread_local unsigned l = 0; return l; }
    };
    template <unsigned Max>
    struct det_level_gen {
        static unsigned int const c_nUpperBound = Max;
        unsigned int operator()() { unsigned l = level_feed::next(); return l < Max ? l : Max - 1; }
    };

    // --- set element ---
    struct item {
        int key; int val;
        item(): key( 0 ), val( 0 ) {}
        item( int k ): key( k ), val( 0 ) {}
        item( int k, int v ): key( k ), val( v ) {}
    };
    struct item_cmp {
        int operator()( item const& a, item const& b ) const { return a.key < b.key ? -1 : a.key > b.key ? 1 : 0; }
        int operator()( item const& a, int b ) const { return a.key < b ? -1 : a.key > b ? 1 : 0; }
        int operator()( int a, item const& b ) const { return a < b.key ? -1 : a > b.key ? 1 : 0; }
        int operator()( int a, int b ) const { return a < b ? -1 : a > b ? 1 : 0; }
    };
    struct item_less {
        bool operator()( item const& a, item const& b ) const { return a.key < b.key; }
        bool operator()( item const& a, int b ) const { return a.key < b; }
        bool operator()( int a, item const& b ) const { return a < b.key; }
        bool operator()( int a, int b ) const { return a < b; }
    };
    struct int_cmp { int operator()( int a, int b ) const { return a < b ? -1 : a > b ? 1 : 0; } };
    struct item_key_extractor { void operator()( int& k, item const& v ) const { k = v.key; } };

    struct monitor_out {
        std::string iter, structural, shape;
        long size = -1; int empty = -1;
    };

    // --- watchdog: a case that does not finish within the time limit (livelock of the real container, also after the
    //     scheduler gave up at the step limit) is reported as "endcase hang" and the process exits with status 3 ---
    struct watchdog {
        static std::atomic<long long>& deadline() { static std::atomic<long long> d( 0 ); return d; }
        static std::string& current() { static std::string s; return s; }
        static long long now() { return std::chrono::duration_cast<std::chrono::milliseconds>( std::chrono::steady_clock::now().time_since_epoch()).count(); }
        static void start()
        {
            static bool started = false;
            if ( started ) return;
            started = true;
            std::thread( [] {
                for ( ;; ) {
                    std::this_thread::sleep_for( std::chrono::milliseconds( 200 ));
                    long long d = deadline().load();
                    if ( d != 0 && now() > d ) {
                        std::printf( "case %s\nendcase hang\n", current().c_str());
                        std::fflush( stdout );
                        _exit( 3 );
                    }
                }
            } ).detach();
        }
        static void arm( std::string const& id, int seconds ) { current() = id; deadline().store( now() + 1000LL * seconds ); }
        static void disarm() { deadline().store( 0 ); }
    };

    // --- sequential mode (C18): cfg[10] == 1.  The operations of thread 0 are executed by the main thread, one after
    //     the other; after EVERY operation the quiescent structure is probed.  Output per operation:
    //         q <code> <k> <v> <a> <b> <c>
    //         Q size=<n> empty=<b> bad=<failed structural checks|-> iter=<k:v ...> shape=<family specific dump>
    template <class A>
    void run_sequential( vcase::Case const& c )
    {
        watchdog::arm( c.id, 120 );
        std::unique_ptr<A> a( new A );
        std::printf( "case %s\n", c.id.c_str());
        if ( !c.threads.empty())
        for ( auto const& op : c.threads[0] ) {
            if ( op.empty()) continue;
            long code = op[0], k = op.size() > 1 ? op[1] : 0, v = op.size() > 2 ? op[2] : 0;
            level_feed::next() = op.size() > 3 ? (unsigned) op[3] : 0;
            R r = a->apply( code, k, v );
            monitor_out mo;
            a->monitor( mo );
            std::string bad;
            size_t p = 0;
            while (( p = mo.structural.find( "monitor struct ", p )) != std::string::npos ) {
                size_t e = mo.structural.find( '\n', p );
                std::string line = mo.structural.substr( p + 15, e - p - 15 );
                size_t sp = line.find( ' ' );
                if ( sp != std::string::npos && line[sp + 1] == '0' ) bad += line.substr( 0, sp ) + ",";
                p = e;
            }
            std::printf( "q %ld %ld %ld %ld %ld %ld\nQ size=%ld empty=%d bad=%s iter=%s shape=%s\n", code, k, v, r.a, r.b, r.c,
                         mo.size, mo.empty, bad.empty() ? "-" : bad.c_str(), mo.iter.c_str(), mo.shape.c_str());
        }
        std::printf( "endcase finished\nmonitor functor_bad %ld\n", a->fbad );
        a.reset();
    }

    // --- the runner ------------------------------------------------------------------------------------
    // A (adapter) provides:  R apply( long code, long k, long v );  void monitor( monitor_out& );  long fbad;
    template <class A>
    void run_variant( vcase::Case const& c, size_t max_steps = 60000 )
    {
        watchdog::start();
        watchdog::arm( c.id, 12 );
        if ( c.cfg.size() > 10 && c.cfg[10] == 1 ) { run_sequential<A>( c ); watchdog::disarm(); return; }
        std::unique_ptr<A> a( new A );
        long mask = c.cfg.size() > 1 ? c.cfg[1] : 0;
        std::string pre;
        for ( int k = 0; k < NKEYS; ++k ) {
            if ( mask & ( 1L << k )) {
                level_feed::next() = c.cfg.size() > size_t( 2 + k ) ? (unsigned) c.cfg[2 + k] : 0;
                R r = a->apply( 1, k, 100 + k );
                pre += " " + std::to_string( k ) + ":" + std::to_string( r.a );
            }
        }
        long emask = c.cfg.size() > 11 ? c.cfg[11] : 0;
        std::string pree;
        for ( int k = 0; k < NKEYS; ++k )
            if ( emask & ( 1L << k )) {
                R r = a->apply( 6, k, 0 );
                pree += " " + std::to_string( k ) + ":" + std::to_string( r.a );
            }
        vcase::run_workers( c, [&]( int t ) {
            for ( auto const& op : c.threads[t] ) {
                if ( op.empty()) continue;
                long code = op[0], k = op.size() > 1 ? op[1] : 0, v = op.size() > 2 ? op[2] : 0;
                level_feed::next() = op.size() > 3 ? (unsigned) op[3] : 0;
                vcase::emitf( "inv %ld %ld %ld", code, k, v );
                R r = a->apply( code, k, v );
                vcase::emitf( "res %ld %ld %ld", r.a, r.b, r.c );
            }
        },
        [&]( int ) { cds::threading::Manager::attachThread(); },
        [&]( int ) { cds::threading::Manager::detachThread(); },
        max_steps );

        std::printf( "case %s\n", c.id.c_str());
        for ( auto const& l : vs::S().log )
            if ( l.find( " ev " ) != std::string::npos ) { std::fputs( l.c_str(), stdout ); std::fputc( '\n', stdout ); }
        std::printf( "endcase %s\n", vs::S().overrun ? "fuel" : "finished" );
        std::printf( "monitor steps %zu\n", vs::S().step );
        std::printf( "monitor prefill%s\n", pre.c_str());
        std::printf( "monitor preerase%s\n", pree.c_str());
        {   // scheduled steps per worker (atomic accesses + begin), used to enumerate switch points
            std::vector<long> ts( c.threads.size(), 0 );
            for ( auto const& l : vs::S().log )
                if ( l.find( " ev " ) == std::string::npos ) { int t = std::atoi( l.c_str()); if ( t >= 0 && (size_t) t < ts.size()) ++ts[t]; }
            std::printf( "monitor tsteps" );
            for ( long x : ts ) std::printf( " %ld", x );
            std::printf( "\n" );
        }
        {   // per worker: the (1-based) indices of its scheduled steps that are CAS / exchange accesses ("<tid> <kind> o<id> ..."),
            // used by the implementation-guided window schedules of checks/C15.py (lib/conc_windows2.py, impl_profiler)
            std::vector<long> idx( c.threads.size(), 0 );
            std::vector<std::string> tw( c.threads.size());
            for ( auto const& l : vs::S().log ) {
                if ( l.find( " ev " ) != std::string::npos ) continue;
                int t = std::atoi( l.c_str());
                if ( t < 0 || (size_t) t >= idx.size()) continue;
                ++idx[t];
                size_t sp = l.find( ' ' );
                if ( sp != std::string::npos && ( l.compare( sp + 1, 4, "cas " ) == 0 || l.compare( sp + 1, 5, "xchg " ) == 0 ))
                    tw[t] += ( tw[t].empty() ? "" : "," ) + std::to_string( idx[t] );
            }
            std::printf( "monitor twrites" );
            for ( size_t t = 0; t < tw.size(); ++t ) std::printf( " %zu:%s", t, tw[t].c_str());
            std::printf( "\n" );
        }
        // quiescent point: structure first (before the sweep's own operations), then the sweep
        monitor_out mo;
        a->monitor( mo );
        std::printf( "monitor iter%s\n", mo.iter.c_str());
        std::printf( "monitor size %ld empty %d\n", mo.size, mo.empty );
        if ( !mo.structural.empty()) std::printf( "%s", mo.structural.c_str());
        std::printf( "monitor shape %s\n", mo.shape.c_str());
        std::printf( "monitor final" );
        for ( int k = 0; k < NKEYS; ++k ) {
            R r = a->apply( 11, k, 0 );
            std::printf( " %d:%ld:%ld", k, r.a, r.b );
        }
        std::printf( "\n" );
        std::printf( "monitor functor_bad %ld\n", a->fbad );
        a.reset();
        watchdog::disarm();
    }

    // --- adapters for the cds::container sets (SkipListSet, EllenBinTreeSet) -----------------------------
    template <class Set> struct hp_ptr_ops {
        template <class K> static R extract( Set& s, K const& k ) { typename Set::guarded_ptr gp( s.extract( k )); return gp ? R( 1, gp->key, gp->val ) : R(); }
        static R extract_min( Set& s ) { typename Set::guarded_ptr gp( s.extract_min()); return gp ? R( 1, gp->key, gp->val ) : R(); }
        static R extract_max( Set& s ) { typename Set::guarded_ptr gp( s.extract_max()); return gp ? R( 1, gp->key, gp->val ) : R(); }
        template <class K> static R get( Set& s, K const& k ) { typename Set::guarded_ptr gp( s.get( k )); return gp ? R( 1, gp->val ) : R(); }
    };
    template <class Set> struct rcu_ptr_ops {
        template <class K> static R extract( Set& s, K const& k ) { typename Set::exempt_ptr ep( s.extract( k )); return ep ? R( 1, ep->key, ep->val ) : R(); }
        static R extract_min( Set& s ) { typename Set::exempt_ptr ep( s.extract_min()); return ep ? R( 1, ep->key, ep->val ) : R(); }
        static R extract_max( Set& s ) { typename Set::exempt_ptr ep( s.extract_max()); return ep ? R( 1, ep->key, ep->val ) : R(); }
        template <class K> static R get( Set& s, K const& k )
        {
            typename Set::rcu_lock l;
            auto rp = s.get( k );       // raw_ptr (skip list) or value_type* (EllenBinTree)
            return rp ? R( 1, rp->val ) : R();
        }
    };

    template <class Set, class PtrOps>
    struct set_ops {
        long fbad = 0;
        R apply_set( Set& s, long code, long k, long v )
        {
            int ik = (int) k, iv = (int) v;
            switch ( code ) {
            case 1: return R( s.insert( item( ik, iv )));
            case 2: {
                int n = 0;
                bool b = s.insert( item( ik, iv ), [&]( item& i ) { ++n; if ( i.key != ik ) ++fbad; } );
                if ( n != ( b ? 1 : 0 )) ++fbad;
                return R( b );
            }
            case 3: case 4: {
                int n = 0; bool nw = false;
                std::pair<bool, bool> p = s.update( item( ik, iv ), [&]( bool bNew, item& i, item const& ) { ++n; nw = bNew; if ( i.key != ik ) ++fbad; i.val = iv; }, code == 4 );
                if ( n != ( p.first ? 1 : 0 ) || ( p.first && nw != p.second )) ++fbad;
                return R( p.first, p.second );
            }
            case 5: return R( s.emplace( ik, iv ));
            case 6: case 9: return R( s.erase( ik ));
            case 7: {
                int n = 0;
                bool b = s.erase( ik, [&]( item const& i ) { ++n; if ( i.key != ik ) ++fbad; } );
                if ( n != ( b ? 1 : 0 )) ++fbad;
                return R( b );
            }
            case 8: return PtrOps::extract( s, ik );
            case 10: return R( s.contains( ik ));
            case 11: {
                int n = 0; long val = 0;
                bool b = s.find( ik, [&]( item& i, int const& ) { ++n; val = i.val; if ( i.key != ik ) ++fbad; } );
                if ( n != ( b ? 1 : 0 )) ++fbad;
                return R( b, val );
            }
            case 12: return PtrOps::get( s, ik );
            case 13: return PtrOps::extract_min( s );
            case 14: return PtrOps::extract_max( s );
            }
            return R( -1 );
        }
    };

    // --- adapters for the cds::container maps (SkipListMap, EllenBinTreeMap): value_type = pair<const int,int> ---
    template <class Map> struct hp_mptr_ops {
        static R extract( Map& s, int k ) { typename Map::guarded_ptr gp( s.extract( k )); return gp ? R( 1, gp->first, gp->second ) : R(); }
        static R extract_min( Map& s ) { typename Map::guarded_ptr gp( s.extract_min()); return gp ? R( 1, gp->first, gp->second ) : R(); }
        static R extract_max( Map& s ) { typename Map::guarded_ptr gp( s.extract_max()); return gp ? R( 1, gp->first, gp->second ) : R(); }
        static R get( Map& s, int k ) { typename Map::guarded_ptr gp( s.get( k )); return gp ? R( 1, gp->second ) : R(); }
    };
    template <class Map> struct rcu_mptr_ops {
        static R extract( Map& s, int k ) { typename Map::exempt_ptr ep( s.extract( k )); return ep ? R( 1, ep->first, ep->second ) : R(); }
        static R extract_min( Map& s ) { typename Map::exempt_ptr ep( s.extract_min()); return ep ? R( 1, ep->first, ep->second ) : R(); }
        static R extract_max( Map& s ) { typename Map::exempt_ptr ep( s.extract_max()); return ep ? R( 1, ep->first, ep->second ) : R(); }
        static R get( Map& s, int k )
        {
            typename Map::rcu_lock l;
            auto rp = s.get( k );
            return rp ? R( 1, rp->second ) : R();
        }
    };

    template <class Map, class PtrOps>
    struct map_ops {
        long fbad = 0;
        typedef typename Map::value_type value_type;
        R apply_map( Map& s, long code, long k, long v )
        {
            int ik = (int) k, iv = (int) v;
            switch ( code ) {
            case 1: return R( s.insert( ik, iv ));
            case 2: {
                int n = 0;
                bool b = s.insert_with( ik, [&]( value_type& i ) { ++n; if ( i.first != ik ) ++fbad; i.second = iv; } );
                if ( n != ( b ? 1 : 0 )) ++fbad;
                return R( b );
            }
            case 3: case 4: {
                int n = 0; bool nw = false;
                std::pair<bool, bool> p = s.update( ik, [&]( bool bNew, value_type& i ) { ++n; nw = bNew; if ( i.first != ik ) ++fbad; i.second = iv; }, code == 4 );
                if ( n != ( p.first ? 1 : 0 ) || ( p.first && nw != p.second )) ++fbad;
                return R( p.first, p.second );
            }
            case 5: return R( s.emplace( ik, iv ));
            case 6: case 9: return R( s.erase( ik ));
            case 7: {
                int n = 0;
                bool b = s.erase( ik, [&]( value_type& i ) { ++n; if ( i.first != ik ) ++fbad; } );
                if ( n != ( b ? 1 : 0 )) ++fbad;
                return R( b );
            }
            case 8: return PtrOps::extract( s, ik );
            case 10: return R( s.contains( ik ));
            case 11: {
                int n = 0; long val = 0;
                bool b = s.find( ik, [&]( value_type& i ) { ++n; val = i.second; if ( i.first != ik ) ++fbad; } );
                if ( n != ( b ? 1 : 0 )) ++fbad;
                return R( b, val );
            }
            case 12: return PtrOps::get( s, ik );
            case 13: return PtrOps::extract_min( s );
            case 14: return PtrOps::extract_max( s );
            }
            return R( -1 );
        }
    };

    inline void add_kv( std::string& s, long k, long v ) { s += " " + std::to_string( k ) + ":" + std::to_string( v ); }
    inline void add_struct( monitor_out& mo, char const* name, bool ok, std::string const& detail = "" )
    {
        mo.structural += std::string( "monitor struct " ) + name + " " + ( ok ? "1" : "0" ) + ( detail.empty() ? "" : " " + detail ) + "\n";
    }

    // access to private members without touching the library ("explicit instantiation ignores access")
    template <typename Tag, typename Tag::type M>
    struct rob { friend typename Tag::type get( Tag ) { return M; } };

} // namespace c15

#endif
