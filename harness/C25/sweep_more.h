// Part of harness/C25/sweep.cpp: multi-argument functions (complement, the splitters) and the `lines` mode.
// Each function is a Fn: real(args) and ref(args) both render the result text "r1 r2 ..." (ref may say
// "no reference for this input": precondition of the C++ function violated).

typedef __int128 big;

struct Args { std::vector<big> v; std::vector<uint8_t> mem; bool has_mem; Args() : has_mem(false) {} };

static std::string s_big(big x) {
    char b[64]; bool neg = x < 0; unsigned __int128 m = neg ? (unsigned __int128)(-x) : (unsigned __int128)x;
    u64 hi = (u64)(m >> 64), lo = (u64)m;
    if (hi) snprintf(b, sizeof b, "%s%llx%016llx", neg ? "-" : "", hi, lo); else snprintf(b, sizeof b, "%s%llx", neg ? "-" : "", lo);
    return b;
}
static big parse_big(const std::string& t) {
    bool neg = !t.empty() && t[0] == '-'; unsigned __int128 m = 0;
    for (size_t i = neg ? 1 : 0; i < t.size(); ++i) { char c = t[i]; int d = c <= '9' ? c - '0' : (c | 32) - 'a' + 10; m = m * 16 + (unsigned)d; }
    return neg ? -(big)m : (big)m;
}
static std::string s_args(const Args& a) {
    std::string s;
    if (a.has_mem) { s += "m:"; char b[4]; for (uint8_t x : a.mem) { snprintf(b, sizeof b, "%02x", x); s += b; } }
    for (big x : a.v) { if (!s.empty()) s += " "; s += s_big(x); }
    return s;
}
static std::string join(std::initializer_list<big> l) { std::string s; for (big x : l) { if (!s.empty()) s += " "; s += s_big(x); } return s; }

struct Fn {
    std::string name;
    std::function<std::string(const Args&)> real;
    std::function<bool(const Args&, std::string&)> ref;
    std::function<void(u64 seed, bool thorough, const std::function<void(const Args&)>&)> gen;
};
static std::vector<Fn> fns;

// ---- complement ---------------------------------------------------------------------------------
template <typename F> static void reg_complement(const char* name, int w, bool signed_nbit, F f) {
    Fn fn; fn.name = name;
    fn.real = [f](const Args& a) { u64 v = (u64)a.v[0]; bool r = f(v, a.v[1]); return join({(big)r, (big)v}); };
    fn.ref = [w](const Args& a, std::string& o) {
        big n = a.v[1]; if (n < 0 || n >= w) return false;
        u64 v = (u64)a.v[0]; o = join({(big)((v >> (int)n) & 1), (big)(v ^ (1ULL << (int)n))}); return true; };
    fn.gen = [w, signed_nbit](u64 seed, bool thorough, const std::function<void(const Args&)>& k) {
        u64 mask = w == 64 ? ~0ULL : 0xffffffffULL;
        std::vector<u64> vals = {0, 1, mask, mask >> 1, (mask >> 1) + 1, 0x5555555555555555ULL & mask, 0xaaaaaaaaaaaaaaaaULL & mask,
                                 0x0123456789abcdefULL & mask, 0xfedcba9876543210ULL & mask};
        Rng r(seed * 77 + (u64)w); for (int i = 0; i < (thorough ? 400 : 40); ++i) vals.push_back(r.next() & mask);
        for (u64 v : vals) {
            for (int n = 0; n < w; ++n) { Args a; a.v = {(big)v, (big)n}; k(a); }
            for (int n : {w, w + 1, 2 * w - 1, 2 * w, 255}) { Args a; a.v = {(big)v, (big)n}; k(a); }   // UB in the model
            if (signed_nbit) for (int n : {-1, -w}) { Args a; a.v = {(big)v, (big)n}; k(a); }
        } };
    fns.push_back(fn);
}

// ---- number_splitter<T> ---------------------------------------------------------------------------
template <typename T> static void reg_number_splitter(const char* sfx) {
    typedef cds::algo::number_splitter<T> S;
    typedef typename std::make_unsigned<T>::type UT;
    const int w = sizeof(T) * 8;
    std::string base = std::string("split.ns_") + sfx + "_";
    auto gen_state = [w](u64 seed, bool thorough, bool with_count, const std::function<void(const Args&)>& k) {
        std::vector<big> nums;
        u64 mask = w == 64 ? ~0ULL : ((1ULL << w) - 1);
        std::vector<u64> pats = {0, 1, mask, mask >> 1, (mask >> 1) + 1, 0x5555555555555555ULL & mask, 0xaaaaaaaaaaaaaaaaULL & mask,
                                 0x0123456789abcdefULL & mask, 0xfedcba9876543210ULL & mask, 0x8001ULL, 0xff00ff00ff00ff00ULL & mask};
        Rng r(seed * 131 + (u64)w + (std::is_signed<T>::value ? 7 : 0));
        int extra = w == 16 ? 14 : (w == 32 ? 6 : 2); if (thorough) extra *= 8;
        for (int i = 0; i < extra; ++i) pats.push_back(r.next() & mask);
        for (u64 p : pats) nums.push_back((big)(T)(UT)p);
        for (big n : nums)
            for (int sh = 0; sh <= w; ++sh) {
                if (!with_count) { Args a; a.v = {n, (big)sh}; k(a); continue; }
                for (int c = 0; c <= w + 1; ++c) { Args a; a.v = {n, (big)sh, (big)c}; k(a); }
            } };
    auto bits_of = [](big n) { return (u64)(UT)(T)n; };
    {   Fn f; f.name = base + "eos";
        f.real = [](const Args& a) { S s((T)a.v[0], (size_t)a.v[1]); return join({(big)s.eos()}); };
        f.ref = [w](const Args& a, std::string& o) { o = join({(big)(a.v[1] >= w)}); return true; };
        f.gen = [gen_state](u64 s, bool t, const std::function<void(const Args&)>& k) { gen_state(s, t, false, k); };
        fns.push_back(f); }
    {   Fn f; f.name = base + "rest_count";
        f.real = [](const Args& a) { S s((T)a.v[0], (size_t)a.v[1]); return join({(big)s.rest_count()}); };
        f.ref = [w](const Args& a, std::string& o) { o = join({(big)(w - a.v[1])}); return true; };
        f.gen = [gen_state](u64 s, bool t, const std::function<void(const Args&)>& k) { gen_state(s, t, false, k); };
        fns.push_back(f); }
    {   Fn f; f.name = base + "bit_offset";
        f.real = [](const Args& a) { S s((T)a.v[0], (size_t)a.v[1]); return join({(big)s.bit_offset()}); };
        f.ref = [](const Args& a, std::string& o) { o = join({a.v[1]}); return true; };
        f.gen = [gen_state](u64 s, bool t, const std::function<void(const Args&)>& k) { gen_state(s, t, false, k); };
        fns.push_back(f); }
    {   Fn f; f.name = base + "cut";
        f.real = [](const Args& a) { S s((T)a.v[0], (size_t)a.v[1]); T r = s.cut((unsigned)a.v[2]); return join({(big)r, (big)s.source(), (big)s.bit_offset()}); };
        f.ref = [w, bits_of](const Args& a, std::string& o) {
            int sh = (int)a.v[1], c = (int)a.v[2];
            if (c >= w || sh + c > w || sh >= w) return false;          // is_correct(count), !eos(), inside the number
            u64 r = (bits_of(a.v[0]) >> sh) & ((1ULL << c) - 1);
            o = join({(big)r, a.v[0], (big)(sh + c)}); return true; };
        f.gen = [gen_state](u64 s, bool t, const std::function<void(const Args&)>& k) { gen_state(s, t, true, k); };
        fns.push_back(f); }
    {   Fn f; f.name = base + "safe_cut";
        f.real = [](const Args& a) { S s((T)a.v[0], (size_t)a.v[1]); T r = s.safe_cut((unsigned)a.v[2]); return join({(big)r, (big)s.source(), (big)s.bit_offset()}); };
        f.ref = [w, bits_of](const Args& a, std::string& o) {
            int sh = (int)a.v[1], c = (int)a.v[2];
            if (sh >= w) { o = join({0, a.v[0], (big)sh}); return true; }
            if (c > w - sh) c = w - sh;
            if (c >= w) { o = join({a.v[0], a.v[0], (big)w}); return true; }   // sh == 0: the whole number, then eos
            u64 r = c ? (bits_of(a.v[0]) >> sh) & ((1ULL << c) - 1) : 0;
            o = join({(big)r, a.v[0], (big)(sh + c)}); return true; };
        f.gen = [gen_state](u64 s, bool t, const std::function<void(const Args&)>& k) { gen_state(s, t, true, k); };
        fns.push_back(f); }
}

// ---- split_bitstring / byte_splitter over byte arrays -----------------------------------------------
template <size_t N> struct Bytes { uint8_t b[N]; };
struct Guarded { uint8_t buf[64]; };     // the source object lives at buf[16..16+N); reads past it stay inside buf

// state on a line: m:<N bytes> cur offset first last  (byte_splitter: cur first last); first = 0, last = N
template <template <typename, size_t, typename> class SP, typename UInt, size_t N>
static std::string call_sb(const Args& a, int method, bool bytesp) {
    Guarded g; memset(g.buf, 0xA5, sizeof g.buf); memcpy(g.buf + 16, a.mem.data(), N);
    typedef Bytes<N> B; typedef SP<B, N, UInt> S;
    const B& h = *reinterpret_cast<const B*>(g.buf + 16);
    size_t cur = (size_t)a.v[0]; size_t off = bytesp ? 0 : (size_t)a.v[1];
    size_t np = bytesp ? 3 : 4;
    S s(h, cur * 8 + off);
    auto state = [&]() { size_t bo = s.bit_offset(); std::string r = s_big((big)(bo / 8));
                         if (!bytesp) r += " " + s_big((big)(bo % 8)); r += " 0 " + s_big((big)N); return r; };
    switch (method) {
    case 0: return s_big((big)s.eos());
    case 1: return s_big((big)s.bit_offset());
    case 2: return s_big((big)s.rest_count());
    case 3: { UInt r = s.cut((unsigned)a.v[np]); return s_big((big)r) + " " + state(); }
    default: { UInt r = s.safe_cut((unsigned)a.v[np]); return s_big((big)r) + " " + state(); }
    }
}
template <template <typename, size_t, typename> class SP, typename UInt>
static std::string call_sbN(const Args& a, int method, bool bytesp) {
    switch (a.mem.size()) {
    case 1: return call_sb<SP, UInt, 1>(a, method, bytesp);
    case 2: return call_sb<SP, UInt, 2>(a, method, bytesp);
    case 3: return call_sb<SP, UInt, 3>(a, method, bytesp);
    case 4: return call_sb<SP, UInt, 4>(a, method, bytesp);
    case 6: return call_sb<SP, UInt, 6>(a, method, bytesp);
    case 8: return call_sb<SP, UInt, 8>(a, method, bytesp);
    case 12: return call_sb<SP, UInt, 12>(a, method, bytesp);
    default: return "BADSIZE";
    }
}
static u64 ref_bits(const std::vector<uint8_t>& m, size_t pos, size_t count) {   // naive: bit k of the stream is bit k%8 of byte k/8
    u64 r = 0; for (size_t j = 0; j < count; ++j) { size_t k = pos + j; if ((m[k / 8] >> (k % 8)) & 1) r |= 1ULL << j; } return r;
}
template <template <typename, size_t, typename> class SP, typename UInt>
static void reg_bytes_splitter(const char* pre, bool bytesp) {
    const int uw = sizeof(UInt) * 8;
    std::string base = std::string("split.") + pre + "_";
    const char* methods[] = {"eos", "bit_offset", "rest_count", "cut", "safe_cut"};
    for (int m = 0; m < 5; ++m) {
        Fn f; f.name = base + methods[m];
        f.real = [m, bytesp](const Args& a) { return call_sbN<SP, UInt>(a, m, bytesp); };
        f.ref = [m, bytesp, uw](const Args& a, std::string& o) {
            size_t N = a.mem.size(), cur = (size_t)a.v[0], off = bytesp ? 0 : (size_t)a.v[1], np = bytesp ? 3 : 4;
            size_t pos = cur * 8 + off, total = N * 8;
            auto st = [&](size_t p) { std::string r = s_big((big)(p / 8)); if (!bytesp) r += " " + s_big((big)(p % 8)); return r + " 0 " + s_big((big)N); };
            if (m == 0) { o = s_big((big)(cur >= N)); return true; }
            if (m == 1) { o = s_big((big)pos); return true; }
            if (m == 2) { o = s_big((big)(total - pos)); return true; }
            size_t c = (size_t)a.v[np];
            if (bytesp && c % 8) return false;                               // is_correct
            if ((int)c > uw) return false;                                   // at most sizeof(UInt)*8 bits per call
            if (m == 3) { if (pos + c > total || pos >= total) return false; o = s_big((big)ref_bits(a.mem, pos, c)) + " " + st(pos + c); return true; }
            if (pos >= total) { o = "0 " + st(pos); return true; }
            if (c > total - pos) c = total - pos;
            o = s_big((big)(c ? ref_bits(a.mem, pos, c) : 0)) + " " + st(pos + c); return true; };
        f.gen = [m, bytesp, uw](u64 seed, bool thorough, const std::function<void(const Args&)>& k) {
            Rng r(seed * 977 + (u64)uw + (bytesp ? 3 : 0) + (u64)m);
            for (size_t N : {1, 2, 3, 4, 6, 8, 12}) {
                if (m == 2 && N != 8) continue;     // rest_count depends on the template parameter BitStringSize: translated for 8
                std::vector<std::vector<uint8_t>> arrs;
                if (N == 1) { for (int b = 0; b < 256; b += (m >= 3 ? 1 : 17)) arrs.push_back({(uint8_t)b}); }
                else {
                    int na = (N == 2 ? 48 : N <= 4 ? 20 : 8) * (thorough ? 6 : 1); if (m < 3) na = 2;
                    arrs.push_back(std::vector<uint8_t>(N, 0)); arrs.push_back(std::vector<uint8_t>(N, 0xff));
                    std::vector<uint8_t> inc(N); for (size_t i = 0; i < N; ++i) inc[i] = (uint8_t)(0x01 + 0x22 * i); arrs.push_back(inc);
                    for (int i = 0; i < na; ++i) { std::vector<uint8_t> v(N); for (auto& x : v) x = (uint8_t)r.next(); arrs.push_back(v); }
                }
                for (auto& arr : arrs)
                    for (size_t pos = 0; pos <= N * 8; pos += (bytesp ? 8 : 1)) {
                        Args a; a.has_mem = true; a.mem = arr;
                        a.v.push_back((big)(pos / 8)); if (!bytesp) a.v.push_back((big)(pos % 8));
                        a.v.push_back(0); a.v.push_back((big)N);
                        if (m < 3) { k(a); continue; }
                        size_t rest = N * 8 - pos;
                        for (size_t c = 0; c <= (size_t)uw + 1; c += (bytesp ? 8 : 1)) {
                            // cut: stay inside the array, except a few reads past the end (UB in the model, guarded buffer here)
                            if (m == 3 && c > rest + (pos % 16 == 0 ? 8 : 0)) break;
                            if ((int)c > uw && pos % 24 != 0) continue;
                            Args b = a; b.v.push_back((big)c); k(b);
                        }
                    }
            } };
        fns.push_back(f);
    }
}

static void register_more()
{
    reg_complement("bitop.complement32", 32, false, [](u64& v, big n) { uint32_t x = (uint32_t)v; bool r = gp::complement32(&x, (unsigned)n); v = x; return r; });
    reg_complement("bitop.complement64", 64, false, [](u64& v, big n) { uint64_t x = v; bool r = gp::complement64(&x, (unsigned)n); v = x; return r; });
    reg_complement("bitop.BitOps4_complement", 32, true, [](u64& v, big n) { uint32_t x = (uint32_t)v; bool r = cds::bitop::details::BitOps<4>::complement(x, (int)n); v = x; return r; });
    reg_complement("bitop.BitOps8_complement", 64, true, [](u64& v, big n) { uint64_t x = v; bool r = cds::bitop::details::BitOps<8>::complement(x, (int)n); v = x; return r; });
    reg_complement("bitop.complement_u32", 32, true, [](u64& v, big n) { unsigned x = (unsigned)v; bool r = cds::bitop::complement(x, (int)n); v = x; return r; });
    reg_complement("bitop.complement_u64", 64, true, [](u64& v, big n) { unsigned long x = v; bool r = cds::bitop::complement(x, (int)n); v = x; return r; });
    reg_number_splitter<short>("i16");
    reg_number_splitter<unsigned short>("u16");
    reg_number_splitter<int>("i32");
    reg_number_splitter<unsigned>("u32");
    reg_number_splitter<long>("i64");
    reg_number_splitter<unsigned long>("u64");
    reg_number_splitter<long long>("i64ll");
    reg_number_splitter<unsigned long long>("u64ll");
    reg_bytes_splitter<cds::algo::split_bitstring, unsigned>("sb_u32", false);
    reg_bytes_splitter<cds::algo::split_bitstring, unsigned long>("sb_u64", false);
    reg_bytes_splitter<cds::algo::byte_splitter, unsigned>("bs_u32", true);
    reg_bytes_splitter<cds::algo::byte_splitter, unsigned long>("bs_u64", true);
}

static void list_more() { for (auto& f : fns) printf("%s\n", f.name.c_str()); }

static u64 g_k = 0;
static void more_sweeps(bool ref, u64 seed, bool thorough, u64 part, u64 nparts)
{
    for (auto& f : fns) {
        u64 n = 0, bad = 0;
        f.gen(seed, thorough, [&](const Args& a) {
            if (g_k++ % nparts != part) return;
            if (ref) {
                std::string e; if (!f.ref(a, e)) return;
                std::string o = f.real(a); ++n;
                if (o != e && bad++ < 5) fprintf(out, "MISMATCH %s %s | %s | %s\n", f.name.c_str(), s_args(a).c_str(), e.c_str(), o.c_str());
            } else
                fprintf(out, "%s %s -> %s\n", f.name.c_str(), s_args(a).c_str(), f.real(a).c_str());
        });
        if (ref) fprintf(out, "REFCOUNT %s %llu %llu\n", f.name.c_str(), n, bad);
    }
}

// `sweep lines IN OUT`: evaluate the real functions on recorded lines "name args [-> ...]"
static int run_lines(const char* in, const char* outp)
{
    FILE* fi = fopen(in, "r"); out = fopen(outp, "w"); if (!fi || !out) return 2;
    char buf[4096];
    while (fgets(buf, sizeof buf, fi)) {
        std::vector<std::string> t; char* p = strtok(buf, " \n");
        while (p) { t.push_back(p); p = strtok(0, " \n"); }
        if (t.empty()) continue;
        Args a; size_t i = 1;
        for (; i < t.size() && t[i] != "->"; ++i) {
            if (t[i].compare(0, 2, "m:") == 0) { a.has_mem = true; for (size_t j = 2; j + 1 < t[i].size(); j += 2) a.mem.push_back((uint8_t)strtoul(t[i].substr(j, 2).c_str(), 0, 16)); }
            else a.v.push_back(parse_big(t[i]));
        }
        std::string res = "NOFUNC";
        for (auto& u : unaries) if (t[0] == u.name && a.v.size() == 1) { i64 o = u.real((u64)a.v[0]); res = u.res_u64 ? s_big((big)(u64)o) : s_big((big)o); }
        for (auto& f : fns) if (t[0] == f.name) res = f.real(a);
        fprintf(out, "%s %s -> %s\n", t[0].c_str(), s_args(a).c_str(), res.c_str());
    }
    fclose(out); return 0;
}
