// C25 differential sweep: runs the real libcds bit helpers (compiled from $VERIF_REPO) on a deterministic,
// structured input set and prints one line per call:   <unit>.<coq name> <args...> -> <results...>
// (hex magnitudes, '-' for negatives; see ocaml/cxx2v_rt.ml).  The same lines are evaluated by the model
// extracted from coq/Gen/Gen_*.v and compared by checks/C25.py.
//
//   sweep emit <seed> <quick|thorough> <part> <nparts> <outfile>
//   sweep ref  <seed> <quick|thorough> <part> <nparts> <outfile>   real code vs independent references
//                                                                   (naive loops below); prints MISMATCH lines
//   sweep full32 <part> <nparts> <outfile>                          all 2^32 inputs of the 32-bit unary
//                                                                   functions vs the references (thorough)
#include <cstdio>
#include <cstdint>
#include <cstdlib>
#include <cstring>
#include <string>
#include <vector>
#include <functional>
#include <cds/algo/bit_reversal.h>
#include <cds/algo/bitop.h>
#include <cds/algo/int_algo.h>
#include <cds/algo/split_bitstring.h>
#include <cassert>
// the portable C bit operations of cds/details/bitop_generic.h, compiled a second time with none of the
// cds_bitop_*_DEFINED macros set (the first inclusion above is shadowed by the inline-asm variants)
#undef CDSLIB_DETAILS_BITOP_GENERIC_H
#undef cds_bitop_msb32_DEFINED
#undef cds_bitop_msb32nz_DEFINED
#undef cds_bitop_msb64_DEFINED
#undef cds_bitop_msb64nz_DEFINED
#undef cds_bitop_lsb32_DEFINED
#undef cds_bitop_lsb32nz_DEFINED
#undef cds_bitop_lsb64_DEFINED
#undef cds_bitop_lsb64nz_DEFINED
namespace generic {
#include <cds/details/bitop_generic.h>
}
namespace gp = generic::cds::bitop::platform;

typedef unsigned long long u64;
typedef long long i64;

static FILE* out = stdout;

struct Rng {                      // splitmix64, same as lib/vcheck.py
    u64 s;
    explicit Rng(u64 seed) : s(seed) {}
    u64 next() { s += 0x9E3779B97F4A7C15ULL; u64 z = s; z = (z ^ (z >> 30)) * 0xBF58476D1CE4E5B9ULL;
                 z = (z ^ (z >> 27)) * 0x94D049BB133111EBULL; return z ^ (z >> 31); }
    u64 below(u64 n) { return n ? next() % n : 0; }
};

static void put_s(i64 v) { if (v < 0) fprintf(out, "-%llx", (u64)(-(v + 1)) + 1ULL); else fprintf(out, "%llx", (u64)v); }
static void put_u(u64 v) { fprintf(out, "%llx", v); }

// ------------------------------------------------------------------------------------------------
// independent references (naive loops)
static u64 ref_rev(u64 x, int w) { u64 r = 0; for (int i = 0; i < w; ++i) if ((x >> i) & 1) r |= 1ULL << (w - 1 - i); return r; }
static int ref_msb(u64 x) { int r = 0; while (x) { ++r; x >>= 1; } return r; }              // 0 for 0, else floor(log2)+1
static int ref_lsb(u64 x) { if (!x) return 0; int r = 1; while (!(x & 1)) { ++r; x >>= 1; } return r; }
static int ref_pop(u64 x) { int r = 0; while (x) { r += (int)(x & 1); x >>= 1; } return r; }
static bool ref_pow2(u64 x) { return ref_pop(x) == 1; }
// fast references for the exhaustive 2^32 sweep (compiler builtins and a byte table built from ref_rev); they are
// themselves compared with the naive loops above on the structured input set (fast_selfcheck)
static uint8_t rev8_tab[256];
static void init_fast() { for (int i = 0; i < 256; ++i) rev8_tab[i] = (uint8_t)ref_rev((u64)i, 8); }
static inline u64 fast_rev32(u64 x) { return ((u64)rev8_tab[x & 0xff] << 24) | ((u64)rev8_tab[(x >> 8) & 0xff] << 16) | ((u64)rev8_tab[(x >> 16) & 0xff] << 8) | rev8_tab[(x >> 24) & 0xff]; }
static inline int fast_msb(u64 x) { return x ? 64 - __builtin_clzll(x) : 0; }
static inline int fast_lsb(u64 x) { return x ? __builtin_ctzll(x) + 1 : 0; }
static inline int fast_pop(u64 x) { return __builtin_popcountll(x); }
enum Kind { K_NONE, K_REV, K_MSB, K_MSBNZ, K_LSB, K_LSBNZ, K_POP, K_ZBC, K_POW2 };
static Kind kind_of(const char* n) {
    const char* d = strchr(n, '.'); if (!d) return K_NONE; ++d;
    if (!strncmp(n, "bit_reversal.", 13) || strstr(d, "rbo") || strstr(d, "RBO")) return strstr(d, "byte") ? K_NONE : K_REV;
    if (strstr(d, "msb32nz") || strstr(d, "MSBnz")) return K_MSBNZ;
    if (strstr(d, "lsb32nz") || strstr(d, "LSBnz")) return K_LSBNZ;
    if (strstr(d, "msb") || strstr(d, "MSB")) return K_MSB;
    if (strstr(d, "lsb") || strstr(d, "LSB")) return K_LSB;
    if (strstr(d, "sbc") || strstr(d, "SBC")) return K_POP;
    if (strstr(d, "zbc") || strstr(d, "ZBC")) return K_ZBC;
    if (strstr(d, "isPow2")) return K_POW2;
    return K_NONE;
}
static inline bool fast_ref(Kind k, u64 x, i64& r) {
    switch (k) {
    case K_REV: r = (i64)fast_rev32(x); return true;
    case K_MSB: r = fast_msb(x); return true;
    case K_MSBNZ: if (!x) return false; r = fast_msb(x) - 1; return true;
    case K_LSB: r = fast_lsb(x); return true;
    case K_LSBNZ: if (!x) return false; r = fast_lsb(x) - 1; return true;
    case K_POP: r = fast_pop(x); return true;
    case K_ZBC: r = 32 - fast_pop(x); return true;
    case K_POW2: r = fast_pop(x) == 1; return true;
    default: return false;
    }
}

// ------------------------------------------------------------------------------------------------
// unary functions: name, input width, real function, reference (value or "no reference")
struct Unary {
    const char* name; int w;
    std::function<i64(u64)> real;                 // result as signed 64 (u64 results: see is_u64)
    std::function<bool(u64, i64&)> ref;           // false = the reference does not define this input
    bool res_u64;
};
static std::vector<Unary> unaries;

#define REV(NAME, W, EXPR) unaries.push_back(Unary{NAME, W, [](u64 x) -> i64 { return (i64)(u64)(EXPR); }, \
        [](u64 x, i64& r) { r = (i64)ref_rev(x, W); return true; }, true})
#define UN(NAME, W, EXPR, REFOK, REFEXPR, RESU) unaries.push_back(Unary{NAME, W, [](u64 x) -> i64 { return (i64)(EXPR); }, \
        [](u64 x, i64& r) { if (!(REFOK)) return false; r = (i64)(REFEXPR); return true; }, RESU})

static void register_more();
static void list_more();
static void more_sweeps(bool ref, u64 seed, bool thorough, u64 part, u64 nparts);
static int run_lines(const char* in, const char* outp);

static void register_all()
{
    using namespace cds::algo::bit_reversal;
    REV("bit_reversal.swar_u32", 32, swar()((uint32_t)x));
    REV("bit_reversal.swar_u64", 64, swar()((uint64_t)x));
    REV("bit_reversal.lookup_u32", 32, lookup()((uint32_t)x));
    REV("bit_reversal.lookup_u64", 64, lookup()((uint64_t)x));
    REV("bit_reversal.muldiv32_byte", 8, muldiv::muldiv32_byte((uint8_t)x));
    REV("bit_reversal.muldiv64_byte", 8, muldiv::muldiv64_byte((uint8_t)x));
    REV("bit_reversal.muldiv32_u32", 32, muldiv::muldiv32((uint32_t)x));
    REV("bit_reversal.muldiv32_u64", 64, muldiv::muldiv32((uint64_t)x));
    REV("bit_reversal.muldiv64_u32", 32, muldiv::muldiv64((uint32_t)x));
    REV("bit_reversal.muldiv64_u64", 64, muldiv::muldiv64((uint64_t)x));
    REV("bit_reversal.muldiv_u32", 32, muldiv()((uint32_t)x));
    REV("bit_reversal.muldiv_u64", 64, muldiv()((uint64_t)x));
    // generic C versions (translated and proved), compiled from cds/details/bitop_generic.h
    UN("bitop.isPow2_32", 32, gp::isPow2_32((uint32_t)x), true, ref_pow2(x), false);
    UN("bitop.isPow2_64", 64, gp::isPow2_64(x), true, ref_pow2(x), false);
    UN("bitop.msb32", 32, gp::msb32((uint32_t)x), true, ref_msb(x), false);
    UN("bitop.msb64", 64, gp::msb64(x), true, ref_msb(x), false);
    UN("bitop.msb32nz", 32, gp::msb32nz((uint32_t)x), true, ref_msb(x) - 1, false);
    UN("bitop.msb64nz", 64, gp::msb64nz(x), true, ref_msb(x) - 1, false);
    UN("bitop.lsb32", 32, gp::lsb32((uint32_t)x), true, ref_lsb(x), false);
    UN("bitop.lsb64", 64, gp::lsb64(x), true, ref_lsb(x), false);
    UN("bitop.lsb32nz", 32, gp::lsb32nz((uint32_t)x), true, ref_lsb(x) - 1, false);
    UN("bitop.lsb64nz", 64, gp::lsb64nz(x), true, ref_lsb(x) - 1, false);
    UN("bitop.rbo32", 32, (u64)gp::rbo32((uint32_t)x), true, ref_rev(x, 32), true);
    UN("bitop.rbo64", 64, (u64)gp::rbo64(x), true, ref_rev(x, 64), true);
    UN("bitop.sbc32", 32, gp::sbc32((uint32_t)x), true, ref_pop(x), false);
    UN("bitop.sbc64", 64, gp::sbc64(x), true, ref_pop(x), false);
    UN("bitop.zbc32", 32, gp::zbc32((uint32_t)x), true, 32 - ref_pop(x), false);
    UN("bitop.zbc64", 64, gp::zbc64(x), true, 64 - ref_pop(x), false);
    // the public API: on amd64 MSB/LSB/MSBnz/LSBnz resolve to the inline-asm bsr/bsf variants, which are NOT
    // translated; the model rows of the same name are the generic C versions.  *nz require x != 0.
    namespace bo = cds::bitop;
    typedef bo::details::BitOps<4> B4; typedef bo::details::BitOps<8> B8;
    UN("bitop.BitOps4_MSB", 32, B4::MSB((uint32_t)x), true, ref_msb(x), false);
    UN("bitop.BitOps8_MSB", 64, B8::MSB(x), true, ref_msb(x), false);
    UN("bitop.BitOps4_LSB", 32, B4::LSB((uint32_t)x), true, ref_lsb(x), false);
    UN("bitop.BitOps8_LSB", 64, B8::LSB(x), true, ref_lsb(x), false);
    UN("bitop.BitOps4_MSBnz", 32, (x ? B4::MSBnz((uint32_t)x) : -1), x != 0, ref_msb(x) - 1, false);
    UN("bitop.BitOps8_MSBnz", 64, (x ? B8::MSBnz(x) : -1), x != 0, ref_msb(x) - 1, false);
    UN("bitop.BitOps4_LSBnz", 32, (x ? B4::LSBnz((uint32_t)x) : -1), x != 0, ref_lsb(x) - 1, false);
    UN("bitop.BitOps8_LSBnz", 64, (x ? B8::LSBnz(x) : -1), x != 0, ref_lsb(x) - 1, false);
    UN("bitop.BitOps4_SBC", 32, B4::SBC((uint32_t)x), true, ref_pop(x), false);
    UN("bitop.BitOps8_SBC", 64, B8::SBC(x), true, ref_pop(x), false);
    UN("bitop.BitOps4_ZBC", 32, B4::ZBC((uint32_t)x), true, 32 - ref_pop(x), false);
    UN("bitop.BitOps8_ZBC", 64, B8::ZBC(x), true, 64 - ref_pop(x), false);
    UN("bitop.BitOps4_RBO", 32, (u64)B4::RBO((uint32_t)x), true, ref_rev(x, 32), true);
    UN("bitop.BitOps8_RBO", 64, (u64)B8::RBO(x), true, ref_rev(x, 64), true);
    UN("bitop.MSB_u32", 32, bo::MSB((uint32_t)x), true, ref_msb(x), false);
    UN("bitop.MSB_u64", 64, bo::MSB((unsigned long)x), true, ref_msb(x), false);
    UN("bitop.LSB_u32", 32, bo::LSB((uint32_t)x), true, ref_lsb(x), false);
    UN("bitop.LSB_u64", 64, bo::LSB((unsigned long)x), true, ref_lsb(x), false);
    UN("bitop.MSBnz_u32", 32, (x ? bo::MSBnz((uint32_t)x) : -1), x != 0, ref_msb(x) - 1, false);
    UN("bitop.MSBnz_u64", 64, (x ? bo::MSBnz((unsigned long)x) : -1), x != 0, ref_msb(x) - 1, false);
    UN("bitop.LSBnz_u32", 32, (x ? bo::LSBnz((uint32_t)x) : -1), x != 0, ref_lsb(x) - 1, false);
    UN("bitop.LSBnz_u64", 64, (x ? bo::LSBnz((unsigned long)x) : -1), x != 0, ref_lsb(x) - 1, false);
    UN("bitop.SBC_u32", 32, bo::SBC((uint32_t)x), true, ref_pop(x), false);
    UN("bitop.SBC_u64", 64, bo::SBC((unsigned long)x), true, ref_pop(x), false);
    UN("bitop.ZBC_u32", 32, bo::ZBC((uint32_t)x), true, 32 - ref_pop(x), false);
    UN("bitop.ZBC_u64", 64, bo::ZBC((unsigned long)x), true, 64 - ref_pop(x), false);
    UN("bitop.RBO_u32", 32, (u64)bo::RBO((uint32_t)x), true, ref_rev(x, 32), true);
    UN("bitop.RBO_u64", 64, (u64)bo::RBO((unsigned long)x), true, ref_rev(x, 64), true);
    // cds/algo/int_algo.h (log2floor goes through the asm MSBnz in the real build)
    namespace be = cds::beans;
    UN("int_algo.log2floor", 64, (u64)be::log2floor((size_t)x), true, (x ? ref_msb(x) - 1 : 0), true);
    UN("int_algo.log2ceil", 64, (u64)be::log2ceil((size_t)x), true, (x <= 1 ? 0 : ref_msb(x - 1)), true);
    UN("int_algo.floor2", 64, (u64)be::floor2((size_t)x), true, (x ? 1ULL << (ref_msb(x) - 1) : 1ULL), true);
    UN("int_algo.ceil2", 64, (u64)be::ceil2((size_t)x), x <= (1ULL << 63), (x <= 1 ? 1ULL : 1ULL << ref_msb(x - 1)), true);
    UN("int_algo.is_power2", 64, be::is_power2((size_t)x), true, ref_pow2(x), false);
    UN("int_algo.log2", 64, (u64)be::log2((size_t)x), true, (ref_pow2(x) ? ref_msb(x) - 1 : 0), true);
    register_more();
}

#include "sweep_more.h"

// ------------------------------------------------------------------------------------------------
// structured inputs
static std::vector<u64> inputs(int w, u64 seed, bool thorough, bool light)
{
    std::vector<u64> v;
    u64 mask = w == 64 ? ~0ULL : ((1ULL << w) - 1);
    if (w <= 16) { for (u64 i = 0; i <= mask; ++i) v.push_back(i); return v; }
    // boundaries
    u64 b[] = {0, 1, 2, 3, mask, mask - 1, mask >> 1, (mask >> 1) + 1, (mask >> 1) + 2, 0x55555555555555ULL & mask,
               0xaaaaaaaaaaaaaaaaULL & mask, 0x0123456789abcdefULL & mask, 0xfedcba9876543210ULL & mask,
               0x00000000ffffffffULL & mask, 0xffffffff00000000ULL & mask, 0x80000000ULL & mask, 0x7fffffffULL & mask,
               0x100000000ULL & mask, 0xffffULL, 0x10000ULL, 0xff00ff00ff00ff00ULL & mask};
    for (u64 x : b) v.push_back(x);
    for (int i = 0; i < w; ++i) {                    // single bits, walking ones/zeros, low/high runs, neighbours of 2^i
        u64 bit = 1ULL << i;
        v.push_back(bit); v.push_back(~bit & mask); v.push_back((bit - 1) & mask); v.push_back(~(bit - 1) & mask);
        v.push_back((bit + 1) & mask); v.push_back((bit | (bit >> 1)) & mask); v.push_back((bit * 3) & mask);
        for (int j = 0; j < i; j += 7) v.push_back(bit | (1ULL << j));
    }
    for (u64 i = 0; i < 256; ++i)                    // every byte value in every byte position
        for (int p = 0; p < w; p += 8) v.push_back((i << p) & mask);
    for (u64 i = 0; i < 65536; ++i) {                // all 16-bit values, low and high half (wrappers: every 8th)
        if (light && !thorough && i % 8) continue;
        v.push_back(i);
        if (w == 32) v.push_back(i << 16);
        else if (i % 16 == 0 || thorough) { v.push_back(i << 16); v.push_back(i << 32); v.push_back(i << 48); }
    }
    if (thorough && w == 32 && !light) { u64 off = (seed * 2654435761ULL) % 4096; for (u64 i = 0; i < (1ULL << 20); ++i) v.push_back(i * 4096 + off); }
    Rng r(seed * 1000003ULL + (u64)w);
    u64 nr = thorough ? (light ? 50000 : 200000) : (light ? 5000 : 20000);
    for (u64 i = 0; i < nr; ++i) {
        u64 x = r.next();
        switch (r.below(4)) {                        // uniform, sparse, dense, short
        case 1: x &= r.next() & r.next(); break;
        case 2: x |= r.next() | r.next(); break;
        case 3: x >>= r.below((u64)w); break;
        default: break;
        }
        v.push_back(x & mask);
    }
    return v;
}

int main(int argc, char** argv)
{
    if (argc < 2) { fprintf(stderr, "usage: see the head of sweep.cpp\n"); return 2; }
    std::string mode = argv[1];
    register_all();
    if (mode == "lines") return run_lines(argv[2], argv[3]);
    if (mode == "list") { for (auto& u : unaries) printf("%s %d\n", u.name, u.w); list_more(); return 0; }
    if (mode == "full32") {
        u64 part = strtoull(argv[2], 0, 10), nparts = strtoull(argv[3], 0, 10);
        out = fopen(argv[4], "w");
        u64 lo = (0x100000000ULL / nparts) * part, hi = part + 1 == nparts ? 0x100000000ULL : (0x100000000ULL / nparts) * (part + 1);
        init_fast();
        for (auto& u : unaries) {
            if (u.w != 32) continue;
            Kind kd = kind_of(u.name);
            const char* dot = strchr(u.name, '.');
            bool wrapper = !strncmp(u.name, "bitop.", 6) && dot && dot[1] >= 'A' && dot[1] <= 'Z' && strncmp(dot + 1, "BitOps4_", 8);
            if (kd == K_NONE || wrapper) continue;          // thin cds::bitop::X<T> wrappers: structured set only
            u64 n = 0, bad = 0;
            for (u64 x = lo; x < hi; ++x) {
                i64 e; if (!fast_ref(kd, x, e)) continue;
                i64 o = u.real(x); ++n;
                if (o != e && bad++ < 5) { fprintf(out, "MISMATCH %s ", u.name); put_u(x); fprintf(out, " | "); if (u.res_u64) put_u((u64)e); else put_s(e); fprintf(out, " | "); if (u.res_u64) put_u((u64)o); else put_s(o); fprintf(out, "\n"); }
            }
            fprintf(out, "REFCOUNT %s %llu %llu\n", u.name, n, bad);
        }
        fclose(out); return 0;
    }
    if (argc < 7) return 2;
    u64 seed = strtoull(argv[2], 0, 10);
    bool thorough = !strcmp(argv[3], "thorough");
    u64 part = strtoull(argv[4], 0, 10), nparts = strtoull(argv[5], 0, 10);
    out = fopen(argv[6], "w");
    if (!out) return 2;
    bool ref = mode == "ref";
    init_fast();
    u64 k = 0;
    for (auto& u : unaries) {
        const char* dot = strchr(u.name, '.');
        bool light = !strncmp(u.name, "bitop.", 6) && dot && dot[1] >= 'A' && dot[1] <= 'Z';   // thin wrappers of the public API
        std::vector<u64> in = inputs(u.w, seed, thorough, light);
        u64 n = 0, bad = 0;
        for (u64 x : in) {
            if (k++ % nparts != part) continue;
            i64 o = u.real(x);
            if (ref) {
                i64 e; if (!u.ref(x, e)) continue;
                ++n;
                if (u.w == 32) { i64 f; Kind kd = kind_of(u.name); if (fast_ref(kd, x, f) && f != e) { fprintf(out, "MISMATCH harness.fast_reference_of_%s ", u.name); put_u(x); fprintf(out, " | "); put_s(e); fprintf(out, " | "); put_s(f); fprintf(out, "\n"); } }
                if (o != e && bad++ < 5) { fprintf(out, "MISMATCH %s ", u.name); put_u(x); fprintf(out, " | "); if (u.res_u64) put_u((u64)e); else put_s(e); fprintf(out, " | "); if (u.res_u64) put_u((u64)o); else put_s(o); fprintf(out, "\n"); }
            } else {
                fprintf(out, "%s ", u.name); put_u(x); fprintf(out, " -> ");
                if (u.res_u64) put_u((u64)o); else put_s(o);
                fprintf(out, "\n");
            }
        }
        if (ref) fprintf(out, "REFCOUNT %s %llu %llu\n", u.name, n, bad);
    }
    more_sweeps(ref, seed, thorough, part, nparts);
    fclose(out);
    return 0;
}
