// C25 differential sweep: runs the real libcds bit helpers (compiled from $VERIF_REPO) on a deterministic,
// structured input set and prints one line per call:   <unit>.<coq name> <args...> -> <results...>
// (hex magnitudes, '-' for negatives; see ocaml/cxx2v_rt.ml).  The same lines are evaluated by the model
// extracted from coq/Gen/Gen_*.v and compared by checks/C25.py.
//
//   sweep emit <seed> <quick|thorough> <part> <nparts> <outfile>
//   sweep ref  <seed> <quick|thorough> <part> <nparts> <outfile>   real code vs independent references
//                                                                   (naive loops below); prints MISMATCH lines
//   sweep full32 <part> <nparts> <outfile>                          all 2^32 inputs of the 32-bit unary
//                                                                   functions vs the references (thorough)
#include <cstdio>
#include <cstdint>
#include <cstdlib>
#include <cstring>
#include <string>
#include <vector>
#include <functional>
#include <cds/algo/bit_reversal.h>
#include <cds/algo/bitop.h>
#include <cds/algo/int_algo.h>
#include <cds/algo/split_bitstring.h>

typedef unsigned long long u64;
typedef long long i64;

static FILE* out = stdout;

struct Rng {                      // splitmix64, same as lib/vcheck.py
    u64 s;
    explicit Rng(u64 seed) : s(seed) {}
    u64 next() { s += 0x9E3779B97F4A7C15ULL; u64 z = s; z = (z ^ (z >> 30)) * 0xBF58476D1CE4E5B9ULL;
                 z = (z ^ (z >> 27)) * 0x94D049BB133111EBULL; return z ^ (z >> 31); }
    u64 below(u64 n) { return n ? next() % n : 0; }
};

static void put_s(i64 v) { if (v < 0) fprintf(out, "-%llx", (u64)(-(v + 1)) + 1ULL); else fprintf(out, "%llx", (u64)v); }
static void put_u(u64 v) { fprintf(out, "%llx", v); }

// ------------------------------------------------------------------------------------------------
// independent references (naive loops)
static u64 ref_rev(u64 x, int w) { u64 r = 0; for (int i = 0; i < w; ++i) if ((x >> i) & 1) r |= 1ULL << (w - 1 - i); return r; }
static int ref_msb(u64 x) { int r = 0; while (x) { ++r; x >>= 1; } return r; }              // 0 for 0, else floor(log2)+1
static int ref_lsb(u64 x) { if (!x) return 0; int r = 1; while (!(x & 1)) { ++r; x >>= 1; } return r; }
static int ref_pop(u64 x) { int r = 0; while (x) { r += (int)(x & 1); x >>= 1; } return r; }
static bool ref_pow2(u64 x) { return ref_pop(x) == 1; }

// ------------------------------------------------------------------------------------------------
// unary functions: name, input width, real function, reference (value or "no reference")
struct Unary {
    const char* name; int w;
    std::function<i64(u64)> real;                 // result as signed 64 (u64 results: see is_u64)
    std::function<bool(u64, i64&)> ref;           // false = the reference does not define this input
    bool res_u64;
};
static std::vector<Unary> unaries;

#define REV(NAME, W, EXPR) unaries.push_back(Unary{NAME, W, [](u64 x) -> i64 { return (i64)(u64)(EXPR); }, \
        [](u64 x, i64& r) { r = (i64)ref_rev(x, W); return true; }, true})
#define UN(NAME, W, EXPR, REFOK, REFEXPR, RESU) unaries.push_back(Unary{NAME, W, [](u64 x) -> i64 { return (i64)(EXPR); }, \
        [](u64 x, i64& r) { if (!(REFOK)) return false; r = (i64)(REFEXPR); return true; }, RESU})

struct Unary;
static void register_more();
static void list_more();
static void more_sweeps(bool ref, u64 seed, bool thorough, u64 part, u64 nparts);

static void register_all()
{
    using namespace cds::algo::bit_reversal;
    REV("bit_reversal.swar_u32", 32, swar()((uint32_t)x));
    REV("bit_reversal.swar_u64", 64, swar()((uint64_t)x));
    REV("bit_reversal.lookup_u32", 32, lookup()((uint32_t)x));
    REV("bit_reversal.lookup_u64", 64, lookup()((uint64_t)x));
    REV("bit_reversal.muldiv32_byte", 8, muldiv::muldiv32_byte((uint8_t)x));
    REV("bit_reversal.muldiv64_byte", 8, muldiv::muldiv64_byte((uint8_t)x));
    REV("bit_reversal.muldiv32_u32", 32, muldiv::muldiv32((uint32_t)x));
    REV("bit_reversal.muldiv32_u64", 64, muldiv::muldiv32((uint64_t)x));
    REV("bit_reversal.muldiv64_u32", 32, muldiv::muldiv64((uint32_t)x));
    REV("bit_reversal.muldiv64_u64", 64, muldiv::muldiv64((uint64_t)x));
    REV("bit_reversal.muldiv_u32", 32, muldiv()((uint32_t)x));
    REV("bit_reversal.muldiv_u64", 64, muldiv()((uint64_t)x));
    register_more();
}

static void register_more() {}
static void list_more() {}
static void more_sweeps(bool, u64, bool, u64, u64) {}

// ------------------------------------------------------------------------------------------------
// structured inputs
static std::vector<u64> inputs(int w, u64 seed, bool thorough)
{
    std::vector<u64> v;
    u64 mask = w == 64 ? ~0ULL : ((1ULL << w) - 1);
    if (w <= 16) { for (u64 i = 0; i <= mask; ++i) v.push_back(i); return v; }
    // boundaries
    u64 b[] = {0, 1, 2, 3, mask, mask - 1, mask >> 1, (mask >> 1) + 1, (mask >> 1) + 2, 0x55555555555555ULL & mask,
               0xaaaaaaaaaaaaaaaaULL & mask, 0x0123456789abcdefULL & mask, 0xfedcba9876543210ULL & mask,
               0x00000000ffffffffULL & mask, 0xffffffff00000000ULL & mask, 0x80000000ULL & mask, 0x7fffffffULL & mask,
               0x100000000ULL & mask, 0xffffULL, 0x10000ULL, 0xff00ff00ff00ff00ULL & mask};
    for (u64 x : b) v.push_back(x);
    for (int i = 0; i < w; ++i) {                    // single bits, walking ones/zeros, low/high runs, neighbours of 2^i
        u64 bit = 1ULL << i;
        v.push_back(bit); v.push_back(~bit & mask); v.push_back((bit - 1) & mask); v.push_back(~(bit - 1) & mask);
        v.push_back((bit + 1) & mask); v.push_back((bit | (bit >> 1)) & mask); v.push_back((bit * 3) & mask);
        for (int j = 0; j < i; j += 7) v.push_back(bit | (1ULL << j));
    }
    for (u64 i = 0; i < 256; ++i)                    // every byte value in every byte position
        for (int p = 0; p < w; p += 8) v.push_back((i << p) & mask);
    for (u64 i = 0; i < 65536; ++i) {                // all 16-bit values, low and high half
        v.push_back(i);
        if (w == 32) v.push_back(i << 16);
        else if (i % 16 == 0 || thorough) { v.push_back(i << 16); v.push_back(i << 32); v.push_back(i << 48); }
    }
    Rng r(seed * 1000003ULL + (u64)w);
    u64 nr = thorough ? 2000000 : 40000;
    for (u64 i = 0; i < nr; ++i) {
        u64 x = r.next();
        switch (r.below(4)) {                        // uniform, sparse, dense, short
        case 1: x &= r.next() & r.next(); break;
        case 2: x |= r.next() | r.next(); break;
        case 3: x >>= r.below((u64)w); break;
        default: break;
        }
        v.push_back(x & mask);
    }
    return v;
}

int main(int argc, char** argv)
{
    if (argc < 2) { fprintf(stderr, "usage: see the head of sweep.cpp\n"); return 2; }
    std::string mode = argv[1];
    register_all();
    if (mode == "list") { for (auto& u : unaries) printf("%s %d\n", u.name, u.w); list_more(); return 0; }
    if (mode == "full32") {
        u64 part = strtoull(argv[2], 0, 10), nparts = strtoull(argv[3], 0, 10);
        out = fopen(argv[4], "w");
        u64 lo = (0x100000000ULL / nparts) * part, hi = part + 1 == nparts ? 0x100000000ULL : (0x100000000ULL / nparts) * (part + 1);
        for (auto& u : unaries) {
            if (u.w != 32) continue;
            u64 n = 0, bad = 0;
            for (u64 x = lo; x < hi; ++x) {
                i64 e; if (!u.ref(x, e)) continue;
                i64 o = u.real(x); ++n;
                if (o != e && bad++ < 5) { fprintf(out, "MISMATCH %s ", u.name); put_u(x); fprintf(out, " "); put_s(e); fprintf(out, " "); put_s(o); fprintf(out, "\n"); }
            }
            fprintf(out, "REFCOUNT %s %llu %llu\n", u.name, n, bad);
        }
        fclose(out); return 0;
    }
    if (argc < 7) return 2;
    u64 seed = strtoull(argv[2], 0, 10);
    bool thorough = !strcmp(argv[3], "thorough");
    u64 part = strtoull(argv[4], 0, 10), nparts = strtoull(argv[5], 0, 10);
    out = fopen(argv[6], "w");
    if (!out) return 2;
    bool ref = mode == "ref";
    u64 k = 0;
    for (auto& u : unaries) {
        std::vector<u64> in = inputs(u.w, seed, thorough);
        u64 n = 0, bad = 0;
        for (u64 x : in) {
            if (k++ % nparts != part) continue;
            i64 o = u.real(x);
            if (ref) {
                i64 e; if (!u.ref(x, e)) continue;
                ++n;
                if (o != e && bad++ < 5) { fprintf(out, "MISMATCH %s ", u.name); put_u(x); fprintf(out, " "); put_s(e); fprintf(out, " "); put_s(o); fprintf(out, "\n"); }
            } else {
                fprintf(out, "%s ", u.name); put_u(x); fprintf(out, " -> ");
                if (u.res_u64) put_u((u64)o); else put_s(o);
                fprintf(out, "\n");
            }
        }
        if (ref) fprintf(out, "REFCOUNT %s %llu %llu\n", u.name, n, bad);
    }
    more_sweeps(ref, seed, thorough, part, nparts);
    fclose(out);
    return 0;
}
