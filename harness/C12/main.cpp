// C12 harness (typed ring): runs producer / consumer programs on the real cds::container::WeakRingBuffer<int, traits>
// under the deterministic scheduler and prints the event log (format: ocaml/conc_main.ml), followed by the
// verdict of an implementation-side FIFO monitor.
// usage: main <casefile>
//   cfg = [requested capacity; exp2 (0/1); buffer kind: 0 uninitialized_dynamic, 1 uninitialized_static, 2 initialized_static]
//   thread 0 = producer, thread 1 = consumer; operations as in coq/Model/Ring.v
#include <cds/container/weak_ringbuffer.h>
#include <vcase.h>
#include "watchdog.h"
#include <deque>
#include <memory>
#include <string>

namespace vs = khizmax_libcds_verif;
namespace cc = cds::container;

template <class Buf>
struct ring_traits: public cc::weak_ringbuffer::traits { typedef Buf buffer; };

static void emit_list( char const* name, int const* v, size_t n )
{
    std::string s( name );
    for ( size_t i = 0; i < n; ++i ) { s += ' '; s += std::to_string( v[i] ); }
    vs::emit( s.c_str());
}

// Implementation-side monitor of the property itself.  The shadow queue is updated by the running worker
// right after an operation returned, i.e. in the same scheduler step as the operation's last atomic access,
// so its length is the true back_ - front_ at every scheduling point.
struct Monitor {
    std::deque<int> shadow;     // pushed and not yet popped, in push order
    size_t cap;
    std::string bad;            // first violation, empty = none
    size_t npush_ok = 0, npush_fail = 0, npop_ok = 0, npop_fail = 0;

    void fail( std::string const& s ) { if ( bad.empty()) bad = s; }

    void push_done( std::vector<int> const& arr, bool ok, size_t size_at_inv )
    {
        if ( ok ) { ++npush_ok; for ( int v : arr ) shadow.push_back( v ); if ( shadow.size() > cap ) fail( "overfull: more than capacity elements accepted" ); }
        else {
            ++npush_fail;
            // during a push only the consumer acts: the occupancy is largest at the invocation.  The failure is
            // justified iff at some instant of the call free space < request, i.e. iff it was so at the invocation.
            if ( cap - size_at_inv >= arr.size()) fail( "push of " + std::to_string( arr.size()) + " failed although free space was never below " + std::to_string( cap - size_at_inv ));
        }
    }
    void pop_done( std::vector<int> const& got, size_t k, bool ok, size_t size_at_inv )
    {
        if ( ok ) {
            ++npop_ok;
            for ( int v : got ) {
                if ( shadow.empty()) { fail( "popped " + std::to_string( v ) + " from an empty ring" ); return; }
                if ( shadow.front() != v ) { fail( "popped " + std::to_string( v ) + " but the oldest element is " + std::to_string( shadow.front())); return; }
                shadow.pop_front();
            }
        }
        else {
            ++npop_fail;
            if ( size_at_inv >= k ) fail( "pop of " + std::to_string( k ) + " failed although " + std::to_string( size_at_inv ) + " elements were present during the whole call" );
        }
    }
    void front_done( bool ok, int v, size_t size_at_inv )
    {
        if ( ok ) {
            if ( shadow.empty()) fail( "front() returned an element of an empty ring" );
            else if ( shadow.front() != v ) fail( "front() returned " + std::to_string( v ) + " but the oldest element is " + std::to_string( shadow.front()));
        }
        else if ( size_at_inv >= 1 ) fail( "front() returned nullptr although the ring was never empty during the call" );
    }
};

template <class Ring>
static void run_on( vcase::Case const& c, size_t cap )
{
    std::unique_ptr<Ring> prb( new Ring( cap ));
    Ring& rb = *prb;
    Monitor m; m.cap = rb.capacity();

    vcase::run_workers( c, [&]( int t ) {
        for ( auto const& op : c.threads[t] ) {
            if ( op.empty()) continue;
            long code = op[0];
            bool producer_op = ( code >= 1 && code <= 3 ), consumer_op = ( code >= 4 && code <= 8 );
            if ( ( producer_op && t != 0 ) || ( consumer_op && t != 1 )) continue;
            if ( code == 1 || code == 2 || code == 3 ) {
                if ( code != 1 && op.size() != 2 ) continue;
                std::vector<int> arr( op.begin() + 1, op.end());
                emit_list( "inv_push", arr.data(), arr.size());
                size_t s0 = m.shadow.size();
                bool ok;
                if ( code == 1 ) ok = rb.push( arr.data(), arr.size());
                else if ( code == 2 ) ok = rb.push( arr[0] );
                else { int v = arr[0]; ok = rb.enqueue_with( [v]( int& dest ) { dest = v; } ); }
                m.push_done( arr, ok, s0 );
                if ( ok ) emit_list( "push_ok", arr.data(), arr.size());
                else vcase::emitf( "push_fail %ld", (long) arr.size());
            }
            else if ( code == 4 || code == 5 || code == 6 ) {
                if ( code == 4 && op.size() != 2 ) continue;
                if ( code != 4 && op.size() != 1 ) continue;
                size_t k = code == 4 ? (size_t) op[1] : 1;
                std::vector<int> arr( k, -1 );
                vcase::emitf( "inv_pop %ld", (long) k );
                size_t s0 = m.shadow.size();
                bool ok;
                if ( code == 4 ) ok = rb.pop( arr.data(), k );
                else if ( code == 5 ) ok = rb.pop( arr[0] );
                else { int* d = &arr[0]; ok = rb.dequeue_with( [d]( int& src ) { *d = src; } ); }
                m.pop_done( arr, k, ok, s0 );
                if ( ok ) emit_list( "pop_ok", arr.data(), k );
                else vcase::emitf( "pop_fail %ld", (long) k );
            }
            else if ( code == 7 && op.size() == 1 ) {
                vcase::emitf( "inv_pop 1" );
                size_t s0 = m.shadow.size();
                int* p = rb.front();
                if ( p ) {
                    int v = *p;
                    m.front_done( true, v, s0 );
                    if ( rb.pop_front()) {
                        m.pop_done( std::vector<int>( 1, v ), 1, true, s0 );
                        emit_list( "pop_ok", &v, 1 );
                    }
                    else { m.fail( "pop_front() failed right after front() returned an element" ); vcase::emitf( "popfront_fail" ); }
                }
                else { m.pop_done( std::vector<int>(), 1, false, s0 ); vcase::emitf( "pop_fail 1" ); }
            }
            else if ( code == 8 && op.size() == 1 ) {
                vcase::emitf( "inv_front" );
                size_t s0 = m.shadow.size();
                int* p = rb.front();
                if ( p ) { int v = *p; m.front_done( true, v, s0 ); emit_list( "front_ok", &v, 1 ); }
                else { m.front_done( false, 0, s0 ); vcase::emitf( "front_null" ); }
            }
            else if ( code == 9 && op.size() == 1 ) {
                vcase::emitf( "inv_size" );
                size_t n = rb.size();
                if ( n > m.cap ) m.fail( "size() returned " + std::to_string( n ) + " > capacity" );
                vcase::emitf( "size %ld", (long) n );
            }
            else if ( code == 10 && op.size() == 1 ) {
                vcase::emitf( "inv_empty" );
                bool b = rb.empty();
                vcase::emitf( "empty %ld", b ? 1L : 0L );
            }
        }
    }, nullptr, nullptr, 20000 );
    vcase::print_log( c );
    c12wd::logged();
    std::printf( "monitor capacity %zu\n", m.cap );
    std::printf( "monitor counts push_ok %zu push_fail %zu pop_ok %zu pop_fail %zu left %zu\n", m.npush_ok, m.npush_fail, m.npop_ok, m.npop_fail, m.shadow.size());
    if ( m.bad.empty()) std::printf( "monitor ok\n" );
    else std::printf( "monitor bad %s\n", m.bad.c_str());
    // the ring's destructor reads front_/back_ outside any run: not scheduled, not logged
}

typedef cds::opt::v::uninitialized_dynamic_buffer<int, CDS_DEFAULT_ALLOCATOR, true>  dyn_exp2;
typedef cds::opt::v::uninitialized_dynamic_buffer<int, CDS_DEFAULT_ALLOCATOR, false> dyn_any;
template <size_t N, bool E> struct ust { typedef cc::WeakRingBuffer<int, ring_traits<cds::opt::v::uninitialized_static_buffer<int, N, E>>> ring; };
template <size_t N, bool E> struct ist { typedef cc::WeakRingBuffer<int, ring_traits<cds::opt::v::initialized_static_buffer<int, N, E>>> ring; };

int main( int argc, char** argv )
{
    if ( argc < 2 ) { std::fprintf( stderr, "usage: %s casefile\n", argv[0] ); return 2; }
    std::ifstream in( argv[1] );
    c12wd::start();
    vcase::Case c;
    while ( vcase::read_case( in, c )) {
        c12wd::arm( c );
        size_t cap = c.cfg.size() > 0 ? (size_t) c.cfg[0] : 2;
        bool exp2 = c.cfg.size() > 1 ? c.cfg[1] != 0 : true;
        long kind = c.cfg.size() > 2 ? c.cfg[2] : 0;
        while ( c.threads.size() < 2 ) c.threads.push_back( std::vector<vcase::op_t>());
        c.threads.resize( 2 );
        if ( kind == 0 ) {
            if ( exp2 ) run_on<cc::WeakRingBuffer<int, ring_traits<dyn_exp2>>>( c, cap );
            else run_on<cc::WeakRingBuffer<int, ring_traits<dyn_any>>>( c, cap );
        }
        else {
            // static buffers: capacity is a template argument; Exp2 = true is only compilable for powers of two
#define STATIC_CASE( N, E ) if ( cap == N && exp2 == E ) { if ( kind == 1 ) run_on<ust<N, E>::ring>( c, cap ); else run_on<ist<N, E>::ring>( c, cap ); continue; }
            STATIC_CASE( 2, true ) STATIC_CASE( 4, true ) STATIC_CASE( 8, true )
            STATIC_CASE( 2, false ) STATIC_CASE( 3, false ) STATIC_CASE( 4, false ) STATIC_CASE( 5, false ) STATIC_CASE( 8, false )
#undef STATIC_CASE
            std::printf( "case %s\nendcase unsupported\n", c.id.c_str());
        }
    }
    c12wd::disarm();
    return 0;
}
