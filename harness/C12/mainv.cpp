// C12 harness (variable-size records): runs producer / consumer programs on the real
// cds::container::WeakRingBuffer<void, traits> under the deterministic scheduler and prints the event log
// (format: ocaml/conc_main.ml) followed by the verdict of an implementation-side record monitor.
// usage: mainv <casefile>
//   cfg = [requested capacity in bytes (a multiple of 8 - anything else makes the real code write past the buffer
//          and is refused here); exp2 (0/1)]
//   thread 0 = producer, thread 1 = consumer; operations as in coq/Model/RingV.v
#include <cds/container/weak_ringbuffer.h>
#include <vcase.h>
#include "watchdog.h"
#include <cstring>
#include <deque>
#include <memory>
#include <string>

namespace vs = khizmax_libcds_verif;
namespace cc = cds::container;

template <class Buf>
struct ring_traits: public cc::weak_ringbuffer::traits { typedef Buf buffer; };

static inline unsigned char data_byte( long seed, size_t i ) { return (unsigned char)(( seed + 3 * (long) i ) % 256 ); }

struct Rec { size_t size; long seed; };

struct Monitor {
    std::deque<Rec> shadow;     // records pushed and not yet popped
    size_t cap = 0;
    std::string bad;
    std::string note;
    size_t npush_ok = 0, npush_fail = 0, nfront_ok = 0, nfront_null = 0, npop_ok = 0, nfail_on_empty = 0;
    void fail( std::string const& s ) { if ( bad.empty()) bad = s; }

    void front_done( bool ok, size_t size, unsigned char const* p, size_t records_at_inv )
    {
        if ( !ok ) {
            ++nfront_null;
            if ( records_at_inv > 0 ) fail( "front() returned nullptr although a pushed record was present during the whole call" );
            return;
        }
        ++nfront_ok;
        if ( shadow.empty()) { fail( "front() returned a record (size " + std::to_string( size ) + ") from an empty ring" ); return; }
        Rec const& r = shadow.front();
        if ( r.size != size ) { fail( "front() returned size " + std::to_string( size ) + " but the oldest record has size " + std::to_string( r.size )); return; }
        for ( size_t i = 0; i < size; ++i )
            if ( p[i] != data_byte( r.seed, i )) {
                fail( "front() record of size " + std::to_string( size ) + ": byte " + std::to_string( i ) + " is " + std::to_string( (int) p[i] ) + " but " + std::to_string( (int) data_byte( r.seed, i )) + " was pushed" );
                return;
            }
    }
};

template <class Ring>
static void run_on( vcase::Case const& c, size_t cap )
{
    std::unique_ptr<Ring> prb( new Ring( cap ));
    Ring& rb = *prb;
    Monitor m; m.cap = rb.capacity();

    vcase::run_workers( c, [&]( int t ) {
        for ( auto const& op : c.threads[t] ) {
            if ( op.empty()) continue;
            long code = op[0];
            if ( ( code == 1 || code == 2 ) && t == 0 && op.size() == 3 ) {
                size_t size = (size_t) op[1]; long seed = op[2];
                vcase::emitf( "inv_vpush %ld %ld", (long) size, seed );
                size_t recs0 = m.shadow.size();
                bool ok;
                if ( code == 1 ) {
                    void* p = rb.back( size );
                    if ( p ) {
                        unsigned char* d = static_cast<unsigned char*>( p );
                        for ( size_t i = 0; i < size; ++i ) d[i] = data_byte( seed, i );
                        rb.push_back();
                    }
                    ok = p != nullptr;
                }
                else {
                    std::vector<unsigned char> d( size );
                    for ( size_t i = 0; i < size; ++i ) d[i] = data_byte( seed, i );
                    ok = rb.push_back( d.data(), size );
                }
                if ( ok ) { ++m.npush_ok; m.shadow.push_back( Rec{ size, seed } ); vcase::emitf( "vpush_ok %ld %ld", (long) size, seed ); }
                else {
                    ++m.npush_fail;
                    if ( recs0 == 0 ) { ++m.nfail_on_empty; if ( m.note.empty()) m.note = "back(" + std::to_string( size ) + ") failed although the ring held no record during the whole call"; }
                    vcase::emitf( "vpush_fail %ld", (long) size );
                }
            }
            else if ( ( code == 4 || code == 6 ) && t == 1 && op.size() == 1 ) {
                vcase::emitf( "inv_vfront" );
                size_t recs0 = m.shadow.size();
                std::pair<void*, size_t> r = rb.front();
                if ( r.first ) {
                    size_t size = r.second;
                    unsigned char const* p = static_cast<unsigned char const*>( r.first );
                    std::string s = "vfront_ok " + std::to_string( size );
                    if ( size <= m.cap ) {
                        for ( size_t i = 0; i < size; ++i ) { s += ' '; s += std::to_string( (int) p[i] ); }
                        m.front_done( true, size, p, recs0 );
                    }
                    else m.fail( "front() returned size " + std::to_string( size ) + " > capacity" );
                    vs::emit( s.c_str());
                    if ( code == 6 ) {
                        if ( rb.pop_front()) { ++m.npop_ok; if ( !m.shadow.empty()) m.shadow.pop_front(); vcase::emitf( "vpop_ok" ); }
                        else { m.fail( "pop_front() failed right after front() returned a record" ); vcase::emitf( "vpop_fail" ); }
                    }
                }
                else { m.front_done( false, 0, nullptr, recs0 ); vcase::emitf( "vfront_null" ); }
            }
        }
    }, nullptr, nullptr, 20000 );
    vcase::print_log( c );
    c12wd::logged();
    std::printf( "monitor capacity %zu\n", m.cap );
    std::printf( "monitor counts push_ok %zu push_fail %zu front_ok %zu front_null %zu pop_ok %zu left %zu fail_on_empty %zu\n",
                 m.npush_ok, m.npush_fail, m.nfront_ok, m.nfront_null, m.npop_ok, m.shadow.size(), m.nfail_on_empty );
    if ( !m.note.empty()) std::printf( "monitor note %s\n", m.note.c_str());
    if ( m.bad.empty()) std::printf( "monitor ok\n" );
    else std::printf( "monitor bad %s\n", m.bad.c_str());
}

typedef cds::opt::v::uninitialized_dynamic_buffer<void*, CDS_DEFAULT_ALLOCATOR, true>  dyn_exp2;
typedef cds::opt::v::uninitialized_dynamic_buffer<void*, CDS_DEFAULT_ALLOCATOR, false> dyn_any;

int main( int argc, char** argv )
{
    if ( argc < 2 ) { std::fprintf( stderr, "usage: %s casefile\n", argv[0] ); return 2; }
    std::ifstream in( argv[1] );
    c12wd::start();
    vcase::Case c;
    while ( vcase::read_case( in, c )) {
        c12wd::arm( c );
        size_t cap = c.cfg.size() > 0 ? (size_t) c.cfg[0] : 16;
        bool exp2 = c.cfg.size() > 1 ? c.cfg[1] != 0 : true;
        while ( c.threads.size() < 2 ) c.threads.push_back( std::vector<vcase::op_t>());
        c.threads.resize( 2 );
        // preconditions the code does not check and whose violation corrupts memory: never run them
        size_t ecap = cap;      // what the buffer allocates: Exp2 = true rounds up to a power of two
        if ( exp2 ) { ecap = 1; while ( ecap < cap ) ecap *= 2; }
        bool safe = ecap >= 16 && ecap % 8 == 0;
        for ( auto const& op : c.threads[0] )
            if ( op.size() == 3 && ( op[0] == 1 || op[0] == 2 ) && ( op[1] < 1 || (size_t)(( op[1] + 7 ) / 8 * 8 + 8 ) > ecap )) safe = false;
        if ( !safe ) { std::printf( "case %s\nendcase refused\n", c.id.c_str()); continue; }
        if ( exp2 ) run_on<cc::WeakRingBuffer<void, ring_traits<dyn_exp2>>>( c, cap );
        else run_on<cc::WeakRingBuffer<void, ring_traits<dyn_any>>>( c, cap );
    }
    c12wd::disarm();
    return 0;
}
