// Watchdog of the C12 harnesses.  A case that does not end - a loop of the code under test that no longer
// terminates, e.g. the ring's destructor walking from front_ to back_ after a broken pop let front_ pass back_ - must
// not hold back the cases already run: stdout is line buffered, and when a case exceeds its time limit the process
// prints what it has and exits with status 3.  checks/C12.py reads the cases printed so far (their monitor lines are the
// concrete failing inputs) and reports the hang itself.
//   hang before the event log of the case was printed:  case <id> / <log so far> / endcase hang
//   hang after it (monitor lines printed, destructor):   monitor hang <id>
#pragma once
#include <atomic>
#include <chrono>
#include <cstdio>
#include <thread>
#include <unistd.h>
#include <vcase.h>

namespace c12wd {
    static std::atomic<long long> g_deadline_ms( 0 );
    static vcase::Case const * volatile g_case = nullptr;
    static volatile bool g_logged = false;

    static long long now_ms()
    {
        return std::chrono::duration_cast<std::chrono::milliseconds>( std::chrono::steady_clock::now().time_since_epoch()).count();
    }
    static void loop()
    {
        namespace vs = khizmax_libcds_verif;
        for (;;) {
            std::this_thread::sleep_for( std::chrono::milliseconds( 200 ));
            long long d = g_deadline_ms.load();
            if ( d != 0 && now_ms() > d ) {
                vcase::Case const * c = g_case;
                if ( !g_logged ) {
                    std::printf( "case %s\n", c ? c->id.c_str() : "?" );
                    for ( auto const& l : vs::S().log ) { std::fputs( l.c_str(), stdout ); std::fputc( '\n', stdout ); }
                    std::printf( "endcase hang\n" );
                }
                std::printf( "monitor hang %s\n", c ? c->id.c_str() : "?" );
                std::fflush( stdout );
                _exit( 3 );
            }
        }
    }
    static void start()
    {
        std::setvbuf( stdout, nullptr, _IOLBF, 0 );
        std::thread( loop ).detach();
    }
    // generous: a case takes milliseconds; only a genuinely non-terminating run reaches the limit, even on a loaded machine
    static void arm( vcase::Case const& c, int seconds = 90 ) { g_case = &c; g_logged = false; g_deadline_ms.store( now_ms() + 1000LL * seconds ); }
    static void logged() { g_logged = true; }
    static void disarm() { g_deadline_ms.store( 0 ); }
}
