// C02 / C03(DHP) harness: runs client programs on the real cds::gc::DHP (cds/gc/dhp.h, src/dhp.cpp) under the
// deterministic scheduler and prints the event log (format: ocaml/conc_main.ml) followed by the monitors.
// usage: main <casefile>
// cfg = [H initial guards; GB (must be 16); RB (must be 256); old_extend (model only); spin fuel (model only);
//        nsrc; destroy]
// operations (LV.Model.Dhp.decode_op):
//   1 attach | 2 detach | 3 j galloc | 4 j gfree | 5 j p assign | 6 j clear | 7 j k protect src_k | 8 k p publish
//   9 p retire | 10 scan | 11 a b retire a..b | 12 j0 a b guards j0.. allocated+assigned a..b | 13 j0 n free guards
//   14 j0 n clear guards | 15 k v spin until src_k == obj v
// The singleton is constructed per case by the main thread and destroyed by it after the scheduled part
// (smr::destruct( true )); disposer calls made there are logged as thread <nthreads>.
#include <cds/gc/dhp.h>
#include <vcase.h>
#include <map>
#include <memory>

namespace vs = khizmax_libcds_verif;
namespace dhp = cds::gc::dhp;
typedef cds::gc::DHP::Guard Guard;

struct Obj { long id; long pad; };

namespace {
    const int MAXOBJ = 8192;
    Obj         g_objs[MAXOBJ];
    int         g_disposed[MAXOBJ];      // per-object dispose counter (poison flag = counter > 0)
    int         g_retired[MAXOBJ];
    long        g_clock = 0;             // logical time of client-level actions
    int         g_nthreads = 0;
    // monitor results
    long        g_bad_guarded = 0, g_bad_double = 0, g_bad_poison = 0;
    std::vector<std::string> g_notes;

    struct GuardInfo { Guard* g; long val; long since; };
    struct ThreadState {
        bool attached = false;
        std::map<long, GuardInfo> guards;
        long opbegin = 0;
    };
    std::vector<ThreadState> g_ts;

    void note( char const* fmt, long a = 0, long b = 0, long c = 0, long d = 0 )
    {
        char buf[160];
        std::snprintf( buf, sizeof( buf ), fmt, a, b, c, d );
        if ( g_notes.size() < 12 ) g_notes.push_back( buf );
    }

    void disposer( void* p )
    {
        long id = static_cast<Obj*>( p ) ? static_cast<Obj*>( p )->id : 0;
        int me = vs::my_tid();
        if ( me >= 0 ) vcase::emitf( "dispose %ld", id );
        else {
            char buf[64];
            std::snprintf( buf, sizeof( buf ), "%d ev dispose %ld", g_nthreads, id );
            vs::log_line( buf );
        }
        if ( id <= 0 || id >= MAXOBJ ) return;
        if ( ++g_disposed[id] > 1 ) { ++g_bad_double; note( "double-dispose obj %ld count %ld by thread %ld", id, g_disposed[id], me ); }
        if ( me >= 0 ) {
            long begin = g_ts[me].opbegin;
            for ( size_t t = 0; t < g_ts.size(); ++t )
                for ( auto const& kv : g_ts[t].guards )
                    if ( kv.second.val == id && kv.second.since < begin ) {
                        ++g_bad_guarded;
                        note( "dispose obj %ld by thread %ld while guard %ld of thread %ld holds it since before the operation began", id, me, kv.first, (long) t );
                    }
        }
    }
}

int main( int argc, char** argv )
{
    if ( argc < 2 ) { std::fprintf( stderr, "usage: %s casefile\n", argv[0] ); return 2; }
    for ( int i = 0; i < MAXOBJ; ++i ) g_objs[i].id = i;
    std::ifstream in( argv[1] );
    vcase::Case c;
    while ( vcase::read_case( in, c )) {
        auto cf = [&]( size_t i, long d ) { return c.cfg.size() > i ? c.cfg[i] : d; };
        size_t H = (size_t) cf( 0, 16 );
        size_t nsrc = (size_t) cf( 5, 4 );
        bool destroy = cf( 6, 1 ) == 1;
        if ( cf( 1, 16 ) != 16 || cf( 2, 256 ) != (long) dhp::retired_block::c_capacity ) {
            std::printf( "case %s\nendcase badcfg\n", c.id.c_str());
            continue;
        }
        for ( int i = 0; i < MAXOBJ; ++i ) { g_disposed[i] = 0; g_retired[i] = 0; }
        g_clock = 0; g_bad_guarded = g_bad_double = g_bad_poison = 0; g_notes.clear();
        g_nthreads = (int) c.threads.size();
        g_ts.assign( g_nthreads, ThreadState());

        dhp::smr::construct( H );
        std::unique_ptr<atomics::atomic<Obj*>[]> srcs( new atomics::atomic<Obj*>[nsrc ? nsrc : 1] );
        {
            vs::passthrough_scope ps;
            for ( size_t i = 0; i < nsrc; ++i ) srcs[i].store( nullptr, atomics::memory_order_relaxed );
        }

        auto prim = [&]( int t, long code, long a, long b ) {
            ThreadState& ts = g_ts[t];
            ts.opbegin = ++g_clock;
            auto find = [&]( long j ) -> GuardInfo* { auto it = ts.guards.find( j ); return it == ts.guards.end() ? nullptr : &it->second; };
            switch ( code ) {
            case 1:
                vcase::emitf( "op 1" );
                if ( ts.attached ) { vcase::emitf( "skip" ); break; }
                dhp::smr::attach_thread(); ts.attached = true;
                vcase::emitf( "ret 0" );
                break;
            case 2:
                vcase::emitf( "op 2" );
                if ( !ts.attached ) { vcase::emitf( "skip" ); break; }
                // the client drops its Guard objects without freeing them one by one: detach returns the blocks
                for ( auto& kv : ts.guards ) { kv.second.g->release(); delete kv.second.g; }
                ts.guards.clear();
                dhp::smr::detach_thread(); ts.attached = false;
                vcase::emitf( "ret 0" );
                break;
            case 3:
                vcase::emitf( "op 3 %ld", a );
                if ( !ts.attached || find( a )) { vcase::emitf( "skip" ); break; }
                { Guard* g = new Guard; ts.guards[a] = GuardInfo{ g, 0, ++g_clock }; }
                vcase::emitf( "ret 0" );
                break;
            case 4:
                vcase::emitf( "op 4 %ld", a );
                if ( !ts.attached || !find( a )) { vcase::emitf( "skip" ); break; }
                { Guard* g = find( a )->g; ts.guards.erase( a ); delete g; }
                vcase::emitf( "ret 0" );
                break;
            case 5:
                vcase::emitf( "op 5 %ld %ld", a, b );
                if ( !ts.attached || !find( a )) { vcase::emitf( "skip" ); break; }
                { GuardInfo* gi = find( a ); gi->val = 0; gi->g->assign( &g_objs[b] ); gi->val = b; gi->since = ++g_clock; }
                vcase::emitf( "ret 0" );
                break;
            case 6:
                vcase::emitf( "op 6 %ld", a );
                if ( !ts.attached || !find( a )) { vcase::emitf( "skip" ); break; }
                { GuardInfo* gi = find( a ); gi->val = 0; gi->g->clear(); }
                vcase::emitf( "ret 0" );
                break;
            case 7:
                vcase::emitf( "op 7 %ld %ld", a, b );
                if ( !ts.attached || !find( a )) { vcase::emitf( "skip" ); break; }
                {
                    GuardInfo* gi = find( a ); gi->val = 0;
                    Obj* p = gi->g->protect( srcs[b] );
                    long id = p ? p->id : 0;
                    gi->val = id; gi->since = ++g_clock;
                    if ( id > 0 && g_disposed[id] > 0 ) { ++g_bad_poison; note( "protect returned obj %ld which is already disposed", id ); }
                    vcase::emitf( "ret %ld", id );
                }
                break;
            case 8:
                vcase::emitf( "op 8 %ld %ld", a, b );
                srcs[a].store( b ? &g_objs[b] : nullptr, atomics::memory_order_release );
                vcase::emitf( "ret 0" );
                break;
            case 9:
                vcase::emitf( "op 9 %ld", a );
                if ( !ts.attached ) { vcase::emitf( "skip" ); break; }
                ++g_retired[a];
                cds::gc::DHP::retire( &g_objs[a], disposer );
                vcase::emitf( "ret 0" );
                break;
            case 15:
                vcase::emitf( "op 15 %ld %ld", a, b );
                while ( srcs[a].load( atomics::memory_order_acquire ) != ( b ? &g_objs[b] : nullptr ) && !vs::S().overrun ) {}
                vcase::emitf( "ret 0" );
                break;
            case 10:
                vcase::emitf( "op 10" );
                if ( !ts.attached ) { vcase::emitf( "skip" ); break; }
                cds::gc::DHP::scan();
                vcase::emitf( "ret 0" );
                break;
            }
        };

        vcase::run_workers( c, [&]( int t ) {
            for ( auto const& op : c.threads[t] ) {
                if ( op.empty()) continue;
                long a = op.size() > 1 ? op[1] : 0, b = op.size() > 2 ? op[2] : 0, d = op.size() > 3 ? op[3] : 0;
                switch ( op[0] ) {
                case 1: case 2: case 10: if ( op.size() == 1 ) prim( t, op[0], 0, 0 ); break;
                case 3: case 4: case 6: case 9: if ( op.size() == 2 ) prim( t, op[0], a, 0 ); break;
                case 5: case 7: case 8: case 15: if ( op.size() == 3 ) prim( t, op[0], a, b ); break;
                case 11: if ( op.size() == 3 ) for ( long i = a; i <= b; ++i ) prim( t, 9, i, 0 ); break;
                case 12: if ( op.size() == 4 ) for ( long i = b; i <= d; ++i ) { prim( t, 3, a + i - b, 0 ); prim( t, 5, a + i - b, i ); } break;
                case 13: if ( op.size() == 3 ) for ( long i = 0; i < b; ++i ) prim( t, 4, a + i, 0 ); break;
                case 14: if ( op.size() == 3 ) for ( long i = 0; i < b; ++i ) prim( t, 6, a + i, 0 ); break;
                }
            }
        }, nullptr, nullptr, 400000 );

        bool finished = !vs::S().overrun;
        // guards still held by finished threads are dead: the client is gone
        for ( auto& ts : g_ts ) { for ( auto& kv : ts.guards ) { kv.second.g->release(); delete kv.second.g; } ts.guards.clear(); }
        if ( finished && destroy )
            dhp::smr::destruct( true );
        vcase::print_log( c );
        long lost = 0, extra = 0;
        if ( finished && destroy )
            for ( int i = 1; i < MAXOBJ; ++i ) {
                if ( g_retired[i] == 1 && g_disposed[i] == 0 ) { ++lost; note( "obj %ld retired but never disposed", i ); }
                if ( g_retired[i] == 0 && g_disposed[i] > 0 ) { ++extra; note( "obj %ld disposed but never retired", i ); }
            }
        std::printf( "monitor guarded %ld double %ld poison %ld lost %ld extra %ld\n", g_bad_guarded, g_bad_double, g_bad_poison, lost, extra );
        std::printf( "monitor counts" );
        for ( int i = 1; i < MAXOBJ; ++i ) if ( g_retired[i] || g_disposed[i] ) std::printf( " %d:%d/%d", i, g_disposed[i], g_retired[i] );
        std::printf( "\n" );
        for ( auto const& s : g_notes ) std::printf( "note %s\n", s.c_str());
        std::fflush( stdout );
        if ( !( finished && destroy )) {
            // leave the singleton to the process: threads may still be inside it (overrun)
            if ( finished ) dhp::smr::destruct( true );
            else return 0;
        }
    }
    return 0;
}
