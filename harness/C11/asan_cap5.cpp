// C11: confirm or refute on the REAL code, under AddressSanitizer, the out-of-bounds access the model predicts
// (Properties_C11.C11_mspq_capacity5_out_of_bounds) for an MSPriorityQueue whose buffer has Exp2 = false.
// Plain single thread, no scheduler, no hook.  usage: asan_cap5 <buffer size> <number of pushes>
//   Before the fix "MSPriorityQueue uses only complete heap levels of a non-power-of-two buffer": buffer size 6 ->
//   capacity() = 5, the 5th push got slot 6 from bit_reverse_counter and used m_Heap[6] (heap-buffer-overflow, WRITE
//   in spin_lock::try_lock called from push, mspriority_queue.h:272; same for buffers 10 and 14).
//   After the fix capacity() = floor2(6) - 1 = 3: pushes #4 and #5 fail, no error.  checks/C11.py runs this program
//   for buffers 6, 10, 14, 7, 5 and reports any AddressSanitizer output as a violation.
// Build: g++ -std=c++11 -O1 -g -DNDEBUG -fsanitize=address -fno-omit-frame-pointer -I$REPO asan_cap5.cpp -pthread
#include <cds/intrusive/mspriority_queue.h>
#include <cds/opt/buffer.h>
#include <cds/sync/spinlock.h>
#include <cstdio>
#include <cstdlib>
#include <vector>

struct Item { int prio; int id; };
struct item_less { bool operator()( Item const& a, Item const& b ) const { return a.prio < b.prio; } };

struct traits_nonexp2 : public cds::intrusive::mspriority_queue::traits {
    typedef cds::opt::v::initialized_dynamic_buffer<char, CDS_DEFAULT_ALLOCATOR, false> buffer;   // Exp2 = false
    typedef item_less less;
};
typedef cds::intrusive::MSPriorityQueue<Item, traits_nonexp2> pqueue;

int main( int argc, char** argv )
{
    size_t bufsize = argc > 1 ? (size_t) std::atol( argv[1] ) : 6;
    int n = argc > 2 ? std::atoi( argv[2] ) : 5;
    std::vector<Item> items( (size_t) n );
    pqueue q( bufsize );
    std::printf( "capacity() = %zu, buffer cells = %zu\n", q.capacity(), q.capacity() + 1 );
    for ( int i = 0; i < n; ++i ) {
        items[i].prio = 1; items[i].id = i + 1;
        std::printf( "push #%d ...\n", i + 1 ); std::fflush( stdout );
        bool b = q.push( items[i] );
        std::printf( "push #%d -> %d, size %zu\n", i + 1, (int) b, q.size());
    }
    int popped = 0;
    while ( q.pop()) ++popped;
    std::printf( "popped %d of %d\n", popped, n );
    return 0;
}
