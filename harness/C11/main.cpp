// C11 harness: runs client programs of push / pop operations on the real cds::intrusive::MSPriorityQueue and
// cds::container::MSPriorityQueue under the deterministic scheduler and prints the event log (format:
// ocaml/conc_main.ml) followed by monitor lines.
//
// usage: main <casefile>
//   cfg = [capacity; lock fuel (model only); heapify fuel (model only); variant]
//     capacity = capacity() of the queue = buffer size - 1; the buffers used here have Exp2 = true, so only
//                1, 3, 7, 15 are possible (anything else is rejected with "monitor badcfg")
//     variant  0 intrusive, initialized_dynamic_buffer, spin_lock<backoff::empty>, back_off empty
//              1 container, same traits
//              2 intrusive, initialized_static_buffer<capacity+1>
//              3 container, initialized_static_buffer<capacity+1>
//              4 container, default traits (cds::sync::spin with its exponential back-off, backoff::Default)
//              5 intrusive, checked_buffer of cfg[4] cells (any size, Exp2 = false): capacity() must be
//                floor2(cfg[4]) - 1 = cfg[0]; every m_Heap[i] is bounds-checked by the buffer itself (an index
//                outside the buffer is redirected to a spare cell and reported: no real out-of-bounds access).
//                The model takes the buffer size as cfg[4] (unused tail cells are visited by heapify_after_pop).
//   operations:  "1 p id" = push item (priority p, identity id)   events  inv_push p id ; ret_push b p id
//                "2"      = pop                                   events  inv_pop ; ret_pop 1 p id | ret_pop 0 0 0
//   The comparator orders items by priority only (equal priorities compare equal).
//
// Monitor lines after "endcase" (produced by the main thread, outside the scheduler, not logged):
//   monitor size <n>              size() after the run
//   monitor drain <p> <id> ...    the items still in the queue, popped one after the other
//   monitor alien <k>             pop() returned k pointers that are not items of this case
//   monitor oob <k>               (variant 5) k accesses m_Heap[i] with i >= buffer size
//   monitor capacity <c> expected <e>   (variant 5) capacity() differs from floor2(buffer size) - 1
// A watchdog ends a case that does not finish within 20 s (a corrupted heap or a lock that is never
// released): "monitor hang <case id>" is printed and the process exits with status 3.
#include <cds/intrusive/mspriority_queue.h>
#include <cds/container/mspriority_queue.h>
#include <cds/sync/spinlock.h>
#include <cds/algo/backoff_strategy.h>
#include <vcase.h>
#include <csignal>
#include <unistd.h>
#include <cstring>
#include <memory>
#include <mutex>
#include <set>

namespace vs = khizmax_libcds_verif;
namespace ci = cds::intrusive;
namespace cc = cds::container;

struct Item {
    int prio;
    int id;
    Item() : prio( 0 ), id( 0 ) {}
    Item( int p, int i ) : prio( p ), id( i ) {}
};
struct item_less {
    bool operator()( Item const& a, Item const& b ) const { return a.prio < b.prio; }
};

typedef cds::sync::spin_lock<cds::backoff::empty> lock_t;

// a buffer of any size whose operator[] checks the index (regression monitor for the non-power-of-two overflow)
static std::atomic<long> g_oob( 0 );
template <typename T>
class checked_buffer {
    std::vector<T> m_cells;     // m_cells[n] is the spare cell out-of-range accesses are redirected to
    size_t         m_n;
public:
    typedef T value_type;
    static constexpr const bool c_bExp2 = false;
    template <typename Q> struct rebind { typedef checked_buffer<Q> other; };
    explicit checked_buffer( size_t n ) : m_cells( n + 1 ), m_n( n ) {}
    checked_buffer( checked_buffer const& ) = delete;
    T& operator[]( size_t i ) { if ( i >= m_n ) { ++g_oob; return m_cells[m_n]; } return m_cells[i]; }
    T const& operator[]( size_t i ) const { if ( i >= m_n ) { ++g_oob; return m_cells[m_n]; } return m_cells[i]; }
    size_t capacity() const noexcept { return m_n; }
};
struct traits_checked : public ci::mspriority_queue::traits {
    typedef checked_buffer<char> buffer;
    typedef item_less less;
    typedef lock_t lock_type;
    typedef cds::backoff::empty back_off;
};

struct traits_dyn : public ci::mspriority_queue::traits {
    typedef cds::opt::v::initialized_dynamic_buffer<char> buffer;
    typedef item_less less;
    typedef lock_t lock_type;
    typedef cds::backoff::empty back_off;
};
template <size_t N>
struct traits_static : public ci::mspriority_queue::traits {
    typedef cds::opt::v::initialized_static_buffer<char, N> buffer;
    typedef item_less less;
    typedef lock_t lock_type;
    typedef cds::backoff::empty back_off;
};
struct ctraits_dyn : public cc::mspriority_queue::traits {
    typedef cds::opt::v::initialized_dynamic_buffer<char> buffer;
    typedef item_less less;
    typedef lock_t lock_type;
    typedef cds::backoff::empty back_off;
};
template <size_t N>
struct ctraits_static : public cc::mspriority_queue::traits {
    typedef cds::opt::v::initialized_static_buffer<char, N> buffer;
    typedef item_less less;
    typedef lock_t lock_type;
    typedef cds::backoff::empty back_off;
};
struct ctraits_default : public cc::mspriority_queue::traits {
    typedef item_less less;
};

// ---- adapters: push(p,id) -> bool ; pop(p,id) -> 1 item, 0 empty, -1 pointer that is not ours -------------
template <class Q>
struct intrusive_adapter {
    Q q;
    std::vector<std::unique_ptr<Item>> items;     // every item of the case; released after the case
    std::set<Item*> all;
    std::mutex m;                                  // harness bookkeeping only (not an instrumented atomic)
    explicit intrusive_adapter( size_t bufsize ) : q( bufsize ) {}
    bool push( int p, int id )
    {
        Item* x = new Item( p, id );
        {
            std::lock_guard<std::mutex> g( m );
            items.emplace_back( x );
            all.insert( x );
        }
        return q.push( *x );
    }
    int pop( int& p, int& id )
    {
        Item* x = q.pop();
        if ( !x ) { p = 0; id = 0; return 0; }
        {
            std::lock_guard<std::mutex> g( m );
            if ( !all.count( x )) { p = 0; id = 0; return -1; }
        }
        p = x->prio; id = x->id;
        return 1;
    }
    size_t size() const { return q.size(); }
};

template <class Q>
struct container_adapter {
    Q q;
    explicit container_adapter( size_t bufsize ) : q( bufsize ) {}
    bool push( int p, int id ) { return q.push( Item( p, id )); }
    int pop( int& p, int& id )
    {
        Item x;
        if ( !q.pop( x )) { p = 0; id = 0; return 0; }
        p = x.prio; id = x.id;
        return 1;
    }
    size_t size() const { return q.size(); }
};

static char g_case_id[128] = "";
static void on_alarm( int )
{
    char buf[200];
    int n = std::snprintf( buf, sizeof( buf ), "monitor hang %s\n", g_case_id );
    if ( write( 1, buf, (size_t) n ) < 0 ) {}
    _exit( 3 );
}

template <class A>
static void run_one( vcase::Case const& c, size_t cap, size_t bufsize = 0 )
{
    bool checked = bufsize != 0;
    if ( !checked ) bufsize = cap + 1;
    g_oob.store( 0 );
    std::unique_ptr<A> a( new A( bufsize ));
    size_t realcap = a->q.capacity();
    if ( realcap != cap && !checked ) {
        std::printf( "case %s\nendcase finished\nmonitor badcfg capacity %zu\n", c.id.c_str(), realcap );
        return;
    }
    std::strncpy( g_case_id, c.id.c_str(), sizeof( g_case_id ) - 1 );
    alarm( 20 );
    vcase::run_workers( c, [&]( int t ) {
        for ( auto const& op : c.threads[t] ) {
            if ( op.empty()) continue;
            if ( op[0] == 1 && op.size() >= 3 ) {
                vcase::emitf( "inv_push %ld %ld", op[1], op[2] );
                bool b = a->push( (int) op[1], (int) op[2] );
                vcase::emitf( "ret_push %ld %ld %ld", (long) b, op[1], op[2] );
            }
            else if ( op[0] == 2 ) {
                vcase::emitf( "inv_pop" );
                int p = 0, id = 0;
                int r = a->pop( p, id );
                if ( r < 0 ) vcase::emitf( "ret_pop_alien" );
                else vcase::emitf( "ret_pop %ld %ld %ld", (long) r, (long) p, (long) id );
            }
        }
    }, nullptr, nullptr, 4000 );     // step limit: checks/C11.py STEP_FUEL
    std::fflush( stdout );
    vcase::print_log( c );
    // monitors (main thread: passes straight through the scheduling points)
    if ( !vs::S().overrun ) {
        std::printf( "monitor size %zu\n", a->size());
        std::printf( "monitor drain" );
        int alien = 0;
        for ( int i = 0; i < 64; ++i ) {
            int p = 0, id = 0;
            int r = a->pop( p, id );
            if ( r == 0 ) break;
            if ( r < 0 ) { ++alien; continue; }
            std::printf( " %d %d", p, id );
        }
        std::printf( "\n" );
        if ( alien ) std::printf( "monitor alien %d\n", alien );
    }
    if ( checked ) {
        if ( g_oob.load()) std::printf( "monitor oob %ld\n", g_oob.load());
        if ( realcap != cap ) std::printf( "monitor capacity %zu expected %zu\n", realcap, cap );
    }
    alarm( 0 );
    std::fflush( stdout );
    if ( vs::S().overrun ) {
        // the workers ran free after the step limit: the object may be in any state; do not destroy it
        // through the normal path (a held lock would hang the destructor's clear())
        a.release();
    }
}

template <template <class> class Ad, class Q>
static void run_q( vcase::Case const& c, size_t cap ) { run_one< Ad<Q> >( c, cap ); }

int main( int argc, char** argv )
{
    if ( argc < 2 ) { std::fprintf( stderr, "usage: %s casefile\n", argv[0] ); return 2; }
    std::signal( SIGALRM, on_alarm );
    std::ifstream in( argv[1] );
    vcase::Case c;
    while ( vcase::read_case( in, c )) {
        size_t cap = c.cfg.size() > 0 ? (size_t) c.cfg[0] : 3;
        long variant = c.cfg.size() > 3 ? c.cfg[3] : 0;
        bool ok = cap == 1 || cap == 3 || cap == 7 || cap == 15 || variant == 5;
        if ( !ok ) { std::printf( "case %s\nendcase finished\nmonitor badcfg capacity\n", c.id.c_str()); continue; }
        switch ( variant ) {
        case 0: run_q< intrusive_adapter, ci::MSPriorityQueue<Item, traits_dyn> >( c, cap ); break;
        case 1: run_q< container_adapter, cc::MSPriorityQueue<Item, ctraits_dyn> >( c, cap ); break;
        case 2:
            if ( cap == 1 ) run_q< intrusive_adapter, ci::MSPriorityQueue<Item, traits_static<2>> >( c, cap );
            else if ( cap == 3 ) run_q< intrusive_adapter, ci::MSPriorityQueue<Item, traits_static<4>> >( c, cap );
            else if ( cap == 7 ) run_q< intrusive_adapter, ci::MSPriorityQueue<Item, traits_static<8>> >( c, cap );
            else run_q< intrusive_adapter, ci::MSPriorityQueue<Item, traits_static<16>> >( c, cap );
            break;
        case 3:
            if ( cap == 1 ) run_q< container_adapter, cc::MSPriorityQueue<Item, ctraits_static<2>> >( c, cap );
            else if ( cap == 3 ) run_q< container_adapter, cc::MSPriorityQueue<Item, ctraits_static<4>> >( c, cap );
            else if ( cap == 7 ) run_q< container_adapter, cc::MSPriorityQueue<Item, ctraits_static<8>> >( c, cap );
            else run_q< container_adapter, cc::MSPriorityQueue<Item, ctraits_static<16>> >( c, cap );
            break;
        case 4: run_q< container_adapter, cc::MSPriorityQueue<Item, ctraits_default> >( c, cap ); break;
        case 5: run_one< intrusive_adapter< ci::MSPriorityQueue<Item, traits_checked> > >( c, cap, c.cfg.size() > 4 ? (size_t) c.cfg[4] : cap + 1 ); break;
        default: std::printf( "case %s\nendcase finished\nmonitor badcfg variant\n", c.id.c_str());
        }
    }
    return 0;
}
