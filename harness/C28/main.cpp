// C28 — Feldman hash addressing: differential harness (real code side).
//
//   main IN OUT      one case per line of IN, "<case> -> <result>" per line of OUT (flushed line by line: the case
//                    text is written BEFORE it is executed, so a crash leaves the failing input as the last line)
//
// Values are hexadecimal magnitudes with an optional leading '-', byte-string hashes are m:<two hex digits per byte>
// (same syntax as ocaml/cxx2v_rt.ml).  Cases:
//   make <head> <array> <size>             feldman_hashset::details::metrics::make( head, array, size )
//                                          -> <head_log> <head_size> <array_log> <array_size>
//   path.<family> <head> <array> <hash>    NO container: m = metrics::make( head, array, c_hash_size ); the splitter
//                                          type multilevel_array<...>::hash_splitter the set selects; the cut sequence
//                                          of traverse_data::reset / traverse (cut head bits, then array bits until
//                                          eos) and, per level, expand_slot's hash_splitter( hash, bit_offset ).cut()
//                                          -> m=<hl>,<al> p=<slot>:<eos>,... x=<idx>,...   |  rej m=<hl>,<al>
//   set.<family> <head> <array> <hash>...  the REAL FeldmanHashSet< cds::gc::HP, item, traits >( head, array ):
//                                          insert the hashes in order, then walk the tree (derived class, no
//                                          splitter involved) and report the slot path of every data node
//                                          -> m=<hl>,<al> r=<insert results> | <i>@<slot>.<slot>... | ...
//                                             ; hs=<head_size()>,<array_node_size()> ls=<get_level_statistics()>
// family: ns_u16 ns_i16 ns_u32 ns_i32 ns_u64 ns_i64 (integral hash -> cds::algo::number_splitter),
//         sb1 sb2 sb4 sb8 (N-byte struct -> cds::algo::split_bitstring), bs1 bs2 bs4 bs8 (N-byte struct with
//         traits::hash_splitter = cds::algo::byte_splitter).
// Lines named after GENERATED functions (tools/cxx2v units feldman_make / feldman_ctor; the model side evaluates the
// extracted Gen_feldman_make / Gen_feldman_ctor through the dispatch of tools/cxx2v/gen_ocaml_dispatch.py):
//   feldman_make.metrics_make <head> <array> <size>   metrics::make -> the four members in declaration order
//                                                      <head_node_size> <head_node_size_log> <array_node_size> <array_node_size_log>
//   feldman_ctor.<fam>_init <hash>                    the splitter constructor splitter( hash )
//   feldman_ctor.<fam>_init_at <hash> <offset>        the splitter constructor splitter( hash, offset )
//                                                      -> the data members of the constructed splitter in declaration order
//                                                         (number_ shift_ | cur_ offset_ first_ last_ | cur_ first_ last_),
//                                                         pointers as byte offsets from &hash
//      fam: ns_i16 ns_u16 ns_i32 ns_u32 ns_i64 ns_u64, sb1..sb8 (split_bitstring<bytes<N>,N,unsigned>), bs1..bs8 (byte_splitter)
//   split_ctor.<fam>_init[_at] ...                    the same for the instantiations of C25 (unit split_ctor of
//                                                      tools/cxx2v/units_C25_init.json; checks/C25_init.py): fam = ns_i16 ...
//                                                      ns_u64 ns_i64ll ns_u64ll, sb_u32_<N> sb_u64_<N> bs_u32_<N> bs_u64_<N>, N = 1 2 4 6 8
//   The members are private: this file is compiled with -fno-access-control (checks/C28.py).
// Every case runs under alarm( 20 ) and the process under a 3 GB address-space limit: a hang or runaway allocation of the
// code under test ends the process and leaves the case as the last, unfinished output line.
// Single-threaded, hook off.  "rej" = hash_splitter::is_correct fails for a width (the constructor's assertion;
// the set is not built).
#include <cstdio>
#include <cstdlib>
#include <cstring>
#include <cstdint>
#include <string>
#include <vector>
#include <deque>
#include <sstream>
#include <fstream>
#include <algorithm>
#include <type_traits>
#include <unistd.h>
#include <sys/resource.h>

#include <cds/init.h>
#include <cds/gc/hp.h>
#include <cds/intrusive/feldman_hashset_hp.h>

namespace ci = cds::intrusive;
typedef cds::gc::HP gc_type;
typedef ci::feldman_hashset::details::metrics metrics_t;

static FILE * g_out;

template <size_t N> struct bytes { uint8_t b[N]; };

struct nop_disposer { template <typename T> void operator()( T * ) const {} };

template <typename H> struct item { H hash; int idx; };
template <typename H> struct accessor { H const& operator()( item<H> const& i ) const { return i.hash; } };

template <typename H> struct traits_default : public ci::feldman_hashset::traits {
    typedef accessor<H> hash_accessor;
    typedef nop_disposer disposer;
};
template <size_t N> struct traits_bs : public ci::feldman_hashset::traits {
    typedef accessor< bytes<N> > hash_accessor;
    typedef nop_disposer disposer;
    typedef cds::algo::byte_splitter< bytes<N>, N > hash_splitter;
};

// ---------------------------------------------------------------------------------------------- values
static void put_u( std::string& s, unsigned long long v ) { char b[32]; std::snprintf( b, sizeof b, "%llx", v ); s += b; }
static void put_s( std::string& s, long long v )
{
    if ( v < 0 ) { s += "-"; put_u( s, 0ULL - (unsigned long long) v ); } else put_u( s, (unsigned long long) v );
}
template <typename T> static typename std::enable_if< std::is_signed<T>::value >::type put( std::string& s, T v ) { put_s( s, (long long) v ); }
template <typename T> static typename std::enable_if< !std::is_signed<T>::value >::type put( std::string& s, T v ) { put_u( s, (unsigned long long) v ); }

static bool parse_int( std::string const& t, unsigned long long& mag, bool& neg )
{
    neg = !t.empty() && t[0] == '-';
    char * e = nullptr;
    mag = std::strtoull( t.c_str() + ( neg ? 1 : 0 ), &e, 16 );
    return e && *e == 0 && t.size() > ( neg ? 1u : 0u );
}
template <typename H> static bool parse_hash( std::string const& t, H& h )          // integral
{
    unsigned long long mag; bool neg;
    if ( !parse_int( t, mag, neg )) return false;
    h = (H)( neg ? 0ULL - mag : mag );
    return true;
}
template <size_t N> static bool parse_hash( std::string const& t, bytes<N>& h )
{
    if ( t.size() != 2 + 2 * N || t[0] != 'm' || t[1] != ':' ) return false;
    for ( size_t i = 0; i < N; ++i ) h.b[i] = (uint8_t) std::strtoul( t.substr( 2 + 2 * i, 2 ).c_str(), nullptr, 16 );
    return true;
}

static std::string show_m( metrics_t const& m )
{
    std::string s = "m="; put_u( s, m.head_node_size_log ); s += ","; put_u( s, m.array_node_size_log ); return s;
}

// ---------------------------------------------------------------------------------------------- path (no container)
template <typename H, typename Traits>
static std::string do_path( size_t head, size_t array, H const& h )
{
    typedef ci::feldman_hashset::multilevel_array< item<H>, Traits > mla;
    typedef typename mla::hash_splitter splitter;
    metrics_t m = metrics_t::make( head, array, mla::c_hash_size );
    if ( !( splitter::is_correct( static_cast<unsigned>( m.head_node_size_log ))
         && splitter::is_correct( static_cast<unsigned>( m.array_node_size_log ))))
        return "rej " + show_m( m );
    std::string p, x;
    splitter sp( h );
    sp.reset();
    typename splitter::uint_type slot = sp.cut( static_cast<unsigned>( m.head_node_size_log ));     // traverse_data::reset
    put( p, slot ); p += sp.eos() ? ":1" : ":0";
    for ( int guard = 0; !sp.eos() && guard < 80; ++guard ) {
        // expand_slot( pos, current ): hash_splitter( hash, pos.splitter.bit_offset()).cut( array_node_size_log )
        typename splitter::uint_type idx = splitter( h, sp.bit_offset()).cut( static_cast<unsigned>( m.array_node_size_log ));
        if ( !x.empty()) x += ",";
        put( x, idx );
        slot = sp.cut( static_cast<unsigned>( m.array_node_size_log ));                             // traverse
        p += ","; put( p, slot ); p += sp.eos() ? ":1" : ":0";
    }
    return show_m( m ) + " p=" + p + " x=" + x;
}

// ---------------------------------------------------------------------------------------------- real container
template <typename Set>
struct probe : public Set
{
    typedef typename Set::array_node array_node;
    typedef typename Set::node_ptr   node_ptr;
    probe( size_t h, size_t a ) : Set( h, a ) {}

    struct found { int idx; std::vector<size_t> path; };
    std::vector<found> nodes;
    std::vector<size_t> n_arr, n_data, n_acell, n_empty;
    bool converting;

    void walk( array_node * arr, size_t n, std::vector<size_t>& pfx )
    {
        size_t lvl = pfx.size();
        if ( n_arr.size() <= lvl ) { n_arr.resize( lvl + 1 ); n_data.resize( lvl + 1 ); n_acell.resize( lvl + 1 ); n_empty.resize( lvl + 1 ); }
        ++n_arr[lvl];
        for ( size_t i = 0; i < n; ++i ) {
            node_ptr slot = arr->nodes[i].load( atomics::memory_order_relaxed );
            if ( slot.bits() == Set::flag_array_node ) {
                ++n_acell[lvl];
                pfx.push_back( i );
                walk( Set::to_array( slot.ptr()), this->array_node_size(), pfx );
                pfx.pop_back();
            }
            else if ( slot.bits()) { converting = true; ++n_acell[lvl]; }
            else if ( slot.ptr()) {
                ++n_data[lvl];
                found f; f.idx = slot.ptr()->idx; f.path = pfx; f.path.push_back( i );
                nodes.push_back( f );
            }
            else
                ++n_empty[lvl];
        }
    }
    void scan()
    {
        nodes.clear(); n_arr.clear(); n_data.clear(); n_acell.clear(); n_empty.clear(); converting = false;
        std::vector<size_t> pfx;
        walk( this->head(), this->head_size(), pfx );
    }
};

template <typename H, typename Traits>
static std::string do_set( size_t head, size_t array, std::vector<H> const& hs )
{
    typedef ci::feldman_hashset::multilevel_array< item<H>, Traits > mla;
    typedef typename mla::hash_splitter splitter;
    typedef ci::FeldmanHashSet< gc_type, item<H>, Traits > set_t;
    metrics_t m = metrics_t::make( head, array, mla::c_hash_size );
    if ( !( splitter::is_correct( static_cast<unsigned>( m.head_node_size_log ))
         && splitter::is_correct( static_cast<unsigned>( m.array_node_size_log ))))
        return "rej " + show_m( m );
    if ( m.head_node_size_log > 24 || m.array_node_size_log > 20 )
        return "skipped (too large for the sandbox) " + show_m( m );
    std::string out = show_m( m ) + " r=";
    std::deque< item<H> > pool;
    {
        probe<set_t> s( head, array );
        for ( size_t i = 0; i < hs.size(); ++i ) {
            item<H> it; it.hash = hs[i]; it.idx = (int) i;
            pool.push_back( it );
            bool r = s.insert( pool.back());
            if ( i ) out += ",";
            out += r ? "1" : "0";
        }
        s.scan();
        std::sort( s.nodes.begin(), s.nodes.end(), []( typename probe<set_t>::found const& a, typename probe<set_t>::found const& b ) { return a.idx < b.idx; } );
        for ( auto const& f : s.nodes ) {
            out += " | "; out += std::to_string( f.idx ); out += "@";
            for ( size_t k = 0; k < f.path.size(); ++k ) { if ( k ) out += "."; put_u( out, f.path[k] ); }
        }
        if ( s.converting ) out += " | converting-slot-left-behind";
        // public interface: sizes and level statistics
        out += " ; hs="; put_u( out, s.head_size()); out += ","; put_u( out, s.array_node_size());
        std::vector< ci::feldman_hashset::level_statistics > st;
        s.get_level_statistics( st );
        out += " ls=";
        for ( size_t l = 0; l < st.size(); ++l ) {
            if ( l ) out += ",";
            put_u( out, st[l].array_node_count ); out += ":"; put_u( out, st[l].data_cell_count ); out += ":";
            put_u( out, st[l].array_cell_count ); out += ":"; put_u( out, st[l].empty_cell_count ); out += ":";
            put_u( out, st[l].node_capacity );
        }
        // the harness' own walk must agree with get_level_statistics
        bool same = st.size() == s.n_arr.size();
        for ( size_t l = 0; same && l < st.size(); ++l )
            same = st[l].array_node_count == s.n_arr[l] && st[l].data_cell_count == s.n_data[l]
                && st[l].array_cell_count == s.n_acell[l] && st[l].empty_cell_count == s.n_empty[l];
        out += same ? " walk=ok" : " walk=DIFFERS";
        out += " size="; put_u( out, s.size());
    }
    gc_type::force_dispose();
    return out;
}

// ---------------------------------------------------------------------------------------------- generated constructors
template <typename T>
static std::string show_state( cds::algo::number_splitter<T> const& s, void const * )
{
    std::string o; put( o, s.number_ ); o += " "; put_u( o, s.shift_ ); return o;
}
template <typename B, size_t N, typename U>
static std::string show_state( cds::algo::split_bitstring<B, N, U> const& s, void const * base )
{
    uint8_t const * b = static_cast<uint8_t const *>( base );
    std::string o; put_s( o, s.cur_ - b ); o += " "; put_u( o, s.offset_ ); o += " "; put_s( o, s.first_ - b ); o += " "; put_s( o, s.last_ - b );
    return o;
}
template <typename B, size_t N, typename U>
static std::string show_state( cds::algo::byte_splitter<B, N, U> const& s, void const * base )
{
    uint8_t const * b = static_cast<uint8_t const *>( base );
    std::string o; put_s( o, s.cur_ - b ); o += " "; put_s( o, s.first_ - b ); o += " "; put_s( o, s.last_ - b );
    return o;
}

template <typename Splitter, typename H>
static std::string do_ctor( bool at, std::vector<std::string> const& tok )
{
    if ( tok.size() != ( at ? 3u : 2u )) return "BADLINE";
    H h;
    if ( !parse_hash( tok[1], h )) return "BADHASH";
    if ( !at ) { Splitter s( h ); return show_state( s, &h ); }
    unsigned long long off; bool neg;
    if ( !parse_int( tok[2], off, neg ) || neg ) return "BADLINE";
    Splitter s( h, static_cast<size_t>( off ));
    return show_state( s, &h );
}

template <size_t N, typename U = unsigned>
static std::string do_ctor_bytes( char kind, bool at, std::vector<std::string> const& tok )
{
    if ( kind == 's' ) return do_ctor< cds::algo::split_bitstring< bytes<N>, N, U >, bytes<N> >( at, tok );
    return do_ctor< cds::algo::byte_splitter< bytes<N>, N, U >, bytes<N> >( at, tok );
}

// unit split_ctor (C25, tools/cxx2v/units_C25_init.json): families ns_<type> (8 integer types) and
// sb_u32_<N> sb_u64_<N> bs_u32_<N> bs_u64_<N> (UInt = unsigned / unsigned long; N = 1, 2, 4, 6, 8 bytes)
template <typename U>
static std::string do_ctor_sized( char kind, char size, bool at, std::vector<std::string> const& tok )
{
    switch ( size ) {
    case '1': return do_ctor_bytes<1, U>( kind, at, tok );
    case '2': return do_ctor_bytes<2, U>( kind, at, tok );
    case '4': return do_ctor_bytes<4, U>( kind, at, tok );
    case '6': return do_ctor_bytes<6, U>( kind, at, tok );
    case '8': return do_ctor_bytes<8, U>( kind, at, tok );
    }
    return "BADFAMILY";
}

static std::string run_generated( std::string const& unit, std::string const& fn, std::vector<std::string> const& tok )
{
    if ( unit == "feldman_make" ) {
        if ( fn != "metrics_make" ) return "BADFUNCTION";
        unsigned long long h, a, s; bool n1, n2, n3;
        if ( tok.size() != 4 || !parse_int( tok[1], h, n1 ) || !parse_int( tok[2], a, n2 ) || !parse_int( tok[3], s, n3 ) || n1 || n2 || n3 ) return "BADLINE";
        metrics_t m = metrics_t::make( (size_t) h, (size_t) a, (size_t) s );
        std::string o; put_u( o, m.head_node_size ); o += " "; put_u( o, m.head_node_size_log ); o += " ";
        put_u( o, m.array_node_size ); o += " "; put_u( o, m.array_node_size_log );
        return o;
    }
    if ( unit != "feldman_ctor" && unit != "split_ctor" ) return "BADUNIT";
    bool at;
    std::string fam;
    if ( fn.size() > 8 && fn.compare( fn.size() - 8, 8, "_init_at" ) == 0 ) { at = true; fam = fn.substr( 0, fn.size() - 8 ); }
    else if ( fn.size() > 5 && fn.compare( fn.size() - 5, 5, "_init" ) == 0 ) { at = false; fam = fn.substr( 0, fn.size() - 5 ); }
    else return "BADFUNCTION";
    if ( fam == "ns_i16" ) return do_ctor< cds::algo::number_splitter<short>, short >( at, tok );
    if ( fam == "ns_u16" ) return do_ctor< cds::algo::number_splitter<unsigned short>, unsigned short >( at, tok );
    if ( fam == "ns_i32" ) return do_ctor< cds::algo::number_splitter<int>, int >( at, tok );
    if ( fam == "ns_u32" ) return do_ctor< cds::algo::number_splitter<unsigned int>, unsigned int >( at, tok );
    if ( fam == "ns_i64" ) return do_ctor< cds::algo::number_splitter<long>, long >( at, tok );
    if ( fam == "ns_u64" ) return do_ctor< cds::algo::number_splitter<unsigned long>, unsigned long >( at, tok );
    if ( unit == "split_ctor" ) {
        if ( fam == "ns_i64ll" ) return do_ctor< cds::algo::number_splitter<long long>, long long >( at, tok );
        if ( fam == "ns_u64ll" ) return do_ctor< cds::algo::number_splitter<unsigned long long>, unsigned long long >( at, tok );
        // sb_u32_4, bs_u64_8, ...
        if ( fam.size() == 8 && ( fam.compare( 0, 3, "sb_" ) == 0 || fam.compare( 0, 3, "bs_" ) == 0 ) && fam[6] == '_' ) {
            if ( fam.compare( 3, 3, "u32" ) == 0 ) return do_ctor_sized<unsigned>( fam[0], fam[7], at, tok );
            if ( fam.compare( 3, 3, "u64" ) == 0 ) return do_ctor_sized<unsigned long>( fam[0], fam[7], at, tok );
        }
        return "BADFAMILY";
    }
    if ( fam.size() == 3 && ( fam[0] == 's' || fam[0] == 'b' ) && fam[1] == ( fam[0] == 's' ? 'b' : 's' )) {
        switch ( fam[2] ) {
        case '1': return do_ctor_bytes<1>( fam[0], at, tok );
        case '2': return do_ctor_bytes<2>( fam[0], at, tok );
        case '3': return do_ctor_bytes<3>( fam[0], at, tok );
        case '4': return do_ctor_bytes<4>( fam[0], at, tok );
        case '5': return do_ctor_bytes<5>( fam[0], at, tok );
        case '6': return do_ctor_bytes<6>( fam[0], at, tok );
        case '7': return do_ctor_bytes<7>( fam[0], at, tok );
        case '8': return do_ctor_bytes<8>( fam[0], at, tok );
        }
    }
    return "BADFAMILY";
}

template <typename H, typename Traits>
static std::string run_family( std::string const& kind, std::vector<std::string> const& tok )
{
    unsigned long long head, array; bool neg;
    if ( tok.size() < 4 || !parse_int( tok[1], head, neg ) || neg || !parse_int( tok[2], array, neg ) || neg ) return "BADLINE";
    std::vector<H> hs;
    for ( size_t i = 3; i < tok.size(); ++i ) { H h; if ( !parse_hash( tok[i], h )) return "BADHASH"; hs.push_back( h ); }
    if ( kind == "path" ) return hs.size() == 1 ? do_path<H, Traits>( (size_t) head, (size_t) array, hs[0] ) : "BADLINE";
    if ( kind == "set" ) return do_set<H, Traits>( (size_t) head, (size_t) array, hs );
    return "BADKIND";
}

static std::string run_line( std::vector<std::string> const& tok )
{
    if ( tok[0] == "make" ) {
        unsigned long long h, a, s; bool n1, n2, n3;
        if ( tok.size() != 4 || !parse_int( tok[1], h, n1 ) || !parse_int( tok[2], a, n2 ) || !parse_int( tok[3], s, n3 )) return "BADLINE";
        metrics_t m = metrics_t::make( (size_t) h, (size_t) a, (size_t) s );
        std::string o; put_u( o, m.head_node_size_log ); o += " "; put_u( o, m.head_node_size ); o += " ";
        put_u( o, m.array_node_size_log ); o += " "; put_u( o, m.array_node_size );
        return o;
    }
    size_t dot = tok[0].find( '.' );
    if ( dot == std::string::npos ) return "BADLINE";
    std::string kind = tok[0].substr( 0, dot ), fam = tok[0].substr( dot + 1 );
    if ( kind == "feldman_make" || kind == "feldman_ctor" || kind == "split_ctor" ) return run_generated( kind, fam, tok );
    if ( fam == "ns_u16" ) return run_family< unsigned short, traits_default<unsigned short> >( kind, tok );
    if ( fam == "ns_i16" ) return run_family< short, traits_default<short> >( kind, tok );
    if ( fam == "ns_u32" ) return run_family< unsigned int, traits_default<unsigned int> >( kind, tok );
    if ( fam == "ns_i32" ) return run_family< int, traits_default<int> >( kind, tok );
    if ( fam == "ns_u64" ) return run_family< unsigned long, traits_default<unsigned long> >( kind, tok );
    if ( fam == "ns_i64" ) return run_family< long, traits_default<long> >( kind, tok );
    if ( fam == "sb1" ) return run_family< bytes<1>, traits_default< bytes<1> > >( kind, tok );
    if ( fam == "sb2" ) return run_family< bytes<2>, traits_default< bytes<2> > >( kind, tok );
    if ( fam == "sb4" ) return run_family< bytes<4>, traits_default< bytes<4> > >( kind, tok );
    if ( fam == "sb8" ) return run_family< bytes<8>, traits_default< bytes<8> > >( kind, tok );
    if ( fam == "bs1" ) return run_family< bytes<1>, traits_bs<1> >( kind, tok );
    if ( fam == "bs2" ) return run_family< bytes<2>, traits_bs<2> >( kind, tok );
    if ( fam == "bs4" ) return run_family< bytes<4>, traits_bs<4> >( kind, tok );
    if ( fam == "bs8" ) return run_family< bytes<8>, traits_bs<8> >( kind, tok );
    return "BADFAMILY";
}

// the splitter the traits select must be the one the model uses for the family
static_assert( std::is_same< ci::feldman_hashset::multilevel_array< item<unsigned long>, traits_default<unsigned long> >::hash_splitter,
                             cds::algo::number_splitter<unsigned long> >::value, "unsigned long -> number_splitter" );
static_assert( std::is_same< ci::feldman_hashset::multilevel_array< item<short>, traits_default<short> >::hash_splitter,
                             cds::algo::number_splitter<short> >::value, "short -> number_splitter" );
static_assert( std::is_same< ci::feldman_hashset::multilevel_array< item< bytes<8> >, traits_default< bytes<8> > >::hash_splitter,
                             cds::algo::split_bitstring< bytes<8>, 8, unsigned > >::value, "8-byte struct -> split_bitstring<.,8,unsigned>" );
static_assert( std::is_same< ci::feldman_hashset::multilevel_array< item< bytes<1> >, traits_default< bytes<1> > >::hash_splitter,
                             cds::algo::split_bitstring< bytes<1>, 1, unsigned > >::value, "1-byte struct -> split_bitstring<.,1,unsigned>" );
static_assert( std::is_same< ci::feldman_hashset::multilevel_array< item< bytes<4> >, traits_bs<4> >::hash_splitter,
                             cds::algo::byte_splitter< bytes<4>, 4, unsigned > >::value, "traits::hash_splitter is used" );

int main( int argc, char ** argv )
{
    if ( argc < 3 ) { std::fprintf( stderr, "usage: main IN OUT\n" ); return 2; }
    std::ifstream in( argv[1] );
    g_out = std::fopen( argv[2], "w" );
    if ( !in || !g_out ) { std::fprintf( stderr, "cannot open files\n" ); return 2; }
    {   // no runaway allocation when the code under test loops
        struct rlimit rl; rl.rlim_cur = rl.rlim_max = (rlim_t) 3 << 30;
        setrlimit( RLIMIT_AS, &rl );
    }
    cds::Initialize();
    {
        cds::gc::hp::GarbageCollector::Construct( 16, 1, 64 );
        cds::threading::Manager::attachThread();
        std::string line;
        while ( std::getline( in, line )) {
            std::istringstream ss( line );
            std::vector<std::string> tok; std::string t;
            while ( ss >> t ) { if ( t == "->" ) break; tok.push_back( t ); }
            if ( tok.empty()) continue;
            std::string head;
            for ( size_t i = 0; i < tok.size(); ++i ) { if ( i ) head += " "; head += tok[i]; }
            std::fprintf( g_out, "%s -> ", head.c_str());
            std::fflush( g_out );
            alarm( 20 );                    // a case that does not finish is a failing input (SIGALRM ends the process)
            std::string r = run_line( tok );
            alarm( 0 );
            std::fprintf( g_out, "%s\n", r.c_str());
            std::fflush( g_out );
        }
        cds::threading::Manager::detachThread();
        cds::gc::hp::GarbageCollector::Destruct( true );
    }
    cds::Terminate();
    std::fclose( g_out );
    return 0;
}
