#!/bin/sh
# tools/seed_prep.sh <name>: creates a scratch worktree of /repo HEAD for a seeding sub-agent under /tmp/seed-<name>/repo
set -e
N="$1"
rm -rf /tmp/seed-$N
mkdir -p /tmp/seed-$N/out
git -C /repo worktree prune
git -C /repo worktree add --detach -q /tmp/seed-$N/repo HEAD
echo /tmp/seed-$N/repo
