#!/usr/bin/env python3
"""Regenerate coq/Gen/Gen_<unit>.v (+ .meta.json) for all units of units.json, or for the units named on the
command line (required units are regenerated first).  Exit status 0 iff every requested unit was translated.
Environment: VERIF_REPO = root of the libcds checkout to translate (default /repo)."""
import os, sys, tempfile
sys.path.insert(0, os.path.dirname(os.path.abspath(__file__)))
import cxx2v


external = set()      # required units that live in another unit list and are already generated


def closure(units, names):
    by = {u["name"]: u for u in units}
    out = []

    def add(n):
        if n not in by:
            # a unit of another unit list: acceptable as a requirement when it has already been generated
            if os.path.exists(os.path.join(cxx2v.GEN, "Gen_%s.meta.json" % n)):
                external.add(n)
                return
            raise SystemExit("gen_all: unknown unit '%s' (not in this unit list and coq/Gen/Gen_%s.meta.json does not exist)" % (n, n))
        for r in by[n].get("requires", []):
            add(r)
        if n not in out:
            out.append(n)
    for n in names:
        add(n)
    return [by[n] for n in out]


def main(argv):
    units = cxx2v.load_units()
    todo = closure(units, argv[1:] or [u["name"] for u in units])
    rc = 0
    failed, done = set(), set(external)
    import concurrent.futures
    with tempfile.TemporaryDirectory(prefix="cxx2v_") as wd:
        pending = list(todo)
        while pending:
            # a wave = the units whose requirements are all done (or failed); waves run in parallel processes
            wave = [u for u in pending if all(r in done or r in failed for r in u.get("requires", []))]
            if not wave:
                raise SystemExit("gen_all: cyclic `requires`")
            pending = [u for u in pending if u not in wave]
            run = []
            for u in wave:
                if any(r in failed for r in u.get("requires", [])):
                    print("cxx2v: unit %s SKIPPED: a required unit failed" % u["name"])
                    failed.add(u["name"])
                    rc = 1
                else:
                    run.append(u)
            with concurrent.futures.ProcessPoolExecutor(max_workers=max(1, min(8, len(run)))) as ex:
                for u, (ok, msg) in zip(run, ex.map(_one, [(u, wd) for u in run])):
                    print(msg)
                    (done if ok else failed).add(u["name"])
                    if not ok:
                        rc = 1
    return rc


def _one(arg):
    u, wd = arg
    try:
        r = cxx2v.generate(u, wd)
        return True, "cxx2v: unit %-14s ok  (%d functions -> coq/Gen/Gen_%s.v)" % (u["name"], len(r.order), u["name"])
    except cxx2v.Unsupported as ex:
        return False, "cxx2v: unit %s FAILED: %s" % (u["name"], ex)


if __name__ == "__main__":
    sys.exit(main(sys.argv))
