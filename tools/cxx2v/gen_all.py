#!/usr/bin/env python3
"""Regenerate coq/Gen/Gen_<unit>.v (+ .meta.json) for all units of units.json, or for the units named on the
command line (required units are regenerated first).  Exit status 0 iff every requested unit was translated.
Environment: VERIF_REPO = root of the libcds checkout to translate (default /repo)."""
import os, sys, tempfile
sys.path.insert(0, os.path.dirname(os.path.abspath(__file__)))
import cxx2v


def closure(units, names):
    by = {u["name"]: u for u in units}
    out = []

    def add(n):
        if n not in by:
            raise SystemExit("gen_all: unknown unit '%s'" % n)
        for r in by[n].get("requires", []):
            add(r)
        if n not in out:
            out.append(n)
    for n in names:
        add(n)
    return [by[n] for n in out]


def main(argv):
    units = cxx2v.load_units()
    todo = closure(units, argv[1:] or [u["name"] for u in units])
    rc = 0
    failed = set()
    with tempfile.TemporaryDirectory(prefix="cxx2v_") as wd:
        for u in todo:
            if any(r in failed for r in u.get("requires", [])):
                print("cxx2v: unit %s SKIPPED: a required unit failed" % u["name"])
                failed.add(u["name"])
                rc = 1
                continue
            try:
                r = cxx2v.generate(u, wd)
                print("cxx2v: unit %-14s ok  (%d functions -> coq/Gen/Gen_%s.v)" % (u["name"], len(r.order), u["name"]))
            except cxx2v.Unsupported as ex:
                print("cxx2v: unit %s FAILED: %s" % (u["name"], ex))
                failed.add(u["name"])
                rc = 1
    return rc


if __name__ == "__main__":
    sys.exit(main(sys.argv))
