#!/usr/bin/env python3
"""cxx2v -- translate a small, explicitly listed set of C++ functions into Gallina (Coq) over LV.Base.CInt.

Usage:  cxx2v.py <unit-name> [...]      (units are described in units.json next to this file)
        see README.md for the interface, the supported subset and the representation of UB.

Besides integer functions and methods over records of integer fields it translates functions that return such a
record by value (local struct variable, member assignments, `return m;`), user-written constructors as functions
from the constructor arguments to the record ("ctor"), and a `T const&` parameter that stands for the byte memory
("memobj"); records may be imported from a required unit ("import_records").

The translator NEVER guesses: any AST node, type or cast kind that is not in the supported subset raises
Unsupported, which aborts the unit with a message naming the construct and its source location (exit 1).
"""
import hashlib, json, os, re, subprocess, sys, tempfile

HERE = os.path.dirname(os.path.abspath(__file__))
VERIF = os.path.dirname(os.path.dirname(HERE))
REPO = os.environ.get("VERIF_REPO", "/repo")
GEN = os.path.join(VERIF, "coq", "Gen")


class Unsupported(Exception):
    pass


# --------------------------------------------------------------------------------------------------
# C types for the target (g++ amd64 Linux, LP64)

INT_TYPES = {
    "char": (8, True), "signed char": (8, True), "unsigned char": (8, False),
    "short": (16, True), "unsigned short": (16, False),
    "int": (32, True), "unsigned int": (32, False), "unsigned": (32, False),
    "long": (64, True), "unsigned long": (64, False),
    "long long": (64, True), "unsigned long long": (64, False),
}


class Ty:
    """kind: 'int' (bits, signed) | 'bool' | 'ptr' (elem Ty) | 'void' | 'rec' (name) | 'other' (text)"""

    def __init__(self, kind, bits=0, signed=False, elem=None, text=""):
        self.kind, self.bits, self.signed, self.elem, self.text = kind, bits, signed, elem, text

    def is_int(self):
        return self.kind == "int"

    def coq(self):
        assert self.kind == "int", self.text
        return ("i" if self.signed else "u") + str(self.bits)

    def rng(self):
        if self.kind == "bool":
            return (0, 1)
        if self.signed:
            return (-(1 << (self.bits - 1)), (1 << (self.bits - 1)) - 1)
        return (0, (1 << self.bits) - 1)

    def same(self, o):
        return (self.kind, self.bits, self.signed) == (o.kind, o.bits, o.signed) and \
               (self.kind != "ptr" or self.elem.same(o.elem)) and (self.kind not in ("rec", "other") or self.text == o.text)

    def __repr__(self):
        return "Ty(%s)" % self.text


def strip_cv(s):
    s = re.sub(r"\b(const|volatile)\b", " ", s)
    return re.sub(r"\s+", " ", s).strip()


# --------------------------------------------------------------------------------------------------
# AST loading and indexing

def run_clang(unit, workdir):
    lines = []
    for d in unit.get("defines", []):
        lines.append("#define %s" % d.replace("=", " ", 1))
    lines += unit.get("prelude", [])
    for inc in unit["includes"]:
        lines.append("#include <%s>" % inc)
    lines += unit.get("tu", [])
    tu = os.path.join(workdir, "tu_%s.cpp" % unit["name"])
    with open(tu, "w") as f:
        f.write("\n".join(lines) + "\n")
    cmd = ["clang++", "-std=c++11", "-I" + REPO, "-fsyntax-only", "-Xclang", "-ast-dump=json", tu]
    p = subprocess.run(cmd, stdout=subprocess.PIPE, stderr=subprocess.PIPE, timeout=300)
    if p.returncode != 0:
        raise Unsupported("clang failed on the translation unit of '%s':\n%s\n--- TU ---\n%s" %
                          (unit["name"], p.stderr.decode(errors="replace")[-3000:], "\n".join(lines)))
    return json.loads(p.stdout), "\n".join(lines)


class Index:
    """Document-order walk: restores the elided 'file'/'line' of locations, indexes decls by id, computes
    qualified names of functions and records."""

    def __init__(self, root):
        self.by_id = {}
        self.funcs = []          # (qualname, sig, node, record_node or None)
        self.typedefs = {}
        self.records = {}        # qualname -> node
        self.rec_of_method = {}
        self._file = None
        self._line = None
        self.ctx_path = {}       # decl-context id -> qualified path (list)
        self._walk_decl(root, [], None, False)

    def _fix_loc(self, loc):
        if not isinstance(loc, dict):
            return
        for sub in ("spellingLoc", "expansionLoc"):
            if sub in loc:
                self._fix_loc(loc[sub])
        if "offset" in loc:
            if "file" in loc:
                self._file = loc["file"]
            else:
                loc["file"] = self._file
            if "line" in loc:
                self._line = loc["line"]
            else:
                loc["line"] = self._line

    def _touch(self, n):
        # same order as clang prints: loc, range.begin, range.end
        if "loc" in n:
            self._fix_loc(n["loc"])
        r = n.get("range")
        if r:
            self._fix_loc(r.get("begin"))
            self._fix_loc(r.get("end"))

    def _walk_any(self, n):
        stack = [n]
        while stack:
            x = stack.pop()
            self._touch(x)
            if "id" in x and x.get("kind", "").endswith("Decl"):
                self.by_id[x["id"]] = x
            inner = x.get("inner")
            if inner:
                stack.extend(reversed(inner))

    @staticmethod
    def targs(n):
        out = []
        for c in n.get("inner", []):
            if c.get("kind") == "TemplateArgument":
                if "type" in c:
                    out.append(c["type"]["qualType"])
                elif "value" in c:
                    out.append(str(c["value"]))
                else:
                    out.append("?")
        return out

    def _walk_decl(self, n, path, rec, skip):
        k = n.get("kind", "")
        self._touch(n)
        if "id" in n:
            self.by_id[n["id"]] = n
        nm = n.get("name", "")
        if "parentDeclContextId" in n and n["parentDeclContextId"] in self.ctx_path:
            path = self.ctx_path[n["parentDeclContextId"]]      # out-of-line / explicit instantiation
        if k in ("TypedefDecl", "TypeAliasDecl") and "type" in n and not skip:
            self.typedefs["::".join(path + [nm])] = n["type"].get("desugaredQualType", n["type"]["qualType"])
        if k in ("TranslationUnitDecl", "LinkageSpecDecl"):
            for c in n.get("inner", []):
                self._walk_decl(c, path, rec, skip)
        elif k == "NamespaceDecl":
            self.ctx_path[n.get("id")] = path + [nm] if nm else path
            for c in n.get("inner", []):
                self._walk_decl(c, path + [nm] if nm else path, rec, skip)
        elif k in ("ClassTemplateDecl", "FunctionTemplateDecl"):
            for c in n.get("inner", []):
                ck = c.get("kind")
                if ck == "CXXRecordDecl":
                    self._walk_decl(c, path, rec, True)          # the uninstantiated pattern
                elif ck in ("FunctionDecl", "CXXMethodDecl") and not self.targs(c):
                    self._walk_decl(c, path, rec, True)
                else:
                    self._walk_decl(c, path, rec, skip)
        elif k in ("CXXRecordDecl", "ClassTemplateSpecializationDecl", "ClassTemplatePartialSpecializationDecl"):
            q = nm
            if k == "ClassTemplateSpecializationDecl":
                q = nm + "<" + ", ".join(self.targs(n)) + ">"
            sk = skip or k == "ClassTemplatePartialSpecializationDecl"
            p2 = path + [q] if nm else path
            self.ctx_path[n.get("id")] = p2
            if not sk and nm and n.get("completeDefinition"):
                self.records["::".join(p2)] = n
            for c in n.get("inner", []):
                self._walk_decl(c, p2, n, sk)
        elif k in ("FunctionDecl", "CXXMethodDecl", "CXXConstructorDecl", "CXXDestructorDecl", "CXXConversionDecl"):
            has_body = any(c.get("kind") == "CompoundStmt" for c in n.get("inner", []))
            ta = self.targs(n)
            q = "::".join(path + [nm + ("<" + ", ".join(ta) + ">" if ta else "")])
            n["_qual"] = q
            n["_skip"] = skip
            if k in ("CXXMethodDecl", "CXXConstructorDecl"):
                self.rec_of_method[n["id"]] = rec
            if has_body and not skip and k in ("FunctionDecl", "CXXMethodDecl"):
                self.funcs.append((q, n["type"]["qualType"], n, rec if k == "CXXMethodDecl" else None))
            elif has_body and not skip and k == "CXXConstructorDecl" and not n.get("isImplicit"):
                # a user-written constructor can be listed like a function ("constructor as function"): it is
                # translated to a function from its parameters to the record of the class
                self.funcs.append((q, n["type"]["qualType"], n, rec))
            self._walk_any_children(n)
        else:
            self._walk_any_children(n)

    def _walk_any_children(self, n):
        for c in n.get("inner", []):
            self._walk_any(c)


# --------------------------------------------------------------------------------------------------
# Code emission helpers

RESERVED = set("""as at cofix else end exists exists2 fix for forall fun if IF in let match mod Prop return Set
then Type using where with do by Some None true false tt fst snd pair nat Z list bool option unit
cast wrap load mem fuel ptr_add obind checked uadd usub umul uneg sadd ssub smul sneg c_and c_or c_xor c_not
c_lt c_le c_gt c_ge c_eq c_ne c_div c_rem c_shl c_shr c_index to_bool of_bool negb andb orb
u8 u16 u32 u64 i8 i16 i32 i64 ity ibits isigned imin imax in_range in_rangeb shift_ok this length""".split())


class Block:
    """A piece of monadic code: a list of text lines (already indented relative to the block)."""

    def __init__(self):
        self.lines = []

    def add(self, s):
        self.lines.append(s)

    def extend(self, lines, ind=0):
        for l in lines:
            self.lines.append(" " * ind + l)


def paren(s):
    s = s.strip()
    if re.match(r"^[A-Za-z0-9_.']+$", s) or re.match(r"^-?\d+$", s) and not s.startswith("-"):
        return s
    if s.startswith("(") and s.endswith(")"):
        # balanced outer parens?
        d = 0
        for i, ch in enumerate(s):
            d += ch == "("
            d -= ch == ")"
            if d == 0 and i < len(s) - 1:
                break
        else:
            return s
    return "(" + s + ")"


def lit(v):
    if v < 0:
        return "(%d)" % v
    if v >= 256:
        return "0x%x" % v
    return str(v)


# --------------------------------------------------------------------------------------------------
# Function translation

class FnInfo:
    def __init__(self):
        self.coq = None          # Coq identifier
        self.module = None       # Gen module (None = this unit)
        self.qual = self.sig = None
        self.node = None
        self.rec = None          # RecInfo for methods with a 'this' record
        self.is_static = True
        self.mutates = False     # non-const method: returns this'
        self.params = []         # [(coqname, Ty, mode)]  mode: 'val' | 'inout'
        self.ret = None          # Ty
        self.needs_mem = False
        self.needs_fuel = False
        self.sha = None
        self.src = None
        self.text = None         # emitted Coq text
        self.done = False
        self.in_progress = False
        self.is_ctor = False     # a constructor translated as a function: parameters -> record of the class
        self.ret_rec = None      # RecInfo of the returned record when the function returns a struct by value
        self.memobj = None       # (parameter name, size in bytes) of the object the byte memory `mem` stands for

    def result_components(self):
        comps = []
        if self.ret.kind != "void":
            comps.append("ret")
        if self.mutates:
            comps.append("this")
        for (nm, ty, mode) in self.params:
            if mode == "inout":
                comps.append("inout:" + nm)
        return comps

    def meta(self):
        m = {"coq": self.coq, "cxx": self.qual, "sig": self.sig, "sha256": self.sha,
             "params": [{"name": n, "type": t.text, "mode": m} for (n, t, m) in self.params],
             "ret": self.ret.text, "ret_kind": self.ret.kind, "record": self.rec.coq if self.rec else None,
             "mutates_this": self.mutates, "needs_mem": self.needs_mem, "needs_fuel": self.needs_fuel,
             "result": self.result_components(), "source": self.src}
        # the keys below exist only for the function shapes that need them (older units keep their exact meta)
        if self.is_ctor:
            m["ctor"] = True
        if self.ret_rec is not None:
            m["ret_record"] = self.ret_rec.coq
        if self.memobj is not None:
            m["memobj"] = {"param": self.memobj[0], "size": self.memobj[1]}
        return m


class RecInfo:
    def __init__(self, coq, qual, node, unit=None):
        self.coq, self.qual, self.node = coq, qual, node
        self.unit = unit         # None: the Record is defined by this unit; else the required unit that defines it
        self.fields = []         # [(name, Ty, declid)]
        self.has_ptr = False
        self.atomic = set()      # decl ids of atomic<integral> members (modelled as plain fields)

    def _q(self, s):
        return "Gen_%s.%s" % (self.unit, s) if self.unit else s

    def tyname(self):
        return self._q(self.coq)

    def ctor(self):
        return self._q("mk_" + self.coq)

    def proj(self, f):
        return self._q("%s_%s" % (self.coq, f))


class Unit:
    def __init__(self, spec, registry):
        self.spec = spec
        self.name = spec["name"]
        self.registry = registry         # (cxx, sig) -> meta dict of functions of other (already generated) units
        self.requires = spec.get("requires", [])
        self.fns = {}                    # decl id -> FnInfo
        self.order = []                  # emission order
        self.recs = {}                   # record qualname -> RecInfo
        self.tables = []                 # emitted table definitions
        self.used_modules = set()

    # ---- types -------------------------------------------------------------------------------

    def resolve_name(self, s):
        s = strip_cv(s)
        seen = 0
        while s not in INT_TYPES and s != "bool" and s in self.idx.typedefs and seen < 10:
            s = strip_cv(self.idx.typedefs[s])
            seen += 1
        return s

    def ty_of_str(self, q, desugared=None):
        s = strip_cv(desugared if desugared else q)
        if s.endswith("&"):
            t = self.ty_of_str(s[:-1])
            return Ty("ref", elem=t, text=s)
        if s.endswith("*"):
            t = self.ty_of_str(s[:-1])
            return Ty("ptr", elem=t, text=s)
        s = self.resolve_name(s)
        if s in INT_TYPES:
            b, sg = INT_TYPES[s]
            return Ty("int", b, sg, text=s)
        if s == "bool":
            return Ty("bool", text=s)
        if s == "void":
            return Ty("void", text=s)
        if s in self.recs_by_type:
            return Ty("rec", text=s)
        return Ty("other", text=s)

    def ty(self, n):
        t = n.get("type")
        if t is None:
            raise Unsupported("node %s has no type%s" % (n.get("kind"), self.where(n)))
        return self.ty_of_str(t["qualType"], t.get("desugaredQualType"))

    def where(self, n):
        r = n.get("range", {}).get("begin", {})
        if "expansionLoc" in r:
            r = r["expansionLoc"]
        f = r.get("file")
        return " at %s:%s" % (f, r.get("line")) if f else ""

    # ---- selection ---------------------------------------------------------------------------

    def load(self, workdir):
        ast, tu_text = run_clang(self.spec, workdir)
        self.tu_text = tu_text
        self.idx = Index(ast)
        self.recs_by_type = {}
        for q, coq in self.spec.get("records", {}).items():
            node = self.idx.records.get(q)
            if node is None:
                cands = [k for k in self.idx.records if k.split("<")[0] == q.split("<")[0]]
                raise Unsupported("record '%s' not found in the AST (candidates: %s)" % (q, cands[:8]))
            self.recs[q] = RecInfo(coq, q, node)
            self.recs_by_type[q] = self.recs[q]
        # records defined by a required unit: {"<unit>": {"<class>": "<Coq record of that unit>"}}.  The class of this
        # TU must have exactly the fields (names, types, order) the required unit recorded for its record; several
        # classes may share one record (instantiations that differ only in constants).
        for ru, classes in self.spec.get("import_records", {}).items():
            if ru not in self.requires:
                raise Unsupported("import_records: unit '%s' is not listed under \"requires\"" % ru)
            rmeta = json.load(open(os.path.join(GEN, "Gen_%s.meta.json" % ru)))
            for q, coq in classes.items():
                node = self.idx.records.get(q)
                if node is None:
                    cands = [k for k in self.idx.records if k.split("<")[0] == q.split("<")[0]]
                    raise Unsupported("record '%s' not found in the AST (candidates: %s)" % (q, cands[:8]))
                if coq not in rmeta.get("records", {}):
                    raise Unsupported("import_records: unit '%s' has no record '%s'" % (ru, coq))
                if q in self.recs:
                    raise Unsupported("record '%s' is listed twice" % q)
                self.recs[q] = RecInfo(coq, q, node, unit=ru)
                self.recs[q].expect = [(f["name"], f["type"]) for f in rmeta["records"][coq]["fields"]]
                self.recs_by_type[q] = self.recs[q]
                self.used_modules.add(ru)
        local_names = [ri.coq for ri in self.recs.values() if ri.unit is None]
        imported = set((ri.unit, ri.coq) for ri in self.recs.values() if ri.unit is not None)
        if len(set(local_names)) != len(local_names) or len(set(c for _, c in imported)) != len(imported) or \
                set(local_names) & set(c for _, c in imported):
            raise Unsupported("two records of unit '%s' share a Coq name" % self.name)
        for ri in self.recs.values():
            for c in ri.node.get("inner", []):
                if c.get("kind") == "FieldDecl":
                    t = self.ty(c)
                    raw = strip_cv(c["type"].get("desugaredQualType", c["type"]["qualType"]))
                    am = re.match(r"^(?:std::)?(?:__\d+::)?atomic<(.+)>$", raw)
                    if am and self.ty_of_str(am.group(1)).kind in ("int", "bool"):
                        # atomic<integral> member: read/written as a plain field (single-threaded arithmetic only)
                        ri.fields.append((c["name"], self.ty_of_str(am.group(1)), c["id"]))
                        ri.atomic.add(c["id"])
                    elif t.kind == "int" or t.kind == "bool":
                        ri.fields.append((c["name"], t, c["id"]))
                    elif t.kind == "ptr" and t.elem.kind == "int" and t.elem.bits == 8:
                        ri.fields.append((c["name"], t, c["id"]))
                        ri.has_ptr = True
                    else:
                        ri.fields.append((c["name"], None, c["id"]))   # unsupported field: any access fails
            if ri.unit is not None:
                have = [(f, t.text) for (f, t, _) in ri.fields if t is not None]
                if have != ri.expect:
                    raise Unsupported("import_records: class '%s' has fields %s but record %s of unit '%s' has %s"
                                      % (ri.qual, have, ri.coq, ri.unit, ri.expect))
        for f in self.spec["functions"]:
            cands = [(q, s, n, r) for (q, s, n, r) in self.idx.funcs if q == f["cxx"] and ("sig" not in f or s == f["sig"])]
            if len(cands) != 1:
                near = sorted(set("%s  ::  %s" % (q, s) for (q, s, n, r) in self.idx.funcs
                                  if q.split("<")[0].split("::")[-1] == f["cxx"].split("<")[0].split("::")[-1]))
                raise Unsupported("function '%s'%s matches %d definitions in the AST; definitions with that base name:\n  %s"
                                  % (f["cxx"], " sig '%s'" % f["sig"] if "sig" in f else "", len(cands), "\n  ".join(near[:40])))
            q, s, n, r = cands[0]
            fi = FnInfo()
            fi.coq, fi.qual, fi.sig, fi.node = f["coq"], q, s, n
            fi.spec = f
            fi.recnode = r
            self.fns[n["id"]] = fi
        for fi in list(self.fns.values()):
            self.translate(fi)

    # ---- source text -------------------------------------------------------------------------

    def source_of(self, n):
        r = n["range"]
        b, e = r["begin"], r["end"]
        if "expansionLoc" in b:
            b = b["expansionLoc"]
        if "expansionLoc" in e:
            e = e["expansionLoc"]
        f = b.get("file")
        if not f or not os.path.exists(f):
            raise Unsupported("cannot locate the source file of %s" % n.get("_qual"))
        data = open(f, "rb").read()
        txt = data[b["offset"]: e["offset"] + e.get("tokLen", 1)]
        return f, b.get("line"), txt

    # ---- translate one function --------------------------------------------------------------

    def translate(self, fi):
        if fi.done:
            return
        if fi.in_progress:
            raise Unsupported("recursive call cycle through %s" % fi.qual)
        fi.in_progress = True
        FnTranslator(self, fi).run()
        fi.in_progress = False
        fi.done = True
        self.order.append(fi)

    def callee(self, declid, at):
        """FnInfo-like description of a called function: translated in this unit, or in a required unit."""
        if declid in self.fns:
            fi = self.fns[declid]
            self.translate(fi)
            return fi.meta(), fi.coq
        n = self.idx.by_id.get(declid)
        if n is None:
            raise Unsupported("call to an unknown declaration%s" % self.where(at))
        # the referenced decl can be a redeclaration: find a listed function with same qual/sig
        q, s = n.get("_qual"), n.get("type", {}).get("qualType")
        for fi in self.fns.values():
            if fi.qual == q and fi.sig == s:
                self.translate(fi)
                return fi.meta(), fi.coq
        cands = [c for c in self.registry.get((q, s), []) if c["unit"] in self.requires]
        m = cands[0] if cands else None
        if m:
            # same source text?
            body = [f for (fq, fs, f, r) in self.idx.funcs if fq == q and fs == s]
            if body:
                _, _, txt = self.source_of(body[0])
                if hashlib.sha256(txt).hexdigest() != m["sha256"]:
                    raise Unsupported("callee %s has a different source text in this TU than in unit %s" % (q, m["unit"]))
            self.used_modules.add(m["unit"])
            return m, "Gen_%s.%s" % (m["unit"], m["coq"])
        raise Unsupported("call to '%s' with signature '%s'%s: the callee is not listed in this unit nor in a required unit "
                          "(add it to units.json)" % (q, s, self.where(at)))

    # ---- output ------------------------------------------------------------------------------

    def emit(self):
        out = []
        out.append("(* GENERATED by tools/cxx2v/cxx2v.py -- do not edit.  Unit '%s'." % self.name)
        out.append("   Translation unit (clang++ -std=c++11 -I$VERIF_REPO -fsyntax-only -Xclang -ast-dump=json):")
        for l in self.tu_text.split("\n"):
            out.append("     " + l)
        out.append("   Functions:")
        for fi in self.order:
            out.append("     %-28s <- %s  ::  %s" % (fi.coq, fi.qual, fi.sig))
            out.append("     %-28s    %s  sha256 %s" % ("", fi.src, fi.sha))
        out.append("*)")
        out.append("Require Import ZArith List Bool.")
        out.append("Require Import LV.Base.CInt.")
        for m in sorted(self.used_modules):
            out.append("Require LV.Gen.Gen_%s." % m)
        out.append("Import ListNotations.")
        out.append("Local Open Scope Z_scope.")
        out.append("Local Open Scope cint_scope.")
        out.append("")
        for ri in self.recs.values():
            if ri.unit is not None:
                continue                  # defined by the required unit
            fs = [(f, t) for (f, t, _) in ri.fields if t is not None]
            out.append("(* %s%s *)" % (ri.qual, "   (pointer fields are indices into the byte list `mem`)" if ri.has_ptr else ""))
            out.append("Record %s := %s { %s }." % (ri.coq, ri.ctor(), "; ".join(
                "%s : %s" % (ri.proj(f), "bool" if t.kind == "bool" else "Z") for (f, t) in fs)))
            out.append("")
        for fi in self.order:
            out.append(fi.text)
            out.append("")
        return "\n".join(out)

    def meta(self):
        recs = {}
        for ri in self.recs.values():
            if ri.unit is None:
                recs[ri.coq] = {"cxx": ri.qual, "fields": [{"name": f, "type": t.text} for (f, t, _) in ri.fields if t is not None]}
            else:
                # a record of a required unit (possibly shared by several classes of this TU)
                r = recs.setdefault(ri.coq, {"cxx": [], "unit": ri.unit,
                                             "fields": [{"name": f, "type": t.text} for (f, t, _) in ri.fields if t is not None]})
                r["cxx"].append(ri.qual)
        return {"unit": self.name, "functions": [dict(fi.meta(), unit=self.name) for fi in self.order], "records": recs}


class Var:
    def __init__(self, name, ty, kind):
        self.name, self.ty, self.kind = name, ty, kind     # kind: 'local' | 'param' | 'field' | 'cell' (inout pointee)
        self.init = False


class FnTranslator:
    def __init__(self, unit, fi):
        self.u, self.fi = unit, fi
        self.vars = {}           # decl id -> Var
        self.names = set()
        self.scope = []          # decl ids in scope (ordered)
        self.tmp = 0
        self.loops = []          # emitted Fixpoint texts
        self.tables = []
        self.pre = None          # current list of pre-bindings for the expression being compiled
        self.effects = 0
        self.reads = set()
        self.loop_ctx = []       # stack of (k_break, k_continue)
        self.nloop = 0
        self.recvars = {}        # decl id of a local struct variable -> (RecInfo, {field decl id -> key in self.vars})
        self.guard = []

    # ---- names -------------------------------------------------------------------------------

    def fresh(self, base):
        b = base
        if b in RESERVED or re.match(r"^t\d+$", b) or b.startswith("_"):
            b = b + "_"
        n, i = b, 1
        while n in self.names or n in RESERVED:
            i += 1
            n = "%s%d" % (b, i)
        self.names.add(n)
        return n

    def temp(self):
        self.tmp += 1
        return "t%d" % self.tmp

    def declare(self, declid, cname, ty, kind, init):
        v = Var(self.fresh(cname), ty, kind)
        v.init = init
        self.vars[declid] = v
        self.scope.append(declid)
        return v

    def bad(self, n, what):
        raise Unsupported("%s: %s (%s)%s" % (self.fi.qual, what, n.get("kind"), self.u.where(n)))

    # ---- entry -------------------------------------------------------------------------------

    def run(self):
        fi, u, n = self.fi, self.u, self.fi.node
        f, line, txt = u.source_of(n)
        fi.sha = hashlib.sha256(txt).hexdigest()
        fi.src = "%s:%s" % (os.path.relpath(f, REPO) if f.startswith(REPO) else f, line)
        ftype = n["type"]["qualType"]
        is_ctor = n["kind"] == "CXXConstructorDecl"
        is_method = n["kind"] == "CXXMethodDecl" or is_ctor
        fi.is_static = (not is_method) or n.get("storageClass") == "static"
        fi.is_ctor = is_ctor
        if is_ctor:
            # constructor as function: no `this` argument; the fields start uninitialised, the member-initialiser
            # list assigns them in declaration order, the body runs, the result is the record
            rq = None
            for q, ri in u.recs.items():
                if ri.node is fi.recnode:
                    rq = ri
            if rq is None:
                raise Unsupported("%s is a constructor; give its class a Coq name under \"records\" (or \"import_records\") "
                                  "in the unit list" % fi.qual)
            if any(b.get("kind") == "CXXBaseSpecifier" for b in fi.recnode.get("inner", [])) or fi.recnode.get("bases"):
                raise Unsupported("%s: constructor of a class with base classes" % fi.qual)
            fi.rec = rq
            fi.mutates = True
            for (fname, t, did) in rq.fields:
                if t is not None:
                    self.declare(did, fname, t, "field", False)
            if rq.has_ptr:
                fi.needs_mem = True
        elif is_method and not fi.is_static:
            rq = None
            for q, ri in u.recs.items():
                if ri.node is fi.recnode:
                    rq = ri
            if rq is None:
                # a method of a class without (supported) state: allowed only if it never touches `this` fields
                fields = [c for c in fi.recnode.get("inner", []) if c.get("kind") == "FieldDecl"]
                if fields:
                    raise Unsupported("%s is a method of a class with data members; give the class a Coq name under "
                                      "\"records\" in units.json" % fi.qual)
            fi.rec = rq
            fi.mutates = rq is not None and not re.search(r"\)\s*const\b", ftype)
            if rq is not None:
                for (fname, t, did) in rq.fields:
                    if t is not None:
                        v = self.declare(did, fname, t, "field", True)
                if rq.has_ptr:
                    fi.needs_mem = True
        inout = set(fi.spec.get("inout", []))
        memobj = set(fi.spec.get("memobj", []))
        body = None
        rett = None
        inits = []
        self.guard = []
        for c in n.get("inner", []):
            if c.get("kind") == "CXXCtorInitializer":
                inits.append(c)
            if c.get("kind") == "ParmVarDecl":
                t = u.ty(c)
                nm = c.get("name")
                if nm is None:
                    nm = "_unused%d" % len(fi.params)
                if nm in memobj:
                    # `T const& h` where the object h IS the byte memory `mem` of the generated code: the only
                    # supported use is reinterpret_cast<uint8_t const*>( &h ), the pointer to byte 0.  The function
                    # is defined only when `mem` has exactly sizeof(T) bytes.
                    if fi.memobj is not None:
                        self.bad(c, "two \"memobj\" parameters (there is one byte memory)")
                    if t.kind != "ref":
                        self.bad(c, "\"memobj\" parameter '%s' is not a reference" % nm)
                    size = self.object_size(c, t.elem.text)
                    v = Var(nm, t, "memobj")
                    v.init = True
                    v.size = size
                    self.vars[c["id"]] = v
                    fi.memobj = (nm, size)
                    fi.needs_mem = True
                    self.guard = ["_ <- (if Z.of_nat (length mem) =? %d then Some tt else None) ;;   "
                                  "(* mem is the object `%s`, sizeof = %d *)" % (size, nm, size)]
                elif t.kind in ("int", "bool"):
                    v = self.declare(c["id"], nm, t, "param", True)
                    fi.params.append((v.name, t, "val"))
                elif t.kind in ("ptr", "ref") and t.elem.kind in ("int", "bool") and (t.kind == "ref" or nm in inout):
                    v = self.declare(c["id"], nm, t.elem, "cell", True)
                    v.ptrkind = t.kind
                    fi.params.append((v.name, t.elem, "inout"))
                elif t.kind == "ptr" and t.elem.kind == "int" and t.elem.bits == 8:
                    v = self.declare(c["id"], nm, t, "param", True)
                    fi.params.append((v.name, t, "val"))
                    fi.needs_mem = True
                else:
                    self.bad(c, "parameter '%s' of unsupported type '%s' (pointer parameters that are only dereferenced "
                                "must be listed under \"inout\")" % (nm, t.text))
            elif c.get("kind") == "CompoundStmt":
                body = c
        m = re.match(r"^(.*?)\s*\(", ftype)
        # return type: take it from the desugared function type when available
        unknown = (memobj | inout) - set(c.get("name") for c in n.get("inner", []) if c.get("kind") == "ParmVarDecl")
        if unknown:
            self.bad(n, "\"inout\"/\"memobj\" names %s are not parameters" % sorted(unknown))
        fi.ret = Ty("void", text="void") if is_ctor else self.ret_type(n)
        if fi.ret.kind == "rec":
            # a struct returned by value: a named record all of whose members are integers / bools / byte pointers
            fi.ret_rec = u.recs_by_type[fi.ret.text]
            for (fname, t, did) in fi.ret_rec.fields:
                if t is None:
                    self.bad(n, "returns '%s' by value, whose member '%s' has an unsupported type" % (fi.ret.text, fname))
            if fi.ret_rec.has_ptr:
                fi.needs_mem = True
        elif fi.ret.kind not in ("int", "bool", "void"):
            self.bad(n, "unsupported return type '%s'" % fi.ret.text)
        self.rty = self.result_type()
        pre_body = self.ctor_inits(inits) if is_ctor else []
        if inits and not is_ctor:
            self.bad(n, "member initialisers outside a constructor")
        code = pre_body + self.stmts(body["inner"] if "inner" in body else [], self.k_fall_off)
        code = self.guard + code
        # assemble
        hdr_params = []
        if fi.needs_fuel:
            hdr_params.append("(fuel : nat)")
        if fi.needs_mem:
            hdr_params.append("(mem : list Z)")
        if fi.rec is not None and not is_ctor:
            hdr_params.append("(this : %s)" % fi.rec.tyname())
        for (nm, t, mode) in fi.params:
            hdr_params.append("(%s : %s)" % (nm, "bool" if t.kind == "bool" else "Z"))
        rty = self.rty
        out = []
        out.append("(* %s  ::  %s" % (fi.qual, fi.sig))
        out.append("   %s   sha256 %s *)" % (fi.src, fi.sha))
        out += self.tables
        out += self.loops
        out.append("Definition %s %s : option (%s) :=" % (fi.coq, " ".join(hdr_params), rty))
        pro = []
        if fi.rec is not None and not is_ctor:
            for (fname, t, did) in fi.rec.fields:
                if t is not None:
                    pro.append("let %s := %s this in" % (self.vars[did].name, fi.rec.proj(fname)))
        for l in pro + code:
            out.append("  " + l)
        out[-1] = out[-1] + "."
        fi.text = "\n".join(out)

    def result_type(self):
        fi = self.fi
        comps = []
        for cpt in fi.result_components():
            if cpt == "ret":
                comps.append(fi.ret_rec.tyname() if fi.ret.kind == "rec" else "bool" if fi.ret.kind == "bool" else "Z")
            elif cpt == "this":
                comps.append(fi.rec.tyname())
            else:
                nm = cpt.split(":")[1]
                t = [t for (pn, t, mode) in fi.params if pn == nm][0]
                comps.append("bool" if t.kind == "bool" else "Z")
        return " * ".join(comps) if comps else "unit"

    def has_return(self, n):
        if n.get("kind") == "ReturnStmt":
            return True
        return any(self.has_return(c) for c in n.get("inner", []))

    def ret_type(self, n):
        t = n["type"]
        q = t.get("desugaredQualType", t["qualType"])
        # strip the parameter list (last balanced parenthesis group, possibly followed by const/noexcept)
        d, i = 0, len(q) - 1
        while i >= 0 and q[i] != ")":
            i -= 1
        j = i
        while j >= 0:
            if q[j] == ")":
                d += 1
            elif q[j] == "(":
                d -= 1
                if d == 0:
                    break
            j -= 1
        rs = q[:j].strip()
        ty = self.u.ty_of_str(rs)
        if ty.kind == "other":
            # e.g. 'cds::algo::number_splitter<int>::int_type': find a ReturnStmt and use its expression type
            rts = []
            self.find_returns(n, rts)
            for r in rts:
                if r.get("inner"):
                    return self.u.ty(r["inner"][0])
        return ty

    def find_returns(self, n, acc):
        if n.get("kind") == "ReturnStmt":
            acc.append(n)
        for c in n.get("inner", []):
            if c.get("kind") not in ("LambdaExpr",):
                self.find_returns(c, acc)

    # ---- result construction -----------------------------------------------------------------

    def this_value(self):
        ri = self.fi.rec
        for (f, t, did) in ri.fields:
            if self.fi.is_ctor and t is None:
                raise Unsupported("%s: constructor of a class whose member '%s' has an unsupported type" % (self.fi.qual, f))
            if t is not None and not self.vars[did].init:
                raise Unsupported("%s: member '%s' is not initialised when the object is used / returned" % (self.fi.qual, f))
        return "(%s %s)" % (ri.ctor(), " ".join(self.vars[did].name for (f, t, did) in ri.fields if t is not None))

    def object_size(self, at, tname):
        """sizeof of the object a "memobj" parameter refers to: a struct/class made of bytes only (no padding)."""
        q = strip_cv(tname)
        node = self.u.idx.records.get(q)
        if node is None and "::" in q and self.fi.recnode is not None:
            # a member typedef of the class (e.g. split_bitstring<...>::bitstring)
            last = q.split("::")[-1]
            for c in self.fi.recnode.get("inner", []):
                if c.get("kind") in ("TypedefDecl", "TypeAliasDecl") and c.get("name") == last:
                    tq = strip_cv(c["type"].get("desugaredQualType", c["type"]["qualType"]))
                    node = self.u.idx.records.get(tq)
        if node is None:
            self.bad(at, "\"memobj\" parameter of type '%s': not a struct defined in the translation unit" % tname)
        if node.get("tagUsed") not in ("struct", "class") or node.get("bases") or \
                not node.get("definitionData", {}).get("isTriviallyCopyable"):
            self.bad(at, "\"memobj\" type '%s' is not a trivially copyable struct without bases" % tname)
        size = 0
        for c in node.get("inner", []):
            if c.get("kind") != "FieldDecl":
                continue
            tq = strip_cv(c["type"].get("desugaredQualType", c["type"]["qualType"]))
            m = re.match(r"^(.*?)\s*\[(\d+)\]$", tq)
            et = self.u.ty_of_str(m.group(1) if m else tq)
            if et.kind != "int" or et.bits != 8 or c.get("isBitfield"):
                self.bad(at, "\"memobj\" type '%s': member '%s' is not a byte or an array of bytes (sizeof is computed "
                             "as the sum of the members)" % (tname, c.get("name")))
            size += int(m.group(2)) if m else 1
        if size == 0:
            self.bad(at, "\"memobj\" type '%s' has no members" % tname)
        return size

    def ctor_inits(self, inits):
        """Member-initialiser list of a constructor: one `let field := e in` per member, in the order the AST lists
        them, which must be the declaration order of the members (the order of execution)."""
        ri = self.fi.rec
        order = {did: i for i, (f, t, did) in enumerate(ri.fields)}
        out, last = [], -1
        for ci in inits:
            tgt = ci.get("anyInit")
            if not tgt or tgt.get("kind") != "FieldDecl" or tgt.get("id") not in order:
                self.bad(ci, "constructor initialiser that is not a member of the class (base class / delegating constructor)")
            did = tgt["id"]
            if order[did] <= last:
                self.bad(ci, "member initialisers are not listed in declaration order")
            last = order[did]
            if did not in self.vars:
                self.bad(ci, "constructor initialises member '%s', whose type is not supported" % tgt.get("name"))
            es = [c for c in ci.get("inner", []) if "valueCategory" in c]
            if len(es) != 1:
                self.bad(ci, "member initialiser without exactly one expression")
            et = self.u.ty(es[0])
            if not et.same(self.vars[did].ty):
                self.bad(ci, "member '%s' of type '%s' initialised from an expression of type '%s'"
                         % (tgt.get("name"), self.vars[did].ty.text, et.text))
            pre, term = self.full_expr(es[0])
            out += pre + ["let %s := %s in" % (self.vars[did].name, term)]
            self.vars[did].init = True
        return out

    def result(self, retval):
        r = self.result_tuple(retval)
        if self.loop_ctx:                     # inside a loop: early exit of the enclosing function
            return "Some (Lret %s)" % paren(r)
        return "Some %s" % paren(r)

    def result_tuple(self, retval):
        comps = []
        for cpt in self.fi.result_components():
            if cpt == "ret":
                comps.append(retval)
            elif cpt == "this":
                comps.append(self.this_value())
            else:
                comps.append(cpt.split(":")[1])
        if not comps:
            return "tt"
        if len(comps) == 1:
            return comps[0]
        return "(%s)" % ", ".join(comps)

    def k_fall_off(self):
        if self.fi.ret.kind == "void":
            return [self.result(None)]
        return ["None (* control reaches the end of a non-void function *)"]

    # ---- analysis ----------------------------------------------------------------------------

    def atomic_field(self, obj):
        """decl id if obj is `this->f` with f an atomic<integral> member of the record, else None."""
        if obj.get("kind") == "MemberExpr" and self.fi.rec is not None:
            base = obj["inner"][0]
            while base.get("kind") in ("ImplicitCastExpr", "ParenExpr"):
                base = base["inner"][0]
            did = obj.get("referencedMemberDecl")
            if base.get("kind") == "CXXThisExpr" and did in self.fi.rec.atomic and did in self.vars:
                return did
        return None

    def lvalue_var(self, e):
        """decl id of the variable an lvalue expression denotes, or None."""
        k = e.get("kind")
        if k == "ParenExpr":
            return self.lvalue_var(e["inner"][0])
        if k == "DeclRefExpr":
            did = e["referencedDecl"]["id"]
            return did if did in self.vars else None
        if k == "MemberExpr":
            base = e["inner"][0]
            while base.get("kind") in ("ImplicitCastExpr", "ParenExpr"):
                base = base["inner"][0]
            if base.get("kind") == "CXXThisExpr":
                did = e.get("referencedMemberDecl")
                return did if did in self.vars else None
            if base.get("kind") == "DeclRefExpr" and base["referencedDecl"]["id"] in self.recvars and not e.get("isArrow"):
                return self.recvars[base["referencedDecl"]["id"]][1].get(e.get("referencedMemberDecl"))
            return None
        if k == "UnaryOperator" and e.get("opcode") == "*":
            op = e["inner"][0]
            while op.get("kind") in ("ImplicitCastExpr", "ParenExpr"):
                op = op["inner"][0]
            if op.get("kind") == "DeclRefExpr":
                did = op["referencedDecl"]["id"]
                if did in self.vars and self.vars[did].kind == "cell":
                    return did
            return None
        if k == "UnaryOperator" and e.get("opcode") == "&":
            return None
        if k == "CXXReinterpretCastExpr":
            return self.lvalue_var(e["inner"][0])
        return None

    def assigned(self, n, acc=None):
        """decl ids of variables (known so far) that may be assigned inside n."""
        if acc is None:
            acc = set()
        k = n.get("kind")
        if (k == "BinaryOperator" and n.get("opcode") == "=") or k == "CompoundAssignOperator" or \
           (k == "UnaryOperator" and n.get("opcode") in ("++", "--")):
            did = self.lvalue_var(n["inner"][0])
            if did is not None:
                acc.add(did)
        if k == "CXXMemberCallExpr" and n["inner"][0].get("kind") == "MemberExpr" and n["inner"][0].get("name") == "store":
            o = n["inner"][0]["inner"][0]
            while o.get("kind") in ("ImplicitCastExpr", "ParenExpr"):
                o = o["inner"][0]
            ad = self.atomic_field(o)
            if ad is not None:
                acc.add(ad)
        if k == "CXXMemberCallExpr":
            me = n["inner"][0]
            callee = self.u.idx.by_id.get(me.get("referencedMemberDecl"))
            if callee is not None and not re.search(r"\)\s*const\b", callee["type"]["qualType"]) and self.fi.rec is not None:
                for (f, t, did) in self.fi.rec.fields:
                    if t is not None:
                        acc.add(did)
        if k in ("CallExpr", "CXXMemberCallExpr"):
            for a in n["inner"][1:]:
                x = a
                while x.get("kind") in ("ParenExpr", "ImplicitCastExpr", "CXXReinterpretCastExpr") and x.get("valueCategory") == "lvalue":
                    x = x["inner"][0]
                if x.get("kind") == "UnaryOperator" and x.get("opcode") == "&":
                    x = x["inner"][0]
                did = self.lvalue_var(x) if x.get("valueCategory") == "lvalue" else None
                if did is not None and a.get("valueCategory") == "lvalue" or (a.get("kind") == "UnaryOperator" and a.get("opcode") == "&" and did is not None):
                    acc.add(did)
        for c in n.get("inner", []):
            self.assigned(c, acc)
        return acc

    def always_exits(self, n):
        k = n.get("kind")
        if k in ("ReturnStmt", "BreakStmt", "ContinueStmt"):
            return True
        if k == "CompoundStmt":
            return any(self.always_exits(c) for c in n.get("inner", []))
        if k == "IfStmt":
            parts = n["inner"]
            return len(parts) == 3 and self.always_exits(parts[1]) and self.always_exits(parts[2])
        return False

    def may_exit(self, n, in_loop=False):
        k = n.get("kind")
        if k == "ReturnStmt":
            return True
        if k in ("BreakStmt", "ContinueStmt"):
            return not in_loop
        if k in ("ForStmt", "WhileStmt", "DoStmt"):
            return any(self.may_exit(c, True) for c in n.get("inner", []))
        return any(self.may_exit(c, in_loop) for c in n.get("inner", []))

    # ---- statements --------------------------------------------------------------------------

    def stmts(self, lst, k):
        """Lines of code for the statement list followed by continuation k (a function returning lines)."""
        if not lst:
            return k()
        s, rest = lst[0], lst[1:]
        kk = lambda: self.stmts(rest, k)
        return self.stmt(s, kk)

    def with_scope(self, f):
        depth = len(self.scope)
        r = f()
        del self.scope[depth:]
        return r

    def flush(self, pre):
        out = []
        for b in pre:
            if b[0] == "let":
                out.append("let %s := %s in" % (b[1], b[2]))
            else:
                out.append("%s <- %s ;;" % (b[1], b[2]))
        return out

    def full_expr(self, e):
        """Compile a full expression; returns (lines for the pre-bindings, pure term)."""
        saved, savedr = self.pre, self.reads
        self.pre, self.reads = [], set()
        t = self.ex(e)
        pre = self.pre
        self.pre, self.reads = saved, savedr
        return self.flush(pre), t

    def stmt(self, s, k):
        kd = s.get("kind")
        if kd == "CompoundStmt":
            depth = len(self.scope)

            def kk():
                del self.scope[depth:]
                return k()
            return self.stmts(s.get("inner", []), kk)
        if kd == "NullStmt":
            return k()
        if kd == "DeclStmt":
            out = []
            for d in s.get("inner", []):
                out += self.decl(d)
            return out + k()
        if kd == "ReturnStmt":
            if not s.get("inner"):
                return [self.result(None)]
            e = s["inner"][0]
            if self.fi.ret.kind == "rec":
                saved, savedr = self.pre, self.reads
                self.pre, self.reads = [], set()
                t = self.record_value(e)
                self.pre, self.reads = saved, savedr
                return [self.result(t)]
            # `return [casts] (c ? a : b)` is translated as `if (c) return [casts] a; else return [casts] b;`
            x, wrappers = e, []
            while x.get("kind") in ("ParenExpr", "ImplicitCastExpr", "CStyleCastExpr", "CXXStaticCastExpr", "CXXFunctionalCastExpr") \
                    and x.get("castKind", "NoOp") in ("NoOp", "IntegralCast", "IntegralToBoolean"):
                wrappers.append(x)
                x = x["inner"][-1]
            if x.get("kind") == "ConditionalOperator":
                c, a, b = x["inner"]

                def rewrap(y):
                    for w in reversed(wrappers):
                        y = dict(w, inner=[y])
                    return y
                pre, ct = self.full_expr(c)
                la = self.with_branch(lambda: self.stmt({"kind": "ReturnStmt", "inner": [rewrap(a)]}, None))
                lb = self.with_branch(lambda: self.stmt({"kind": "ReturnStmt", "inner": [rewrap(b)]}, None))
                return pre + self.ite(ct, la, lb)
            pre, t = self.full_expr(e)
            return pre + [self.result(t)]
        if kd == "BreakStmt":
            if not self.loop_ctx:
                self.bad(s, "break outside a loop")
            return self.loop_ctx[-1][0]()
        if kd == "ContinueStmt":
            if not self.loop_ctx:
                self.bad(s, "continue outside a loop")
            return self.loop_ctx[-1][1]()
        if kd == "IfStmt":
            return self.if_stmt(s, k)
        if kd in ("ForStmt", "WhileStmt", "DoStmt"):
            return self.loop_stmt(s, k)
        if "valueCategory" in s:      # an expression statement
            pre, t = self.full_expr_stmt(s)
            return pre + k()
        self.bad(s, "unsupported statement")

    def full_expr_stmt(self, e):
        saved, savedr = self.pre, self.reads
        self.pre, self.reads = [], set()
        self.ex(e, stmt=True)
        pre = self.pre
        self.pre, self.reads = saved, savedr
        return self.flush(pre), None

    def with_branch(self, f):
        """Compile a branch: variables declared inside go out of scope afterwards; init flags are restored."""
        depth = len(self.scope)
        inits = {d: v.init for d, v in self.vars.items()}
        r = f()
        del self.scope[depth:]
        self._branch_inits = {d: v.init for d, v in self.vars.items()}
        for d, v in self.vars.items():
            if d in inits:
                v.init = inits[d]
        return r

    def ite(self, c, la, lb):
        out = ["if %s then" % c]
        out += ["  " + l for l in la]
        out.append("else")
        out += ["  " + l for l in lb]
        return out

    def if_stmt(self, s, k):
        parts = s["inner"]
        if s.get("hasVar") or s.get("hasInit"):
            self.bad(s, "if with init/condition variable")
        cond, th = parts[0], parts[1]
        el = parts[2] if len(parts) > 2 else {"kind": "NullStmt"}
        pre, ct = self.full_expr(cond)
        te, ee = self.always_exits(th), self.always_exits(el)
        in_loop = bool(self.loop_ctx)
        if te and ee:
            la = self.with_branch(lambda: self.stmt(th, lambda: []))
            lb = self.with_branch(lambda: self.stmt(el, lambda: []))
            return pre + self.ite(ct, la, lb)
        if te:
            la = self.with_branch(lambda: self.stmt(th, lambda: []))
            lb = self.stmt(el, k)
            return pre + self.ite(ct, la, lb)
        if ee:
            lb = self.with_branch(lambda: self.stmt(el, lambda: []))
            la = self.stmt(th, k)
            return pre + self.ite(ct, la, lb)
        if self.may_exit(th) or self.may_exit(el):
            # a branch may leave the function/loop or fall through: the continuation is duplicated
            inits = {d: v.init for d, v in self.vars.items()}
            depth = len(self.scope)
            la = self.stmt(th, k)
            del self.scope[depth:]
            for d, v in self.vars.items():
                if d in inits:
                    v.init = inits[d]
            lb = self.stmt(el, k)
            return pre + self.ite(ct, la, lb)
        # join
        mod = [d for d in self.scope if d in (self.assigned(th) | self.assigned(el))]
        names = [self.vars[d].name for d in mod]
        tup = "tt" if not names else (names[0] if len(names) == 1 else "(%s)" % ", ".join(names))

        def endk():
            for d in mod:
                if not self.vars[d].init:
                    self.bad(s, "variable '%s' may be uninitialised after this if" % self.vars[d].name)
            return ["Some %s" % tup]
        la = self.with_branch(lambda: self.stmt(th, endk))
        ia = self._branch_inits
        lb = self.with_branch(lambda: self.stmt(el, endk))
        for d in mod:
            self.vars[d].init = True
        body = self.ite(ct, la, lb)
        pat = "_" if not names else (names[0] if len(names) == 1 else "'(%s)" % ", ".join(names))
        if not names and la == ["Some tt"] and lb == ["Some tt"]:
            return pre + k()
        out = pre + ["%s <- (" % pat] + ["  " + l for l in body] + [") ;;"]
        return out + k()

    # ---- declarations ------------------------------------------------------------------------

    def decl(self, d):
        kd = d.get("kind")
        if kd in ("StaticAssertDecl", "TypedefDecl", "TypeAliasDecl", "UsingDecl"):
            return []
        if kd != "VarDecl":
            self.bad(d, "unsupported declaration")
        t_raw = d["type"].get("desugaredQualType", d["type"]["qualType"])
        m = re.match(r"^(.*)\[(\d*)\]$", strip_cv(t_raw).strip())
        if m:
            if d.get("storageClass") != "static" or "const" not in t_raw:
                self.bad(d, "only static const arrays are supported")
            et = self.u.ty_of_str(m.group(1))
            if et.kind != "int":
                self.bad(d, "array of non-integer")
            init = [c for c in d.get("inner", []) if "valueCategory" in c]
            if not init or init[0].get("kind") != "InitListExpr":
                self.bad(d, "array without initializer list")
            vals = [self.const_eval(x, et) for x in init[0].get("inner", [])]
            if m.group(2) and int(m.group(2)) != len(vals):
                self.bad(d, "array with implicit zero fill is not supported")
            name = "%s_%s" % (self.fi.coq, d["name"])
            rows = []
            for i in range(0, len(vals), 16):
                rows.append("  " + "; ".join(lit(v) for v in vals[i:i + 16]))
            self.tables.append("Definition %s : list Z := [\n%s\n]." % (name, ";\n".join(rows)))
            v = Var(name, et, "table")
            v.init = True
            self.vars[d["id"]] = v
            return []
        t = self.u.ty(d)
        if t.kind == "rec":
            return self.decl_record(d, t)
        if t.kind not in ("int", "bool") and not (t.kind == "ptr" and t.elem.kind == "int" and t.elem.bits == 8):
            self.bad(d, "local variable '%s' of unsupported type '%s'" % (d.get("name"), t.text))
        init = [c for c in d.get("inner", []) if "valueCategory" in c]
        if d.get("storageClass") == "static":
            self.bad(d, "static local variable")
        if not init:
            self.declare(d["id"], d["name"], t, "local", False)
            return []
        pre, term = self.full_expr(init[0])
        v = self.declare(d["id"], d["name"], t, "local", True)
        return pre + ["let %s := %s in" % (v.name, term)]

    def decl_record(self, d, t):
        """`T m;` for a named record T with a trivial default constructor: one variable per member, all
        uninitialised (reading a member before it is assigned is an error, as for scalars)."""
        ri = self.u.recs_by_type[t.text]
        if d.get("storageClass") == "static":
            self.bad(d, "static local variable")
        dd = ri.node.get("definitionData", {})
        init = [c for c in d.get("inner", []) if "valueCategory" in c]
        ok = len(init) == 1 and init[0].get("kind") == "CXXConstructExpr" and not init[0].get("inner") \
            and not init[0].get("zeroing") and not init[0].get("list") and not init[0].get("initializer_list") \
            and d.get("init") == "call" and dd.get("defaultCtor", {}).get("trivial") is True
        if not ok:
            self.bad(d, "local struct variable '%s': only default initialisation `T %s;` of a struct with a trivial "
                        "default constructor is supported" % (d.get("name"), d.get("name")))
        keys = {}
        for (fname, ft, fdid) in ri.fields:
            if ft is None:
                self.bad(d, "local struct variable '%s': member '%s' has an unsupported type" % (d.get("name"), fname))
            key = "%s.%s" % (d["id"], fdid)
            self.declare(key, "%s_%s" % (d["name"], fname), ft, "local", False)
            keys[fdid] = key
        self.recvars[d["id"]] = (ri, keys)
        return []

    def recvar_of(self, e):
        """decl id of the local struct variable an expression denotes (through parentheses / no-op casts), or None."""
        x = e
        while x.get("kind") in ("ParenExpr", "ImplicitCastExpr") and x.get("castKind", "NoOp") == "NoOp":
            x = x["inner"][0]
        if x.get("kind") == "DeclRefExpr" and x["referencedDecl"]["id"] in self.recvars:
            return x["referencedDecl"]["id"]
        return None

    def record_value(self, e):
        """`return m;` for a local struct variable m of the function's return type: the record built from m's members.
        The copy/move constructor clang inserts must be the trivial one."""
        x = e
        while x.get("kind") in ("ExprWithCleanups", "ParenExpr", "MaterializeTemporaryExpr", "CXXBindTemporaryExpr") or \
                (x.get("kind") == "ImplicitCastExpr" and x.get("castKind") == "NoOp"):
            x = x["inner"][0]
        ri = self.fi.ret_rec
        dd = ri.node.get("definitionData", {})
        if x.get("kind") == "CXXConstructExpr" and len(x.get("inner", [])) == 1:
            ct = x.get("ctorType", {}).get("qualType", "")
            if not (dd.get("copyCtor", {}).get("trivial") is True and dd.get("moveCtor", {"trivial": True}).get("trivial") is True
                    and re.match(r"^void \((const )?.*(&|&&)\)( noexcept)?$", ct)):
                self.bad(e, "returning a struct through a non-trivial copy/move constructor")
            x = x["inner"][0]
        vid = self.recvar_of(x)
        if vid is None:
            self.bad(e, "a struct-returning function may only `return m;` for a local struct variable m")
        vri, keys = self.recvars[vid]
        if vri is not ri:
            self.bad(e, "returned variable is not of the function's return type")
        names = []
        for (fname, ft, fdid) in ri.fields:
            if not self.vars[keys[fdid]].init:
                self.bad(e, "member '%s' of the returned struct is not initialised" % fname)
            names.append(self.read_var(keys[fdid], e))
        return "(%s %s)" % (ri.ctor(), " ".join(names))

    def const_eval(self, e, ty=None):
        k = e.get("kind")
        if k == "IntegerLiteral":
            return int(e["value"])
        if k == "ConstantExpr" and "value" in e:
            return int(e["value"])
        if k in ("ParenExpr", "SubstNonTypeTemplateParmExpr"):
            return self.const_eval(e["inner"][-1])
        if k in ("ImplicitCastExpr", "CStyleCastExpr", "CXXStaticCastExpr", "CXXFunctionalCastExpr"):
            ck = e.get("castKind")
            v = self.const_eval(e["inner"][-1])
            if ck == "NoOp":
                return v
            if ck == "IntegralCast":
                t = self.u.ty(e)
                if t.kind != "int":
                    self.bad(e, "constant cast to non-integer")
                lo, hi = t.rng()
                v &= (1 << t.bits) - 1
                return v - (1 << t.bits) if v > hi else v
            self.bad(e, "constant expression: cast kind %s" % ck)
        if k == "UnaryOperator" and e.get("opcode") == "-":
            return -self.const_eval(e["inner"][0])
        if k == "UnaryExprOrTypeTraitExpr" and e.get("name") == "sizeof":
            return self.sizeof(e)
        self.bad(e, "constant expression outside the supported subset")

    def sizeof(self, e):
        if "argType" in e:
            t = self.u.ty_of_str(e["argType"]["qualType"], e["argType"].get("desugaredQualType"))
        else:
            t = self.u.ty(e["inner"][0])
        if t.kind == "int":
            return t.bits // 8
        if t.kind == "bool":
            return 1
        if t.kind == "ptr":
            return 8
        self.bad(e, "sizeof of unsupported type '%s'" % t.text)

    # ---- expressions -------------------------------------------------------------------------

    def bind(self, optterm):
        t = self.temp()
        self.pre.append(("bind", t, optterm))
        return t

    def read_var(self, did, e):
        v = self.vars[did]
        if v.kind == "memobj":
            self.bad(e, "use of the \"memobj\" parameter '%s' other than reinterpret_cast<uint8_t const*>( &%s )" % (v.name, v.name))
        if not v.init:
            self.bad(e, "variable '%s' is read before it is initialised" % v.name)
        self.reads.add(did)
        return v.name

    def assign(self, did, term, e):
        v = self.vars[did]
        if v.kind in ("table", "memobj"):
            self.bad(e, "assignment to a constant table / \"memobj\" parameter")
        self.pre.append(("let", v.name, term))
        v.init = True
        self.effects += 1

    def conv(self, term, src, dst, e):
        """IntegralCast src -> dst."""
        if dst.kind == "bool":
            if src.kind == "bool":
                return term
            return "to_bool %s" % paren(term)
        if dst.kind != "int":
            self.bad(e, "conversion to unsupported type '%s'" % dst.text)
        if src.kind == "bool":
            return "of_bool %s" % paren(term)
        if src.kind != "int":
            self.bad(e, "conversion from unsupported type '%s'" % src.text)
        lo, hi = dst.rng()
        slo, shi = src.rng()
        if lo <= slo and shi <= hi:
            return term                      # value preserving
        m = re.match(r"^\(?(-?\d+|0x[0-9a-f]+)\)?$", term)
        if m:
            v = int(m.group(1), 0)
            if lo <= v <= hi:
                return term
        return "cast %s %s" % (dst.coq(), paren(term))

    def ex(self, e, stmt=False):
        """Compile expression e; impure parts are appended to self.pre; returns a pure Coq term."""
        k = e.get("kind")
        if k in ("ParenExpr", "ExprWithCleanups"):
            return self.ex(e["inner"][0], stmt)
        if k == "SubstNonTypeTemplateParmExpr":        # a template argument substituted for its parameter
            return self.ex(e["inner"][-1], stmt)
        if k == "ConstantExpr":
            if "value" in e and self.u.ty(e).kind == "int":
                return lit(int(e["value"]))
            return self.ex(e["inner"][0], stmt)
        if k == "IntegerLiteral":
            return lit(int(e["value"]))
        if k == "CXXBoolLiteralExpr":
            return "true" if e.get("value") else "false"
        if k == "UnaryExprOrTypeTraitExpr":
            if e.get("name") != "sizeof":
                self.bad(e, "unsupported type trait '%s'" % e.get("name"))
            return lit(self.sizeof(e))
        if k in ("ImplicitCastExpr", "CStyleCastExpr", "CXXStaticCastExpr", "CXXFunctionalCastExpr"):
            return self.cast_expr(e, stmt)
        if k == "CXXReinterpretCastExpr" and e.get("castKind") == "BitCast":
            # reinterpret_cast<uint8_t const*>( &h ) for the "memobj" parameter h: the pointer to byte 0 of `mem`
            t = self.u.ty(e)
            x = e["inner"][-1]
            while x.get("kind") == "ParenExpr":
                x = x["inner"][0]
            if t.kind == "ptr" and t.elem.kind == "int" and t.elem.bits == 8 and not t.elem.signed and \
                    x.get("kind") == "UnaryOperator" and x.get("opcode") == "&":
                y = x["inner"][0]
                while y.get("kind") == "ParenExpr":
                    y = y["inner"][0]
                if y.get("kind") == "DeclRefExpr":
                    v = self.vars.get(y["referencedDecl"]["id"])
                    if v is not None and v.kind == "memobj":
                        self.fi.needs_mem = True
                        return "0"
            self.bad(e, "reinterpret_cast to a pointer (only reinterpret_cast<uint8_t const*>( &h ) of a \"memobj\" parameter h)")
        if k == "DeclRefExpr":
            # a prvalue reference to an enumerator / constant
            self.bad(e, "reference to '%s' outside an lvalue-to-rvalue conversion" % e.get("referencedDecl", {}).get("name"))
        if k == "UnaryOperator":
            return self.unary(e, stmt)
        if k == "BinaryOperator":
            return self.binary(e, stmt)
        if k == "CompoundAssignOperator":
            return self.compound_assign(e, stmt)
        if k == "ConditionalOperator":
            return self.conditional(e)
        if k in ("CallExpr", "CXXMemberCallExpr", "CXXOperatorCallExpr"):
            return self.call(e, stmt)
        self.bad(e, "unsupported expression")

    def lvalue_read(self, lv, e):
        k = lv.get("kind")
        if k == "ParenExpr":
            return self.lvalue_read(lv["inner"][0], e)
        did = self.lvalue_var(lv)
        if did is not None and k != "CXXReinterpretCastExpr":
            return self.read_var(did, lv)
        if k == "CXXReinterpretCastExpr":
            self.check_reinterpret(lv)
            return self.lvalue_read(lv["inner"][0], e)
        if k == "DeclRefExpr":
            # a constant defined elsewhere (static constexpr member, namespace-scope const)
            ref = e_ref = lv["referencedDecl"]
            d = self.u.idx.by_id.get(ref["id"])
            if d is None or d.get("kind") != "VarDecl":
                self.bad(lv, "reference to '%s' which is not a translated variable or constant" % ref.get("name"))
            if did is None and ref["id"] in self.vars:
                return self.read_var(ref["id"], lv)
            tq = d["type"]["qualType"]
            if "const" not in tq and not d.get("constexpr"):
                self.bad(lv, "reference to the non-constant global '%s'" % ref.get("name"))
            init = [c for c in d.get("inner", []) if "valueCategory" in c]
            if not init:
                self.bad(lv, "constant '%s' has no initialiser in the AST" % ref.get("name"))
            return lit(self.const_eval_deep(init[0]))
        if k == "MemberExpr":
            self.bad(lv, "access to member '%s' which is not a supported field of a named record" % lv.get("name"))
        if k == "UnaryOperator" and lv.get("opcode") == "*":
            p = self.ex(lv["inner"][0])
            pt = self.u.ty(lv["inner"][0])
            if pt.kind != "ptr" or pt.elem.kind != "int" or pt.elem.bits != 8:
                self.bad(lv, "dereference of a pointer to '%s' (only byte pointers and in/out cells)" % pt.text)
            self.fi.needs_mem = True
            return self.bind("load mem %s" % paren(p))
        if k == "ArraySubscriptExpr":
            base, idx = lv["inner"]
            b = base
            while b.get("kind") in ("ImplicitCastExpr", "ParenExpr"):
                b = b["inner"][0]
            if b.get("kind") == "DeclRefExpr" and b["referencedDecl"]["id"] in self.vars and self.vars[b["referencedDecl"]["id"]].kind == "table":
                it = self.ex(idx)
                return self.bind("c_index %s %s" % (self.vars[b["referencedDecl"]["id"]].name, paren(it)))
            bt = self.u.ty(base)
            if bt.kind == "ptr" and bt.elem.kind == "int" and bt.elem.bits == 8:
                p = self.ex(base)
                it = self.ex(idx)
                self.fi.needs_mem = True
                q = self.bind("ptr_add mem %s %s" % (paren(p), paren(it)))
                return self.bind("load mem %s" % q)
            self.bad(lv, "subscript of something that is not a static const table or a byte pointer")
        self.bad(lv, "unsupported lvalue")

    def const_eval_deep(self, e):
        """Constant initialisers may mention other constants and sizeof."""
        k = e.get("kind")
        if k in ("ImplicitCastExpr",) and e.get("castKind") == "LValueToRValue":
            x = e["inner"][0]
            if x.get("kind") == "DeclRefExpr":
                d = self.u.idx.by_id.get(x["referencedDecl"]["id"])
                init = [c for c in (d or {}).get("inner", []) if "valueCategory" in c]
                if d is not None and init:
                    return self.const_eval_deep(init[0])
            self.bad(e, "constant initialiser refers to something without a constant value")
        if k == "ConditionalOperator":
            c, a, b = e["inner"]
            return self.const_eval_deep(a) if self.const_eval_deep(c) else self.const_eval_deep(b)
        if k in ("ImplicitCastExpr", "CStyleCastExpr", "CXXStaticCastExpr", "CXXFunctionalCastExpr"):
            ck = e.get("castKind")
            v = self.const_eval_deep(e["inner"][-1])
            if ck == "NoOp":
                return v
            if ck == "IntegralToBoolean":
                return 1 if v else 0
            if ck == "IntegralCast":
                t = self.u.ty(e)
                if t.kind == "bool":
                    return 1 if v else 0
                lo, hi = t.rng()
                v &= (1 << t.bits) - 1
                return v - (1 << t.bits) if v > hi else v
            self.bad(e, "constant expression: cast kind %s" % ck)
        if k in ("ParenExpr", "ConstantExpr", "SubstNonTypeTemplateParmExpr"):
            if k == "ConstantExpr" and "value" in e:
                return int(e["value"])
            return self.const_eval_deep(e["inner"][-1])
        if k == "IntegerLiteral":
            return int(e["value"])
        if k == "UnaryExprOrTypeTraitExpr" and e.get("name") == "sizeof":
            return self.sizeof(e)
        if k == "BinaryOperator" and e.get("opcode") in ("*", "+", "-") and self.u.ty(e).kind == "int" and not self.u.ty(e).signed:
            a, b = [self.const_eval_deep(x) for x in e["inner"]]
            r = {"*": a * b, "+": a + b, "-": a - b}[e["opcode"]]
            return r & ((1 << self.u.ty(e).bits) - 1)
        self.bad(e, "constant initialiser outside the supported subset")

    def check_reinterpret(self, e):
        a, b = self.u.ty(e), self.u.ty(e["inner"][0])
        if not (a.kind == "int" and b.kind == "int" and a.bits == b.bits and a.signed == b.signed):
            self.bad(e, "reinterpret_cast between '%s' and '%s' (only identical integer representations)" % (b.text, a.text))

    def cast_expr(self, e, stmt):
        ck = e.get("castKind")
        sub = e["inner"][-1]
        if ck == "LValueToRValue":
            return self.lvalue_read(sub, e)
        if ck == "NoOp":
            return self.ex(sub, stmt)
        if ck == "UserDefinedConversion":     # only the conversion operator of an atomic member reaches call()
            return self.ex(sub, stmt)
        if ck == "ToVoid":
            if stmt:
                x = sub
                while x.get("kind") == "ParenExpr":
                    x = x["inner"][0]
                if x.get("kind") == "IntegerLiteral":
                    return "tt"
                self.ex(sub)
                return "tt"
            self.bad(e, "void cast inside an expression")
        if ck == "IntegralCast":
            t = self.ex(sub)
            return self.conv(t, self.u.ty(sub), self.u.ty(e), e)
        if ck == "IntegralToBoolean":
            t = self.ex(sub)
            return self.conv(t, self.u.ty(sub), self.u.ty(e), e)
        self.bad(e, "unsupported cast kind '%s'" % ck)

    def unary(self, e, stmt):
        op = e.get("opcode")
        sub = e["inner"][0]
        t = self.u.ty(e)
        if op in ("++", "--"):
            if not stmt:
                self.bad(e, "++/-- whose value is used inside a larger expression")
            did = self.lvalue_var(sub)
            if did is None:
                self.bad(e, "++/-- of an unsupported lvalue")
            v = self.vars[did]
            old = self.read_var(did, sub)
            one = "1" if op == "++" else "(-1)"
            if v.ty.kind == "ptr":
                self.fi.needs_mem = True
                new = self.bind("ptr_add mem %s %s" % (old, one))
            elif v.ty.kind == "int":
                # the operation is performed in the promoted type and converted back
                pt = v.ty if v.ty.bits >= 32 else Ty("int", 32, True, text="int")
                fn = ("sadd" if op == "++" else "ssub") if pt.signed else ("uadd" if op == "++" else "usub")
                if pt.signed:
                    r = self.bind("%s %s %s 1" % (fn, pt.coq(), old))
                else:
                    r = "%s %s %s 1" % (fn, pt.coq(), old)
                new = self.conv(r, pt, v.ty, e)
            else:
                self.bad(e, "++/-- on '%s'" % v.ty.text)
            self.assign(did, new, e)
            return v.name
        if op == "*":
            self.bad(e, "dereference outside an lvalue-to-rvalue conversion")
        a = self.ex(sub)
        if op == "+":
            return a
        if op == "!":
            return "negb %s" % paren(a)
        if t.kind != "int":
            self.bad(e, "unary %s on '%s'" % (op, t.text))
        if op == "~":
            return "c_not %s %s" % (t.coq(), paren(a))
        if op == "-":
            if t.signed:
                return self.bind("sneg %s %s" % (t.coq(), paren(a)))
            return "uneg %s %s" % (t.coq(), paren(a))
        self.bad(e, "unsupported unary operator '%s'" % op)

    ARITH = {"+": ("uadd", "sadd"), "-": ("usub", "ssub"), "*": ("umul", "smul")}
    BITS = {"&": "c_and", "|": "c_or", "^": "c_xor"}
    CMP = {"<": "c_lt", "<=": "c_le", ">": "c_gt", ">=": "c_ge", "==": "c_eq", "!=": "c_ne"}

    def arith(self, op, t, a, b, e):
        if op in self.ARITH:
            u_, s_ = self.ARITH[op]
            if t.signed:
                return self.bind("%s %s %s %s" % (s_, t.coq(), paren(a), paren(b)))
            return "%s %s %s %s" % (u_, t.coq(), paren(a), paren(b))
        if op in self.BITS:
            return "%s %s %s %s" % (self.BITS[op], t.coq(), paren(a), paren(b))
        if op == "/":
            return self.bind("c_div %s %s %s" % (t.coq(), paren(a), paren(b)))
        if op == "%":
            return self.bind("c_rem %s %s %s" % (t.coq(), paren(a), paren(b)))
        if op == "<<":
            return self.bind("c_shl %s %s %s" % (t.coq(), paren(a), paren(b)))
        if op == ">>":
            return self.bind("c_shr %s %s %s" % (t.coq(), paren(a), paren(b)))
        self.bad(e, "unsupported binary operator '%s'" % op)

    def sub_block(self, e):
        """Compile e in its own bindings list (for conditionally evaluated operands)."""
        saved = self.pre
        self.pre = []
        eff = self.effects
        t = self.ex(e)
        pre = self.pre
        self.pre = saved
        if self.effects != eff:
            self.bad(e, "assignment / mutating call inside a conditionally evaluated operand")
        return pre, t

    def opt_block(self, pre, t):
        if not pre:
            return "Some %s" % paren(t)
        return "(" + " ".join(self.flush(pre)) + " Some %s)" % paren(t)

    def binary(self, e, stmt):
        op = e.get("opcode")
        l, r = e["inner"]
        t = self.u.ty(e)
        if op == "=":
            did = self.lvalue_var(l)
            if did is None:
                self.bad(e, "assignment to an unsupported lvalue")
            if not stmt:
                self.bad(e, "assignment whose value is used inside a larger expression")
            if l.get("kind") == "CXXReinterpretCastExpr":
                self.check_reinterpret(l)
            rt = self.ex(r)
            self.assign(did, rt, e)
            return self.vars[did].name
        if op == ",":
            self.bad(e, "comma operator")
        if op in ("&&", "||"):
            a = self.ex(l)
            pre, b = self.sub_block(r)
            if not pre:
                return "%s %s %s" % (paren(a), op, paren(b))
            if op == "&&":
                return self.bind("(if %s then %s else Some false)" % (a, self.opt_block(pre, b)))
            return self.bind("(if %s then Some true else %s)" % (a, self.opt_block(pre, b)))
        lt, rt_ = self.u.ty(l), self.u.ty(r)
        if op in self.CMP:
            a, b = self.ex(l), self.ex(r)
            if lt.kind == "bool" and rt_.kind == "bool":
                a, b = "of_bool %s" % paren(a), "of_bool %s" % paren(b)
            elif not ((lt.kind == "int" and rt_.kind == "int" and lt.same(rt_)) or (lt.kind == "ptr" and rt_.kind == "ptr")):
                self.bad(e, "comparison of '%s' with '%s'" % (lt.text, rt_.text))
            return "%s %s %s" % (self.CMP[op], paren(a), paren(b))
        if lt.kind == "ptr" or rt_.kind == "ptr":
            a, b = self.ex(l), self.ex(r)
            for p in (lt, rt_):
                if p.kind == "ptr" and not (p.elem.kind == "int" and p.elem.bits == 8):
                    self.bad(e, "pointer arithmetic on '%s' (only byte pointers)" % p.text)
            self.fi.needs_mem = True
            if lt.kind == "ptr" and rt_.kind == "ptr" and op == "-":
                return self.bind("ssub i64 %s %s" % (paren(a), paren(b)))
            if lt.kind == "ptr" and rt_.kind == "int" and op in ("+", "-"):
                return self.bind("ptr_add mem %s %s" % (paren(a), paren(b) if op == "+" else "(- %s)" % paren(b)))
            if lt.kind == "int" and rt_.kind == "ptr" and op == "+":
                return self.bind("ptr_add mem %s %s" % (paren(b), paren(a)))
            self.bad(e, "unsupported pointer operation '%s'" % op)
        if t.kind != "int":
            self.bad(e, "binary '%s' at type '%s'" % (op, t.text))
        if op in ("<<", ">>"):
            if not lt.same(t):
                self.bad(e, "shift whose left operand type differs from the result type")
        elif not (lt.same(t) and rt_.same(t)):
            self.bad(e, "operands of '%s' are not converted to the result type (%s, %s -> %s)" % (op, lt.text, rt_.text, t.text))
        a, b = self.ex(l), self.ex(r)
        return self.arith(op, t, a, b, e)

    def compound_assign(self, e, stmt):
        if not stmt:
            self.bad(e, "compound assignment whose value is used inside a larger expression")
        op = e["opcode"][:-1]
        l, r = e["inner"]
        did = self.lvalue_var(l)
        if did is None:
            self.bad(e, "compound assignment to an unsupported lvalue")
        v = self.vars[did]
        old = self.read_var(did, l)
        rt = self.ex(r)
        if v.ty.kind == "ptr":
            if op not in ("+", "-"):
                self.bad(e, "pointer compound assignment '%s='" % op)
            self.fi.needs_mem = True
            new = self.bind("ptr_add mem %s %s" % (old, paren(rt) if op == "+" else "(- %s)" % paren(rt)))
            self.assign(did, new, e)
            return v.name
        clt = self.u.ty_of_str(e["computeLHSType"]["qualType"], e["computeLHSType"].get("desugaredQualType"))
        crt = self.u.ty_of_str(e["computeResultType"]["qualType"], e["computeResultType"].get("desugaredQualType"))
        if v.ty.kind != "int" or clt.kind != "int" or crt.kind != "int":
            self.bad(e, "compound assignment on non-integers")
        a = self.conv(old, v.ty, clt, e)
        if op not in ("<<", ">>"):
            if not (clt.same(crt) and self.u.ty(r).same(crt)):
                self.bad(e, "compound assignment: operand types are not the computation type")
        res = self.arith(op, crt, a, rt, e)
        new = self.conv(res, crt, v.ty, e)
        self.assign(did, new, e)
        return v.name

    def conditional(self, e):
        c, a, b = e["inner"]
        ct = self.ex(c)
        pa, ta = self.sub_block(a)
        pb, tb = self.sub_block(b)
        if not pa and not pb:
            return "(if %s then %s else %s)" % (ct, ta, tb)
        return self.bind("(if %s then %s else %s)" % (ct, self.opt_block(pa, ta), self.opt_block(pb, tb)))

    def check_stateless_temporary(self, obj, declid, e):
        x = obj
        while x.get("kind") in ("ImplicitCastExpr", "ParenExpr", "MaterializeTemporaryExpr", "CXXBindTemporaryExpr", "CXXFunctionalCastExpr"):
            if x.get("kind") in ("ImplicitCastExpr", "CXXFunctionalCastExpr") and x.get("castKind") not in ("NoOp", "ConstructorConversion"):
                self.bad(e, "operator call on an object reached through cast '%s'" % x.get("castKind"))
            x = x["inner"][0]
        if x.get("kind") not in ("CXXTemporaryObjectExpr", "CXXConstructExpr") or x.get("inner"):
            self.bad(e, "overloaded operator call whose object is not a default-constructed temporary `F()`")
        rec = self.u.idx.rec_of_method.get(declid)
        if rec is None:
            self.bad(e, "overloaded operator that is not a member of a class")
        for c in rec.get("inner", []):
            if c.get("kind") == "FieldDecl":
                self.bad(e, "functor class '%s' has data members" % rec.get("name"))
            if c.get("kind") == "CXXConstructorDecl" and not c.get("isImplicit") and \
                    any(b.get("kind") == "CompoundStmt" and b.get("inner") for b in c.get("inner", [])):
                self.bad(e, "functor class '%s' has a user-provided constructor with a body" % rec.get("name"))
            if c.get("kind") == "CXXRecordDecl" and False:
                pass
        if any(b.get("kind") == "CXXBaseSpecifier" for b in rec.get("inner", [])) or rec.get("bases"):
            self.bad(e, "functor class '%s' has base classes" % rec.get("name"))

    def call(self, e, stmt):
        k = e["kind"]
        head = e["inner"][0]
        args = e["inner"][1:]
        on_this = False
        if k == "CXXMemberCallExpr":
            if head.get("kind") != "MemberExpr":
                self.bad(e, "member call through something that is not a member expression")
            obj = head["inner"][0]
            while obj.get("kind") in ("ImplicitCastExpr", "ParenExpr"):
                obj = obj["inner"][0]
            adid = self.atomic_field(obj)
            if adid is not None:
                mname = head.get("name", "")
                if mname == "load" or mname.startswith("operator "):       # x.load(mo) / implicit conversion
                    return self.read_var(adid, e)
                if mname == "store" and stmt and args:
                    self.assign(adid, self.ex(args[0]), e)
                    return "tt"
                self.bad(e, "unsupported operation '%s' on an atomic member (only load/store/conversion)" % mname)
            if obj.get("kind") != "CXXThisExpr":
                self.bad(e, "method call on an object other than `this`")
            declid = head.get("referencedMemberDecl")
            on_this = True
        else:
            h = head
            while h.get("kind") in ("ImplicitCastExpr", "ParenExpr"):
                h = h["inner"][0]
            if h.get("kind") != "DeclRefExpr":
                self.bad(e, "call through something that is not a function name")
            declid = h["referencedDecl"]["id"]
            if k == "CXXOperatorCallExpr":
                # F()(args): call operator of a stateless functor temporary; the temporary is dropped
                self.check_stateless_temporary(args[0], declid, e)
                args = args[1:]
        m, coqname = self.u.callee(declid, e)
        if m.get("ctor") or m.get("ret_kind") == "rec" or m.get("memobj"):
            self.bad(e, "call of a constructor / struct-returning function / function over a \"memobj\" from translated code")
        if k == "CXXOperatorCallExpr" and m["record"] is not None:
            self.bad(e, "operator call on an object with state")
        argv = []
        if m["needs_fuel"]:
            self.fi.needs_fuel = True
            argv.append("fuel")
        if m["needs_mem"]:
            self.fi.needs_mem = True
            argv.append("mem")
        mutates_this = False
        if m["record"] is not None:
            if not on_this or self.fi.rec is None or self.fi.rec.coq != m["record"]:
                self.bad(e, "call of a method of record %s from outside that record" % m["record"])
            for (f, t, did) in self.fi.rec.fields:
                if t is not None:
                    self.read_var(did, e)
            argv.append(self.this_value())
            mutates_this = m["mutates_this"]
            if mutates_this and not self.fi.mutates:
                self.bad(e, "const method calls a non-const method")
        if len(args) != len(m["params"]):
            self.bad(e, "call with %d arguments to a function of %d parameters (default arguments are not supported)" % (len(args), len(m["params"])))
        outs = []
        for a, p in zip(args, m["params"]):
            if isinstance(a, dict) and a.get("kind") == "CXXDefaultArgExpr":
                self.bad(e, "default argument")
            if p["mode"] == "inout":
                x = a
                while x.get("kind") in ("ParenExpr", "ImplicitCastExpr"):
                    x = x["inner"][0]
                if x.get("kind") == "UnaryOperator" and x.get("opcode") == "&":
                    x = x["inner"][0]
                y = x
                while y.get("kind") in ("ParenExpr", "CXXReinterpretCastExpr"):
                    if y.get("kind") == "CXXReinterpretCastExpr":
                        self.check_reinterpret(y)
                    y = y["inner"][0]
                did = self.lvalue_var(y)
                if did is None:
                    self.bad(a, "argument for an in/out parameter is not a supported lvalue")
                pt = self.u.ty_of_str(p["type"])
                if not self.vars[did].ty.same(pt):
                    self.bad(a, "in/out argument of type '%s' for a parameter cell of type '%s'" % (self.vars[did].ty.text, pt.text))
                argv.append(self.read_var(did, a))
                outs.append(did)
            else:
                argv.append(paren(self.ex(a)))
        if (mutates_this or outs):
            # hazard: a variable modified by this call was already read in this full expression into a pure term
            pass
        comps = m["result"]
        term = "%s %s" % (coqname, " ".join(argv)) if argv else coqname
        pats, retname = [], "tt"
        oi = 0
        post = []
        for cpt in comps:
            if cpt == "ret":
                retname = self.temp()
                pats.append(retname)
            elif cpt == "this":
                tn = self.temp()
                pats.append(tn)
                for (f, t, did) in self.fi.rec.fields:
                    if t is not None:
                        post.append((did, "%s %s" % (self.fi.rec.proj(f), tn)))
            else:
                did = outs[oi]
                oi += 1
                tn = self.temp()
                pats.append(tn)
                post.append((did, tn))
        if not pats:
            pat = "_"
        elif len(pats) == 1:
            pat = pats[0]
        else:
            pat = "'(%s)" % ", ".join(pats)
        self.pre.append(("bind", pat, term))
        for did, tm in post:
            self.assign(did, tm, e)
        return retname

    # ---- loops -------------------------------------------------------------------------------

    def refs(self, n, acc):
        k = n.get("kind")
        if k == "DeclRefExpr":
            did = n["referencedDecl"]["id"]
            if did in self.vars:
                acc.add(did)
            if did in self.recvars:
                acc.update(self.recvars[did][1].values())
        elif k == "MemberExpr":
            did = n.get("referencedMemberDecl")
            if did in self.vars:
                acc.add(did)
        elif k == "CXXThisExpr" and self.fi.rec is not None:
            pass
        if k == "CXXMemberCallExpr" and self.fi.rec is not None:
            for (f, t, did) in self.fi.rec.fields:
                if t is not None:
                    acc.add(did)
        for c in n.get("inner", []):
            self.refs(c, acc)
        return acc

    def loop_stmt(self, s, k):
        kd = s["kind"]
        out = []
        depth = len(self.scope)
        if kd == "ForStmt":
            init, condvar, cond, inc, body = s["inner"]
            if condvar:
                self.bad(s, "for with a condition variable")
            if init:
                if init.get("kind") == "DeclStmt":
                    for d in init.get("inner", []):
                        out += self.decl(d)
                else:
                    pre, _ = self.full_expr_stmt(init)
                    out += pre
        elif kd == "WhileStmt":
            cond, body = s["inner"][-2], s["inner"][-1]
            if len(s["inner"]) != 2:
                self.bad(s, "while with a condition variable")
            inc = None
        else:
            body, cond = s["inner"]
            inc = None
        parts = [x for x in (cond, inc, body) if x]
        state = [d for d in self.scope if d in set().union(*[self.assigned(p) for p in parts])]
        used = set()
        for p in parts:
            self.refs(p, used)
        if any(self.has_return(p) for p in parts):
            # an early return builds the function result: the new `this` and the in/out cells are needed
            if self.fi.mutates and self.fi.rec is not None:
                used |= {did for (f, t, did) in self.fi.rec.fields if t is not None}
            used |= {d for d, v in self.vars.items() if v.kind == "cell"}
        inv = [d for d in self.scope if d in used and d not in state]
        for d in state + inv:
            if not self.vars[d].init and d in inv:
                self.bad(s, "loop reads uninitialised variable '%s'" % self.vars[d].name)
        for d in state:
            if not self.vars[d].init:
                self.bad(s, "loop state variable '%s' is uninitialised at loop entry" % self.vars[d].name)
        self.nloop += 1
        lname = "%s_loop%d" % (self.fi.coq, self.nloop)
        self.fi.needs_fuel = True
        snames = [self.vars[d].name for d in state]
        tup = "tt" if not snames else (snames[0] if len(snames) == 1 else "(%s)" % ", ".join(snames))
        needs_mem_before = self.fi.needs_mem
        # the loop function is compiled with a placeholder for `mem`; whether it is needed is known afterwards
        MEMPH = "\0MEM\0"

        returning = any(self.has_return(p) for p in parts)

        def k_break():
            return ["Some (Lnorm %s)" % tup] if returning else ["Some %s" % tup]

        def recurse():
            return ["%s fuel%s %s" % (lname, MEMPH, " ".join(self.vars[d].name for d in inv + state))]

        def k_continue():
            if inc:
                pre, _ = self.full_expr_stmt(inc)
                return pre + recurse()
            return recurse()

        saved_needs = self.fi.needs_mem
        self.fi.needs_mem = False
        self.loop_ctx.append((k_break, k_continue))
        inner_depth = len(self.scope)
        if kd == "DoStmt":
            def after_body():
                del self.scope[inner_depth:]
                pre, ct = self.full_expr(cond)
                return pre + self.ite(ct, recurse(), k_break())
            lines = self.stmt(body, after_body)
        else:
            if cond:
                pre, ct = self.full_expr(cond)
            else:
                pre, ct = [], "true"

            def after_body():
                del self.scope[inner_depth:]
                return k_continue()
            bl = self.stmt(body, after_body)
            lines = pre + self.ite(ct, bl, k_break())
        self.loop_ctx.pop()
        del self.scope[inner_depth:]
        loop_mem = self.fi.needs_mem
        self.fi.needs_mem = saved_needs or loop_mem
        memarg = " mem" if loop_mem else ""
        params = "".join(" (%s : %s)" % (self.vars[d].name, "bool" if self.vars[d].ty.kind == "bool" else "Z") for d in inv + state)
        stys = " * ".join("bool" if self.vars[d].ty.kind == "bool" else "Z" for d in state) or "unit"
        if returning:
            stys = "lres (%s) (%s)" % (stys, self.rty)
        fx = ["Fixpoint %s (fuel : nat)%s%s : option (%s) :=" % (lname, " (mem : list Z)" if loop_mem else "", params, stys),
              "  match fuel with", "  | O => None", "  | S fuel =>"]
        fx += ["    " + l.replace(MEMPH, memarg) for l in lines]
        fx.append("  end.")
        self.loops.append("\n".join(fx))
        pat = "_" if not snames else (snames[0] if len(snames) == 1 else "'(%s)" % ", ".join(snames))
        callt = "%s fuel%s %s" % (lname, memarg, " ".join(self.vars[d].name for d in inv + state))
        if not returning:
            out.append("%s <- %s ;;" % (pat, callt))
            return out + k()
        lr = self.temp()
        rv = self.temp()
        out.append("%s <- %s ;;" % (lr, callt))
        out.append("match %s with" % lr)
        # an early `return` of the loop leaves the function (or propagates through an enclosing loop)
        out.append("| Lret %s => %s" % (rv, "Some (Lret %s)" % rv if self.loop_ctx else "Some %s" % rv))
        npat = "_" if not snames else (snames[0] if len(snames) == 1 else "(%s)" % ", ".join(snames))
        out.append("| Lnorm %s =>" % npat)
        out += ["  " + l for l in k()]
        out.append("end")
        return out


# --------------------------------------------------------------------------------------------------

def load_units():
    with open(os.environ.get("CXX2V_UNITS", os.path.join(HERE, "units.json"))) as f:
        return json.load(f)["units"]


def load_registry(exclude=None):
    reg = {}
    for p in sorted(os.listdir(GEN)) if os.path.isdir(GEN) else []:
        if p.endswith(".meta.json"):
            m = json.load(open(os.path.join(GEN, p)))
            if m["unit"] == exclude:
                continue
            for f in m["functions"]:
                reg.setdefault((f["cxx"], f["sig"]), []).append(f)     # several units may translate the same function
    return reg


def _write_if_changed(path, text):
    if os.path.exists(path) and open(path).read() == text:
        return
    with open(path, "w") as f:
        f.write(text)


def generate(unit_spec, workdir):
    """Translate one unit; writes coq/Gen/Gen_<unit>.v and Gen_<unit>.meta.json (left untouched when the
    content is unchanged, so that `make` stays incremental; removed when the translation fails).
    Raises Unsupported."""
    os.makedirs(GEN, exist_ok=True)
    vpath = os.path.join(GEN, "Gen_%s.v" % unit_spec["name"])
    mpath = os.path.join(GEN, "Gen_%s.meta.json" % unit_spec["name"])
    try:
        u = Unit(unit_spec, load_registry(unit_spec["name"]))
        for r in u.requires:
            if not os.path.exists(os.path.join(GEN, "Gen_%s.meta.json" % r)):
                raise Unsupported("unit '%s' requires unit '%s' which has not been generated" % (u.name, r))
        u.load(workdir)
        text = u.emit()
    except Exception:
        for p in (vpath, mpath, vpath + "o", vpath + "os", vpath + "ok"):
            if os.path.exists(p):
                os.remove(p)
        raise
    _write_if_changed(vpath, text + "\n")
    _write_if_changed(mpath, json.dumps(u.meta(), indent=1))
    return u


def main(argv):
    units = load_units()
    names = argv[1:] or [u["name"] for u in units]
    rc = 0
    with tempfile.TemporaryDirectory(prefix="cxx2v_") as wd:
        for u in units:
            if u["name"] not in names:
                continue
            try:
                r = generate(u, wd)
                print("cxx2v: unit %-14s ok  (%d functions -> coq/Gen/Gen_%s.v)" % (u["name"], len(r.order), u["name"]))
            except Unsupported as ex:
                print("cxx2v: unit %s FAILED: %s" % (u["name"], ex))
                rc = 1
    unknown = [n for n in names if n not in [u["name"] for u in units]]
    if unknown:
        print("cxx2v: unknown unit(s): %s" % ", ".join(unknown))
        rc = 1
    return rc


if __name__ == "__main__":
    sys.exit(main(sys.argv))
