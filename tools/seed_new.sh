#!/bin/bash
# tools/seed_new.sh <name> <property-id> "<additional constraint>": prepares /tmp/seed-<name>/{repo,out,prompt.txt,property.txt}
# for a fresh seeding sub-agent (which sees nothing from /verif: the property text is copied out).
N="$1"; ID="$2"; EXTRA="$3"
/verif/tools/seed_prep.sh $N > /dev/null || exit 2
python3 - "$N" "$ID" "$EXTRA" <<'PY'
import json,sys
n,pid,extra=sys.argv[1:]
for l in open('/verif/properties.jsonl'):
    o=json.loads(l)
    if o['id']==pid:
        a=o.get('anchors',{})
        txt="%s\n\n%s\n\nQuantifier: %s\n\nWhy the existing tests cannot settle it: %s\n\nFiles: %s\n"%(o['title'],o['statement'],o['quantifier']['text'],o['why_tests_cant'],', '.join(a.get('files',[])))
        open('/tmp/seed-%s/property.txt'%n,'w').write(txt)
p=open('/verif/tools/seed_prompt.txt').read().replace('seed-C22b','seed-'+n)
i=p.find('ADDITIONAL CONSTRAINT FOR THIS TASK:')
p=p[:i]+'ADDITIONAL CONSTRAINT FOR THIS TASK: '+(extra or 'none.')+'\n'
open('/tmp/seed-%s/prompt.txt'%n,'w').write(p)
PY
echo prepared /tmp/seed-$N
