#!/opt/veriftools/pyvenv/bin/python
"""Validates MANIFEST.json and every evidence/*.json against the schemas in /root/.vp (when present)."""
import json, glob, sys, os
import jsonschema
ok = True
def val(path, schema):
    global ok
    try:
        jsonschema.validate(json.load(open(path)), json.load(open(schema)))
    except Exception as e:
        ok = False; print("INVALID", path, str(e)[:300])
val('/verif/MANIFEST.json', '/root/.vp/MANIFEST.schema.json')
n = 0
for f in sorted(glob.glob('/verif/evidence/*.json')):
    val(f, '/root/.vp/EVIDENCE.schema.json'); n += 1
m = json.load(open('/verif/MANIFEST.json'))
ids = [c['property_id'] for c in m['checks']]
for i in ids:
    if not os.path.exists('/verif/evidence/%s.json' % i):
        ok = False; print("missing evidence", i)
print("validated MANIFEST + %d evidence files: %s" % (n, "ok" if ok else "PROBLEMS"))
sys.exit(0 if ok else 1)
