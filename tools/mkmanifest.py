#!/usr/bin/env python3
"""Regenerates /verif/MANIFEST.json from checks/registry.json (one entry per claimed property) and
properties.jsonl (every property not claimed is listed under not_applicable with the reason recorded in
the registry's "unclaimed" map)."""
import json, os, sys
ROOT = os.path.dirname(os.path.dirname(os.path.abspath(__file__)))
reg = json.load(open(os.path.join(ROOT, "checks", "registry.json")))
props = [json.loads(l) for l in open(os.path.join(ROOT, "properties.jsonl"))]
checks = []
na = []
for p in props:
    pid = p["id"]
    e = reg["claimed"].get(pid)
    if e and os.path.exists(os.path.join(ROOT, "checks", pid + ".py")):
        checks.append({
            "property_id": pid,
            "quick_cmd": "bin/check %s --tier quick" % pid,
            "thorough_cmd": "bin/check %s --tier thorough" % pid,
            "evidence_file": "/verif/evidence/%s.json" % pid,
            "replay_cmd_template": "bin/check %s --replay {path}" % pid,
            "engine": e.get("engine", "coq-proof+correspondence"),
            "level_claimed": {"category": e.get("category", "proof"), "text": e["text"], "design_ref": "DESIGN.md §7 %s" % pid},
            "level_note": e["note"],
            "technique": e.get("technique", "machine-checked proof in Coq 8.16.1 about an executable model + correspondence check against the real code"),
        })
    else:
        na.append({"property_id": pid, "reason": reg["unclaimed"].get(pid, "machinery not built yet (work in progress, DESIGN.md §10)")})
m = {
    "version": 1,
    "setup_cmd": "bin/setup",
    "hooks": reg["hooks"],
    "engines": reg["engines"],
    "checks": checks,
    "notes": reg.get("notes", ""),
    "not_applicable": na,
}
json.dump(m, open(os.path.join(ROOT, "MANIFEST.json"), "w"), indent=1)
print("MANIFEST: %d checks, %d not_applicable" % (len(checks), len(na)))
