#!/bin/bash
# lincheck_selftest.sh -- build the verified linearizability checker from scratch and run it
# on a handful of histories with known verdicts.
#
#   1. copies coq/Base/Lin.v, coq/Spec/Specs.v, coq/Proofs/LinProofs.v, coq/Extract/Extract_Lin.v
#      to a private tree under /verif/_work/lin/src and compiles them there (so nothing stale is used);
#      checks that every `Print Assumptions` of LinProofs.v says "Closed under the global context";
#   2. extracts lin.ml/lin.mli, builds ocaml/lincheck_main.ml against them;
#   3. runs the cases below and compares the verdicts.
# Exit status 0 iff everything matched.  Every coqc runs under `timeout`.

set -u
VERIF="$(cd "$(dirname "$0")/.." && pwd)"
WORK="$VERIF/_work/lin"
SRC="$WORK/src"
fail=0

rm -rf "$WORK"
mkdir -p "$SRC/Base" "$SRC/Spec" "$SRC/Proofs" "$SRC/Extract" || exit 1
cp "$VERIF/coq/Base/Lin.v" "$SRC/Base/" &&
cp "$VERIF/coq/Spec/Specs.v" "$SRC/Spec/" &&
cp "$VERIF/coq/Proofs/LinProofs.v" "$SRC/Proofs/" &&
cp "$VERIF/coq/Extract/Extract_Lin.v" "$SRC/Extract/" || exit 1

step() { echo "== $*"; }

step "coqc Base/Lin.v";        (cd "$SRC" && timeout 600 coqc -Q . LV Base/Lin.v)   || { echo "FAIL: Lin.v"; exit 1; }
step "coqc Spec/Specs.v";      (cd "$SRC" && timeout 600 coqc -Q . LV Spec/Specs.v) || { echo "FAIL: Specs.v"; exit 1; }
step "coqc Proofs/LinProofs.v"
(cd "$SRC" && timeout 600 coqc -Q . LV Proofs/LinProofs.v) > "$WORK/linproofs.out" 2>&1 || { cat "$WORK/linproofs.out"; echo "FAIL: LinProofs.v"; exit 1; }
nclosed=$(grep -c "^Closed under the global context" "$WORK/linproofs.out")
nother=$(grep -v "^Closed under the global context" "$WORK/linproofs.out" | grep -c .)
echo "   Print Assumptions: $nclosed closed, $nother other output lines"
if [ "$nclosed" -lt 4 ] || [ "$nother" -ne 0 ]; then cat "$WORK/linproofs.out"; echo "FAIL: assumptions"; fail=1; fi
if sed 's/(\*.*\*)//' "$SRC"/*/*.v | grep -n -w -E "Admitted|admit|Axiom|Parameter|Conjecture"; then echo "FAIL: forbidden word"; fail=1; fi

step "extraction"
(cd "$WORK" && timeout 600 coqc -Q "$SRC" LV -w none -o "$WORK/Extract_Lin.vo" "$SRC/Extract/Extract_Lin.v") || { echo "FAIL: extraction"; exit 1; }
step "ocaml build"
cp "$VERIF/ocaml/lincheck_main.ml" "$WORK/" || exit 1
(cd "$WORK" && timeout 600 ocamlfind ocamlopt -w -a lin.mli lin.ml lincheck_main.ml -o lincheck) || { echo "FAIL: ocaml build"; exit 1; }

# expect <name> <expected verdicts, blank separated> <lincheck arguments...>   (history on stdin)
# every case is decided three times: default mode, plain search (-nomemo), memoised search (-memo)
expect() {
  local name="$1" want="$2"; shift 2
  local input got mode
  input=$(cat)
  for mode in "" -nomemo -memo; do
    if [ "$1" = "-lp" ] && [ -n "$mode" ]; then continue; fi
    got=$(printf '%s\n' "$input" | "$WORK/lincheck" $mode "$@" | tr '\n' ' ' | sed 's/ $//')
    if [ "$got" = "$want" ]; then echo "   ok    $name ${mode:+[$mode]}: $got"
    else echo "   FAIL  $name ${mode:+[$mode]}: expected '$want' got '$got'"; fail=1; fi
  done
}

step "cases"

# --- FIFO queue -----------------------------------------------------------------------------
expect "fifo: sequential, wrong order" "NOTLIN" fifo <<'EOF'
inv 0 enq 1
res 0 true
inv 1 enq 2
res 1 true
inv 0 deq
res 0 some 2
EOF

expect "fifo: overlapping enqueues, either order" "OK OK" fifo <<'EOF'
inv 0 enq 1
inv 1 enq 2
res 0 true
res 1 true
inv 0 deq
inv 1 deq
res 0 some 2
res 1 some 1
---
inv 0 enq 1
inv 1 enq 2
res 0 true
res 1 true
inv 0 deq
res 0 some 1
inv 1 deq
res 1 some 2
EOF

expect "fifo: item dequeued twice" "NOTLIN" fifo <<'EOF'
inv 0 enq 7
res 0 true
inv 1 deq
inv 2 deq
res 1 some 7
res 2 some 7
EOF

expect "fifo: invented item" "NOTLIN" fifo <<'EOF'
inv 0 enq 7
res 0 true
inv 1 deq
res 1 some 8
EOF

expect "fifo: empty although an item was there during the whole call" "NOTLIN" fifo <<'EOF'
inv 0 enq 1
res 0 true
inv 1 deq
res 1 none
EOF

expect "fifo: empty is fine while the enqueue is still running" "OK" fifo <<'EOF'
inv 0 enq 1
inv 1 deq
res 1 none
res 0 true
EOF

expect "fifo: pending enqueue took effect (completed with a response) / is dropped" "OK OK" fifo <<'EOF'
inv 0 enq 1
inv 1 deq
res 1 some 1
---
inv 0 enq 1
inv 1 deq
res 1 none
EOF

expect "fifo: malformed histories" "MALFORMED MALFORMED" fifo <<'EOF'
inv 0 enq 1
inv 0 deq
---
res 3 none
EOF

expect "bfifo 1: enqueue on a full queue must fail" "OK NOTLIN" bfifo 1 <<'EOF'
inv 0 enq 1
res 0 true
inv 0 enq 2
res 0 false
inv 1 deq
res 1 some 1
---
inv 0 enq 1
res 0 true
inv 0 enq 2
res 0 true
EOF

# --- stack ----------------------------------------------------------------------------------
expect "stack: LIFO / FIFO order" "OK NOTLIN" stack <<'EOF'
inv 0 push 1
res 0 true
inv 0 push 2
res 0 true
inv 1 pop
res 1 some 2
inv 1 pop
res 1 some 1
inv 1 pop
res 1 none
---
inv 0 push 1
res 0 true
inv 0 push 2
res 0 true
inv 1 pop
res 1 some 1
EOF

expect "stack: concurrent push and pop (elimination)" "OK" stack <<'EOF'
inv 0 push 1
res 0 true
inv 1 push 2
inv 2 pop
res 2 some 2
res 1 true
inv 2 pop
res 2 some 1
EOF

# --- deque, priority queue ------------------------------------------------------------------
expect "deque" "OK NOTLIN" deque <<'EOF'
inv 0 push_back 1
res 0 true
inv 0 push_front 2
res 0 true
inv 1 pop_back
res 1 some 1
inv 1 pop_back
res 1 some 2
---
inv 0 push_back 1
res 0 true
inv 0 push_front 2
res 0 true
inv 1 pop_front
res 1 some 1
EOF

expect "pqueue: pop returns the maximum" "OK NOTLIN" pqueue <<'EOF'
inv 0 push 3
res 0 true
inv 1 push 9
res 1 true
inv 0 push -4
res 0 true
inv 2 pop
res 2 some 9
inv 2 pop
res 2 some 3
---
inv 0 push 3
res 0 true
inv 1 push 9
res 1 true
inv 2 pop
res 2 some 3
EOF

# --- set, map -------------------------------------------------------------------------------
expect "set: insert/erase/contains" "OK NOTLIN OK" set <<'EOF'
inv 0 insert 5
inv 1 insert 5
res 0 true
res 1 false
inv 0 contains 5
res 0 true
inv 1 erase 5
res 1 true
inv 0 erase 5
res 0 false
---
inv 0 insert 5
inv 1 insert 5
res 0 true
res 1 true
---
inv 0 insert 5
inv 1 contains 5
res 1 false
res 0 true
EOF

expect "set: lost erase" "NOTLIN" set <<'EOF'
inv 0 insert 1
res 0 true
inv 1 erase 1
res 1 true
inv 2 contains 1
res 2 true
EOF

expect "set: update flags and extract_min/max" "OK NOTLIN" set <<'EOF'
inv 0 update 4 0
res 0 pair false false
inv 0 update 4 1
res 0 pair true true
inv 0 upsert 4
res 0 pair true false
inv 1 insert 2
res 1 true
inv 1 extract_max
res 1 some 4
inv 1 extract_min
res 1 some 2
inv 1 extract_min
res 1 none
---
inv 0 update 4 0
res 0 pair true true
EOF

expect "map: insert keeps, update replaces" "OK NOTLIN" map <<'EOF'
inv 0 insert 1 10
res 0 true
inv 1 insert 1 11
res 1 false
inv 0 find 1
res 0 some 10
inv 1 update 1 12 0
res 1 pair true false
inv 0 find 1
res 0 some 12
inv 0 erase 1
res 0 true
inv 0 find 1
res 0 none
---
inv 0 insert 1 10
res 0 true
inv 1 upsert 1 11
res 1 pair true false
inv 0 find 1
res 0 some 10
EOF

# --- annotated traces (-lp) -----------------------------------------------------------------
expect "lp: valid / result differs from the specification at the linearization point" "OK BADLP" -lp fifo <<'EOF'
inv 0 enq 1
inv 1 deq
lin 0
lin 1
res 1 some 1
res 0 true
---
inv 0 enq 1
inv 1 deq
lin 1
lin 0
res 1 some 1
res 0 true
EOF

if [ "$fail" -eq 0 ]; then echo "lincheck_selftest: ALL OK"; else echo "lincheck_selftest: FAILED"; fi
exit "$fail"
