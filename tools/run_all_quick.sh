#!/bin/bash
# tools/run_all_quick.sh [parallelism] : runs every registered quick check against /repo (evidence rewritten), P at a time;
# prints one line per check (exit status, wall seconds, VIOLATION / KNOWN-FINDING counts); logs under _work/runall/.
P="${1:-3}"
cd /verif; mkdir -p _work/runall
ids=$(python3 -c "import json; print(' '.join(c['property_id'] for c in json.load(open('MANIFEST.json'))['checks']))")
run1() { id=$1; t0=$(date +%s); timeout 3600 bin/check $id --tier quick > _work/runall/$id.log 2>&1; rc=$?; t1=$(date +%s);
  echo "$id rc=$rc wall=$((t1-t0))s violations=$(grep -c '^VIOLATION' _work/runall/$id.log) known=$(grep -c '^KNOWN-FINDING' _work/runall/$id.log)"; }
export -f run1
echo $ids | tr ' ' '\n' | xargs -P $P -I{} bash -c 'run1 {}'
