#!/bin/bash
# tools/seed_eval.sh <name> <property-id> "<gtest targets>" [gtest filter]
# Confirms a seeded change produced by an independent sub-agent (in /tmp/seed-<name>/out) and runs the
# property's check against it:
#   1. fresh scratch worktree of /repo HEAD; demo passes there;
#   2. patch applied: demo fails; the listed unit-test targets still build and pass;
#   3. VERIF_REPO=<worktree> bin/check <id>  -> does the check fire?
#   4. writes /verif/seeded/<name>/{patch.diff,demo.*,notes.md,meta.json,check.log}; removes the worktree.
N="$1"; ID="$2"; TARGETS="$3"; FILTER="${4:-*}"
SRC=/tmp/seed-$N/out
W=/tmp/eval-$N
OUT=/verif/seeded/$N
[ -f $SRC/patch.diff ] || { echo "no patch in $SRC"; exit 2; }
mkdir -p $OUT; cp $SRC/patch.diff $SRC/demo.* $SRC/notes.md $OUT/ 2>/dev/null
rm -rf $W; git -C /repo worktree prune; git -C /repo worktree add --detach -q $W/repo HEAD || exit 2
cd $OUT
demo_rc() { ( cd $W && cp $OUT/demo.* . && timeout 300 sh ./demo.sh $W/repo > $W/demo.out 2>&1; echo $? ); }
RC_CLEAN=$(demo_rc)
git -C $W/repo apply $OUT/patch.diff || { echo "patch does not apply"; RC_APPLY=1; }
RC_MUT=$(demo_rc); tail -5 $W/demo.out > $OUT/demo_mutated.out
TESTS="not-run"
if [ -n "$TARGETS" ]; then
  cmake -G Ninja -S $W/repo -B $W/build -DCMAKE_BUILD_TYPE=RelWithDebInfo -DLIBCDS_WITH_TESTS=ON > /dev/null 2>&1
  TESTS="pass"
  for t in $TARGETS; do
    nice cmake --build $W/build --target $t -j8 > $W/build_$t.log 2>&1 || { TESTS="build-failed:$t"; break; }
    ( cd $W/build/bin && timeout 1500 ./$t --gtest_filter="$FILTER" > $W/test_$t.log 2>&1 ) || { TESTS="tests-failed:$t"; tail -5 $W/test_$t.log; break; }
    tail -3 $W/test_$t.log
  done
  rm -rf $W/build
fi
cd /verif
T0=$(date +%s)
VERIF_REPO=$W/repo timeout 3000 bin/check $ID --tier quick > $OUT/check.log 2>&1; RC_CHECK=$?
T1=$(date +%s)
VIOL=$(grep -c "^VIOLATION" $OUT/check.log)
NOINPUT=$(grep "^VIOLATION" $OUT/check.log | grep -c "no-failing-input-found")
FIRST=$(grep -m1 "^VIOLATION" $OUT/check.log)
# keep the first replay next to the seed, drop the others
R=$(echo "$FIRST" | sed -n 's/.*replay=\([^ ]*\).*/\1/p'); [ -n "$R" ] && [ -f "$R" ] && cp "$R" $OUT/replay.json
grep "^VIOLATION" $OUT/check.log | sed -n 's/.*replay=\([^ ]*\).*/\1/p' | xargs -r rm -f
python3 - "$N" "$ID" "$RC_CLEAN" "$RC_MUT" "$TESTS" "$RC_CHECK" "$VIOL" "$NOINPUT" "$((T1-T0))" "$TARGETS" "$FILTER" <<'EOF'
import json,sys,os
n,pid,rc_clean,rc_mut,tests,rc_check,viol,noinput,secs,targets,flt=sys.argv[1:]
out='/verif/seeded/%s'%n
notes=open(out+'/notes.md').read() if os.path.exists(out+'/notes.md') else ''
meta={"name":n,"property":pid,
 "demo_exit_unmodified":int(rc_clean),"demo_exit_modified":int(rc_mut),
 "unit_tests_with_change":tests,"unit_test_targets":targets,"gtest_filter":flt,
 "check_cmd":"VERIF_REPO=<scratch worktree with patch.diff applied> bin/check %s --tier quick"%pid,
 "check_exit":int(rc_check),"violation_lines":int(viol),"violations_without_failing_input":int(noinput),"check_wall_s":int(secs),
 "caught": int(viol)>0, "caught_with_concrete_input": int(viol)>int(noinput),
 "needs_to_manifest": notes[:1500]}
json.dump(meta,open(out+'/meta.json','w'),indent=1)
print(json.dumps({k:meta[k] for k in meta if k!='needs_to_manifest'}))
EOF
git -C /repo worktree remove --force $W/repo; rm -rf $W
