#!/bin/bash
# tools/seed_tests.sh <name> "<gtest targets>"
# Re-confirms that the unit-test targets that exercise the changed code still build and pass with the seeded
# change seeded/<name>/patch.diff applied (scratch worktree under /tmp, removed afterwards); records the result
# in seeded/<name>/meta.json (unit_tests_with_change, unit_test_targets).
N="$1"; TARGETS="$2"
OUT=/verif/seeded/$N
W=/tmp/seedtest-$N
rm -rf $W; git -C /repo worktree prune; git -C /repo worktree add --detach -q $W/repo HEAD || exit 2
git -C $W/repo apply $OUT/patch.diff || { echo "patch does not apply"; exit 2; }
cmake -G Ninja -S $W/repo -B $W/build -DCMAKE_BUILD_TYPE=RelWithDebInfo -DLIBCDS_WITH_TESTS=ON > /dev/null 2>&1
TESTS="pass"
for t in $TARGETS; do
  nice cmake --build $W/build --target $t -j6 > $W/build_$t.log 2>&1 || { TESTS="build-failed:$t"; tail -5 $W/build_$t.log; break; }
  ( cd $W/build/bin && timeout 1500 ./$t > $W/test_$t.log 2>&1 ) || { TESTS="tests-failed:$t"; tail -5 $W/test_$t.log; break; }
  tail -2 $W/test_$t.log
done
python3 - "$N" "$TESTS" "$TARGETS" <<'EOF'
import json,sys
n,tests,targets=sys.argv[1:]
p='/verif/seeded/%s/meta.json'%n
m=json.load(open(p)); m['unit_tests_with_change']=tests; m['unit_test_targets']=targets
json.dump(m,open(p,'w'),indent=1); print(n,tests)
EOF
git -C /repo worktree remove --force $W/repo; rm -rf $W
