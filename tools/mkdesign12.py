#!/usr/bin/env python3
"""Regenerates the table of DESIGN.md section 12 (between <!-- BEGIN-SEEDTABLE --> and <!-- END-SEEDTABLE -->) from
seeded/*/meta.json, so that the table cannot drift from what was actually run.  Columns 'first run' and 'after
strengthening' are computed from the recorded check results (check_exit / violation_lines / rechecks); 'summary' and
'file' are the one-line description kept in meta.json (file defaults to the first file touched by patch.diff)."""
import json, os, re, glob
ROOT = os.path.dirname(os.path.dirname(os.path.abspath(__file__)))


def verdict(d):
    if not d.get("caught"):
        return "MISSED"
    return "caught, concrete input" if d.get("caught_with_concrete_input") else "caught, no-failing-input-found"


rows = []
for mf in sorted(glob.glob(os.path.join(ROOT, "seeded", "*", "meta.json"))):
    m = json.load(open(mf))
    n = m["name"]
    f = m.get("file")
    if not f:
        pd = os.path.join(os.path.dirname(mf), "patch.diff")
        mm = re.search(r"^\+\+\+ b/(\S+)", open(pd).read(), re.M) if os.path.exists(pd) else None
        f = mm.group(1) if mm else "?"
    summ = m.get("summary") or (m.get("needs_to_manifest", "").strip().split("\n")[0].lstrip("# ").strip()[:140]) or "?"
    summ = re.sub(r"^(Seed|seed|SEED)\s+C\d\d[a-z]\s*[\u2014:\-]+\s*", "", summ)
    summ = re.sub(r"^C\d\d\s+seed:\s*", "", summ)
    first = m.get("first_run") or verdict(m)
    after = m.get("after_strengthening")
    if after is None:
        rs = m.get("rechecks", [])
        last = {}
        for r in rs:
            last[r["check"]] = r
        after = "; ".join("%s: %s" % (k, verdict(v).replace("caught, ", "caught, ")) for k, v in sorted(last.items())) or "—"
    rows.append("| %s | %s | `%s` | %s | %s | %s |" % (n, m["property"], f, summ.replace("|", "/"), first, after))
table = ["| seed | property | file | change | first run of the check | after strengthening (latest re-check) |",
         "|------|----------|------|--------|------------------------|---------------------------------------|"] + rows
p = os.path.join(ROOT, "DESIGN.md")
d = open(p).read()
b, e = "<!-- BEGIN-SEEDTABLE -->", "<!-- END-SEEDTABLE -->"
assert b in d and e in d
d = d[:d.index(b) + len(b)] + "\n" + "\n".join(table) + "\n" + d[d.index(e):]
open(p, "w").write(d)
print("DESIGN 12: %d seeded changes" % len(rows))
