#!/bin/bash
# tools/seed_recheck.sh <name> <property-id>: re-runs only the check against an already confirmed seeded change
# (/verif/seeded/<name>/patch.diff) and appends the outcome to its meta.json under "rechecks".
N="$1"; ID="$2"; OUT=/verif/seeded/$N; W=/tmp/eval-$N-$ID
rm -rf $W; git -C /repo worktree prune; git -C /repo worktree add --detach -q $W/repo HEAD || exit 2
git -C $W/repo apply $OUT/patch.diff || { echo "patch does not apply"; git -C /repo worktree remove --force $W/repo; exit 2; }
cd /verif; T0=$(date +%s)
VERIF_REPO=$W/repo timeout 3000 bin/check $ID --tier quick > $OUT/check_$ID.log 2>&1; RC=$?
T1=$(date +%s)
VIOL=$(grep -c "^VIOLATION" $OUT/check_$ID.log); NOINPUT=$(grep "^VIOLATION" $OUT/check_$ID.log | grep -c "no-failing-input-found")
R=$(grep -m1 "^VIOLATION" $OUT/check_$ID.log | sed -n 's/.*replay=\([^ ]*\).*/\1/p'); [ -n "$R" ] && [ -f "$R" ] && cp "$R" $OUT/replay_$ID.json
grep "^VIOLATION" $OUT/check_$ID.log | sed -n 's/.*replay=\([^ ]*\).*/\1/p' | xargs -r rm -f
python3 - "$N" "$ID" "$RC" "$VIOL" "$NOINPUT" "$((T1-T0))" <<'PY'
import json,sys
n,pid,rc,viol,noinput,secs=sys.argv[1:]
p='/verif/seeded/%s/meta.json'%n
m=json.load(open(p))
m.setdefault('rechecks',[]).append({"check":pid,"check_exit":int(rc),"violation_lines":int(viol),"violations_without_failing_input":int(noinput),"caught":int(viol)>0,"caught_with_concrete_input":int(viol)>int(noinput),"check_wall_s":int(secs)})
json.dump(m,open(p,'w'),indent=1); print(n,pid,m['rechecks'][-1])
PY
git -C /repo worktree remove --force $W/repo; rm -rf $W
