#!/usr/bin/env python3
"""tools/seed_tests_reduced.py <name> "<gtest targets>"
Confirms that the existing unit tests that exercise the changed code still build and pass with the seeded change
seeded/<name>/patch.diff: for each listed gtest target of libcds only the test sources that (transitively) include a
header touched by the patch are compiled (dependency scan with the target's own compile commands, -MM), linked with
the target's main.cpp into a reduced gtest binary and run.  A patch that touches src/*.cpp rebuilds libcds itself and
then every source of the target is taken.  Result recorded in seeded/<name>/meta.json (unit_tests_with_change,
unit_test_targets, unit_test_sources).  Scratch worktree under /tmp, removed afterwards."""
import json, os, re, shlex, subprocess, sys
from concurrent.futures import ThreadPoolExecutor

name, targets = sys.argv[1], sys.argv[2].split()
out = "/verif/seeded/%s" % name
W = "/tmp/seedtest-%s" % name


def sh(cmd, **kw):
    return subprocess.run(cmd, shell=isinstance(cmd, str), stdout=subprocess.PIPE, stderr=subprocess.STDOUT, text=True, **kw)


sh("rm -rf %s; git -C /repo worktree prune; git -C /repo worktree add --detach -q %s/repo HEAD" % (W, W))
r = sh("git -C %s/repo apply %s/patch.diff" % (W, out))
if r.returncode != 0:
    print("patch does not apply", r.stdout); sys.exit(2)
changed = re.findall(r"^\+\+\+ b/(\S+)", open(out + "/patch.diff").read(), re.M)
lib_changed = any(c.startswith("src/") for c in changed)
sh("cmake -G Ninja -S %s/repo -B %s/build -DCMAKE_BUILD_TYPE=RelWithDebInfo -DLIBCDS_WITH_TESTS=ON" % (W, W))
r = sh("nice ninja -C %s/build -j6 cds" % W)
result = "pass" if r.returncode == 0 else "build-failed:libcds"
used = {}
for t in targets:
    if result != "pass":
        break
    cmds = [l for l in sh("ninja -C %s/build -t commands %s" % (W, t)).stdout.split("\n") if l.strip()]
    comp = [c for c in cmds if " -c " in c and "/test/" in c]
    link = [c for c in cmds if (" -o bin/%s " % t) in c]
    if not link:
        result = "build-failed:%s (no link command)" % t; break

    def deps(c):
        a = shlex.split(c)
        b = []; skip = 0
        for i, x in enumerate(a):
            if skip:
                skip -= 1; continue
            if x in ("-o", "-MF", "-MT"):
                skip = 1; continue
            if x in ("-MD", "-c"):
                continue
            b.append(x)
        rr = sh(b + ["-MM"], cwd=W + "/build")
        return c, rr.stdout

    with ThreadPoolExecutor(8) as ex:
        dl = list(ex.map(deps, comp))
    sel = []
    for c, d in dl:
        src = shlex.split(c)[-1]
        if src.endswith("main.cpp") or lib_changed or any(("/" + h) in d for h in changed):
            sel.append(c)
    objs = []
    def build(c):
        a = shlex.split(c); o = a[a.index("-o") + 1]
        rr = sh("nice " + c, cwd=W + "/build")
        return o, rr.returncode, rr.stdout[-600:]
    with ThreadPoolExecutor(6) as ex:
        br = list(ex.map(build, sel))
    bad = [b for b in br if b[1] != 0]
    if bad:
        result = "build-failed:%s %s" % (t, bad[0][2]); break
    objs = [b[0] for b in br]
    lk = link[0].split(" && cd ")[0]
    lk = re.sub(r"(test/unit/\S+\.cpp\.o\s+)+", " ".join(objs) + " ", lk, count=1)
    rr = sh(lk, cwd=W + "/build")
    if rr.returncode != 0:
        result = "build-failed:%s link %s" % (t, rr.stdout[-400:]); break
    rr = sh("timeout 1500 ./%s" % t, cwd=W + "/build/bin")
    tail = "\n".join(rr.stdout.strip().split("\n")[-3:])
    print(t, tail)
    used[t] = {"sources": sorted(os.path.basename(shlex.split(c)[-1]) for c in sel), "of": len(comp), "summary": tail}
    if rr.returncode != 0:
        result = "tests-failed:%s" % t; break
m = json.load(open(out + "/meta.json"))
m["unit_tests_with_change"] = result
m["unit_test_targets"] = " ".join(targets)
m["unit_test_sources"] = used
m["unit_test_mode"] = "reduced gtest binaries: only the test sources of each target that include a patched header (all sources when src/ is patched), linked with the target's main.cpp"
json.dump(m, open(out + "/meta.json", "w"), indent=1)
print(name, result, {t: "%d/%d sources" % (len(u["sources"]), u["of"]) for t, u in used.items()})
sh("git -C /repo worktree remove --force %s/repo; rm -rf %s" % (W, W))
